import SyneTune.Lemmas.SimPrefix
/-
When the completion event pushed by a run's own start event is processed, every result of
that run has arrived.
-/
namespace SyneTune.SimL
open SyneTune SyneTune.Backend SyneTune.PollL

variable {J : Type}

theorem keyLt_asymm {a b : Ev} (h1 : keyLt a b) (h2 : keyLt b a) : False := by
  unfold keyLt at *
  rcases h1 with h1 | ⟨h1, h1'⟩ <;> rcases h2 with h2 | ⟨h2, h2'⟩
  · linarith
  · linarith
  · linarith
  · omega

/-! ### the ghost fields of a trial the completion invariant looks at -/

def rc (x : STrial) : Nat × Option Nat := (x.runs, x.completedRun)

theorem rc_updT (s : Sim J) (t : Nat) (f : STrial → STrial) (hf : ∀ y, rc (f y) = rc y) :
    (s.updT t f).trials.map rc = s.trials.map rc :=
  map_modifyAt_of_eq rc f hf t s.trials

theorem rc_get_some {l l' : List STrial} (h : l'.map rc = l.map rc) (u : Nat) (x' : STrial) (hx' : l'[u]? = some x') :
    ∃ x, l[u]? = some x ∧ x.runs = x'.runs ∧ x.completedRun = x'.completedRun := by
  have := congrArg (fun m => m[u]?) h
  simp only [List.getElem?_map, hx', Option.map_some] at this
  cases hx : l[u]? with
  | none => rw [hx] at this; cases this
  | some x =>
    rw [hx] at this
    simp only [Option.map_some, Option.some.injEq, rc, Prod.mk.injEq] at this
    exact ⟨x, rfl, this.1.symm, this.2.symm⟩

theorem runsOf_of_rc {s s' : Sim J} (h : s'.trials.map rc = s.trials.map rc) (u : Nat) : runsOf s' u = runsOf s u := by
  have := congrArg (fun m => m[u]?) h
  simp only [List.getElem?_map] at this
  unfold runsOf
  cases h1 : s'.trials[u]? with
  | none =>
    rw [h1] at this
    cases h2 : s.trials[u]? with
    | none => rfl
    | some y => rw [h2] at this; cases this
  | some y' =>
    rw [h1] at this
    cases h2 : s.trials[u]? with
    | none => rw [h2] at this; cases this
    | some y =>
      rw [h2] at this
      simp only [Option.map_some, Option.some.injEq] at this
      have := congrArg Prod.fst this
      simpa [rc] using this

theorem rc_markFlushed (ids : List Nat) (l : List STrial) : (markFlushed ids l).map rc = l.map rc := by
  apply List.ext_getElem?
  intro u
  simp only [List.getElem?_map, markFlushed_get]
  cases l[u]? with
  | none => rfl
  | some y =>
    simp only [Option.map_some, Option.some.injEq]
    split <;> rfl

theorem fetchCovered_rc (ids : List Nat) : ∀ (s : Sim J),
    (fetchCovered s ids).1.trials.map rc = s.trials.map rc := by
  induction ids with
  | nil => intro s; simp [fetchCovered]
  | cons t rest ih =>
    intro s
    unfold fetchCovered
    split
    · exact ih s
    · simp only
      refine (ih (Sim.updT { s with next := _, seen := _, log := _ } t _)).trans ?_
      exact rc_updT _ _ _ (fun y => rfl)

theorem dropRest_rc (l : List (Nat × List Arrived)) : ∀ (s : Sim J),
    (dropRest s l).trials.map rc = s.trials.map rc := by
  induction l with
  | nil => intro s; simp [dropRest]
  | cons p rest ih =>
    intro s
    obtain ⟨t, q⟩ := p
    unfold dropRest
    refine (ih ({ (s.updT t _) with seen := _, log := _ })).trans ?_
    exact rc_updT _ _ _ (fun y => rfl)

/-! ### the concatenation `log ++ next ++ heap` of the indices of one run -/

def cat (s : Sim J) (t r : Nat) : List Nat := logIdx s t r ++ nextIdx s t r ++ heapIdx s t r

theorem cat_frame {s s' : Sim J} (hh : s'.heap = s.heap) (hn : s'.next = s.next) (hl : s'.log = s.log) (t r : Nat) :
    cat s' t r = cat s t r := by
  unfold cat logIdx nextIdx heapIdx
  rw [hh, hn, hl]

theorem heapIdx_pop {s : Sim J} {e : Ev} {rest : List Ev} (hheap : s.heap = e :: rest)
    (hk : ∀ res tag, e.kind ≠ .result res tag) (t r : Nat) :
    heapIdx ({ s with heap := rest } : Sim J) t r = heapIdx s t r := by
  unfold heapIdx
  rw [hheap, filterMap_cons_toList, tagIdxOf_kind hk]
  rfl

theorem cat_pop {s : Sim J} {e : Ev} {rest : List Ev} (hheap : s.heap = e :: rest)
    (hk : ∀ res tag, e.kind ≠ .result res tag) (t r : Nat) :
    cat ({ s with heap := rest } : Sim J) t r = cat s t r := by
  unfold cat
  rw [heapIdx_pop hheap hk]
  rfl

theorem heapIdx_push (s : Sim J) (tm : Rat) (u : Nat) (k : EvKind) (hk : ∀ res tag, k ≠ .result res tag) (t r : Nat) :
    heapIdx (s.push tm u k) t r = heapIdx s t r := by
  unfold heapIdx
  rw [push_heap, filterMap_insertEv_none _ _ _ (tagIdxOf_kind hk)]

theorem cat_push (s : Sim J) (tm : Rat) (u : Nat) (k : EvKind) (hk : ∀ res tag, k ≠ .result res tag) (t r : Nat) :
    cat (s.push tm u k) t r = cat s t r := by
  unfold cat
  rw [heapIdx_push s tm u k hk]
  rfl

theorem heapIdx_sub {s s' : Sim J} (hh : s'.heap.Sublist s.heap) {t r : Nat} (h : heapIdx s t r = []) :
    heapIdx s' t r = [] := by
  unfold heapIdx at *
  have := hh.filterMap (tagIdxOf t r)
  rw [h] at this
  exact List.eq_nil_of_sublist_nil this

theorem cat_of_nil {s s' : Sim J} (hn : s'.next = s.next) (hl : s'.log = s.log) {t r : Nat}
    (h : heapIdx s t r = []) (h' : heapIdx s' t r = []) : cat s' t r = cat s t r := by
  unfold cat
  rw [h, h']
  unfold logIdx nextIdx
  rw [hn, hl]

theorem cat_processResult {s : Sim J} {e : Ev} {rest : List Ev} (hheap : s.heap = e :: rest) (res : Res) (tag : Tag)
    (hk : e.kind = .result res tag) (f : STrial → STrial) (t r : Nat) :
    cat ({ (({ s with heap := rest } : Sim J).updT e.trial f) with
            next := aset e.trial ((alookup e.trial s.next).getD [] ++ [⟨res, e.time, tag⟩]) s.next } : Sim J) t r =
      cat s t r := by
  unfold cat logIdx nextIdx heapIdx
  simp only [updT_log, updT_heap]
  rw [hheap, filterMap_cons_toList, alookup_aset, tagIdxOf_result t r e res tag hk]
  by_cases ht : t = e.trial
  · subst ht
    by_cases hr : tag.run = r
    · simp [hr]
    · simp [hr]
  · have : ¬ e.trial = t := fun hh => ht hh.symm
    simp [ht, this]

theorem cat_flush1 {s : Sim J} (hnd : (s.next.map (·.1)).Nodup) {t : Nat} {l : List Arrived}
    (hl : alookup t s.next = some l) (d : Bool) (sn : List (Nat × Nat)) (f : STrial → STrial) (t' r : Nat) :
    cat (Sim.updT ({ s with next := adel t s.next, seen := sn, log := s.log ++ l.map (fun (a : Arrived) => (⟨t, a.tag, d, a⟩ : LogEntry)) } : Sim J) t f) t' r =
      cat s t' r := by
  unfold cat logIdx nextIdx heapIdx
  simp only [updT_log, updT_heap, updT_next]
  rw [logIdx_append_map, alookup_adel _ _ _ hnd]
  by_cases ht : t' = t
  · subst ht
    simp [hl]
  · have : ¬ t = t' := fun hh => ht hh.symm
    simp [ht, this]

theorem cat_fetchCov (ids : List Nat) (t r : Nat) : ∀ (s : Sim J), Inv1 s → cat (fetchCovered s ids).1 t r = cat s t r := by
  induction ids with
  | nil => intro s _; rfl
  | cons u rest ih =>
    intro s h
    unfold fetchCovered
    split
    · exact ih s h
    · rename_i l hl
      simp only
      refine (ih _ ?_).trans ?_
      · exact h.flush1 hl true _ _ (fun y => rfl)
      · exact cat_flush1 h.nd hl true _ _ t r

theorem cat_dropAll {s : Sim J} (h : Inv1 s) (t r : Nat) : cat (dropRest s s.next) t r = cat s t r := by
  obtain ⟨hlog, _⟩ := dropRest_log s.next s
  have hd := dropRest_fields s.next s
  unfold cat logIdx nextIdx heapIdx
  rw [hlog, hd.1, hd.2.2.2.2.2.2.2, List.filter_append, List.map_append, dropEntries_idx t r s.next h.nd]
  simp [alookup]

/-! ### the completion invariant -/

/-- all results of run `r` of trial `t` are accounted for -/
def Full (s : Sim J) (t r : Nat) : Prop :=
  ∃ ρ ∈ s.runs, ρ.trial = t ∧ ρ.run = r ∧ cat s t r = List.range ρ.results.length

theorem Full.mono {s s' : Sim J} {t r : Nat} (h : Full s t r) (hruns : ∀ ρ ∈ s.runs, ρ ∈ s'.runs)
    (hcat : cat s' t r = cat s t r) : Full s' t r := by
  obtain ⟨ρ, hρ, h1, h2, h3⟩ := h
  exact ⟨ρ, hruns ρ hρ, h1, h2, by rw [hcat]; exact h3⟩

structure CInv (s : Sim J) : Prop where
  hd : s.cfg.dResult ≤ s.cfg.dCompleteFinal
  /-- own completion events in the heap belong to started runs -/
  fcomp : ∀ c ∈ s.heap, ∀ st r, c.kind = .complete st (some r) → r < runsOf s c.trial
  /-- a result event pops before the own completion event of its run -/
  ord : ∀ e ∈ s.heap, ∀ c ∈ s.heap, ∀ res tag st, e.kind = .result res tag →
      c.kind = .complete st (some tag.run) → c.trial = e.trial → keyLt e c
  /-- while the own completion event is in the heap no result of the run was lost -/
  tot : ∀ c ∈ s.heap, ∀ st r, c.kind = .complete st (some r) → Full s c.trial r
  done : ∀ t x r, s.trials[t]? = some x → x.completedRun = some r →
      r < runsOf s t ∧ Full s t r ∧ heapIdx s t r = []

/-- a change that adds no result events and no own completion events -/
theorem CInv.mono {s s' : Sim J} (h : CInv s) (hcfg : s'.cfg = s.cfg)
    (hheap : ∀ e ∈ s'.heap, e ∈ s.heap ∨
      ((∀ res tag, e.kind ≠ .result res tag) ∧ ∀ st r, e.kind ≠ .complete st (some r)))
    (hruns : ∀ ρ ∈ s.runs, ρ ∈ s'.runs)
    (hro : ∀ u, runsOf s u ≤ runsOf s' u)
    (hcat : ∀ t r, r < runsOf s t →
      ((∃ c ∈ s'.heap, c.trial = t ∧ ∃ st, c.kind = .complete st (some r)) ∨ heapIdx s t r = []) →
      cat s' t r = cat s t r)
    (hnil : ∀ t r, r < runsOf s t → heapIdx s t r = [] → heapIdx s' t r = [])
    (hdone : ∀ t x' r, s'.trials[t]? = some x' → x'.completedRun = some r →
      r < runsOf s t ∧ Full s t r ∧ heapIdx s t r = []) : CInv s' := by
  refine ⟨by rw [hcfg]; exact h.hd, ?_, ?_, ?_, ?_⟩
  · intro c hc st r hk
    rcases hheap c hc with hc0 | ⟨_, hn⟩
    · exact Nat.lt_of_lt_of_le (h.fcomp c hc0 st r hk) (hro _)
    · exact absurd hk (hn st r)
  · intro e he c hc res tag st hke hkc htr
    rcases hheap e he with he0 | ⟨hn, _⟩
    · rcases hheap c hc with hc0 | ⟨_, hn⟩
      · exact h.ord e he0 c hc0 res tag st hke hkc htr
      · exact absurd hkc (hn st _)
    · exact absurd hke (hn res tag)
  · intro c hc st r hk
    rcases hheap c hc with hc0 | ⟨_, hn⟩
    · exact (h.tot c hc0 st r hk).mono hruns
        (hcat _ _ (h.fcomp c hc0 st r hk) (Or.inl ⟨c, hc, rfl, st, hk⟩))
    · exact absurd hk (hn st r)
  · intro t x' r hx' hcr
    obtain ⟨h1, h2, h3⟩ := hdone t x' r hx' hcr
    exact ⟨Nat.lt_of_lt_of_le h1 (hro _), h2.mono hruns (hcat t r h1 (Or.inr h3)), hnil t r h1 h3⟩

theorem CInv.frame {s s' : Sim J} (h : CInv s) (hc : s'.cfg = s.cfg) (hh : s'.heap = s.heap)
    (hn : s'.next = s.next) (hl : s'.log = s.log) (hr : s'.runs = s.runs)
    (ht : s'.trials.map rc = s.trials.map rc) : CInv s' := by
  refine h.mono hc (by rw [hh]; exact fun e he => Or.inl he) (by rw [hr]; exact fun ρ hρ => hρ)
    (fun u => Nat.le_of_eq (runsOf_of_rc ht u).symm) (fun t r _ _ => cat_frame hh hn hl t r) ?_ ?_
  · intro t r _ h0
    unfold heapIdx at *
    rw [hh]; exact h0
  · intro t x' r hx' hcr
    obtain ⟨x, hx, _, h2⟩ := rc_get_some ht t x' hx'
    exact h.done t x r hx (by rw [h2]; exact hcr)

theorem CInv.pop {s : Sim J} {e : Ev} {rest : List Ev} (h : CInv s) (hheap : s.heap = e :: rest)
    (hk : ∀ res tag, e.kind ≠ .result res tag) : CInv ({ s with heap := rest } : Sim J) := by
  refine h.mono rfl ?_ (fun ρ hρ => hρ) (fun u => Nat.le_refl _) (fun t r _ _ => cat_pop hheap hk t r) ?_ h.done
  · intro e' he'
    left; rw [hheap]; exact List.mem_cons_of_mem _ he'
  · intro t r _ h0
    rw [heapIdx_pop hheap hk]; exact h0

theorem CInv.push {s : Sim J} (h : CInv s) (tm : Rat) (t : Nat) (k : EvKind) (hk : ∀ res tag, k ≠ .result res tag)
    (hk' : ∀ st r, k ≠ .complete st (some r)) : CInv (s.push tm t k) := by
  refine h.mono rfl ?_ (fun ρ hρ => hρ) (fun u => Nat.le_refl _) (fun t' r _ _ => cat_push s tm t k hk t' r) ?_ h.done
  · intro e he
    simp only [push_heap, mem_insertEv] at he
    rcases he with rfl | he
    · right; exact ⟨hk, hk'⟩
    · left; exact he
  · intro t' r _ h0
    rw [heapIdx_push s tm t k hk]; exact h0


/-! ### the event handlers -/

theorem CInv.complete {s : Sim J} (h : CInv s) (t : Nat) (st : St) (nat : Option Nat) (b : List Nat)
    (hnat : ∀ r, nat = some r → r < runsOf s t ∧ Full s t r ∧ heapIdx s t r = []) :
    CInv ({ (s.updT t fun y => { y with isResult := true, status := st,
                                         completedRun := if nat.isSome then nat else y.completedRun }) with
            busy := b } : Sim J) := by
  have hro : ∀ u, runsOf s u ≤ runsOf ({ (s.updT t fun y => { y with isResult := true, status := st, completedRun := if nat.isSome then nat else y.completedRun }) with busy := b } : Sim J) u := by
    intro u
    refine Nat.le_of_eq (Eq.symm ?_)
    exact runsOf_updT s t u (fun y => { y with isResult := true, status := st, completedRun := if nat.isSome then nat else y.completedRun }) (fun y => rfl)
  refine h.mono rfl (fun e he => Or.inl he) (fun ρ hρ => hρ) hro
    (fun t' r _ _ => cat_frame rfl rfl rfl t' r) (fun t' r _ h0 => h0) ?_
  intro u x' r hx' hcr
  have hx'' : (s.updT t fun y => { y with isResult := true, status := st, completedRun := if nat.isSome then nat else y.completedRun }).trials[u]? = some x' := hx'
  rw [updT_get] at hx''
  by_cases hu : u = t
  · subst hu
    simp only [if_true] at hx''
    cases hx : s.trials[u]? with
    | none => rw [hx] at hx''; cases hx''
    | some x =>
      rw [hx] at hx''
      simp only [Option.map_some, Option.some.injEq] at hx''
      subst hx''
      cases nat with
      | none => exact h.done u x r hx (by simpa using hcr)
      | some r0 =>
        simp only [Option.isSome_some, if_true, Option.some.injEq] at hcr
        subst hcr
        exact hnat r0 rfl
  · simp only [hu, if_false] at hx''
    exact h.done u x' r hx'' hcr

theorem CInv.stop {s : Sim J} (h : CInv s) (t : Nat) : CInv (s.processStop t) := by
  have hsub : (s.processStop t).heap.Sublist s.heap := List.filter_sublist
  refine h.mono rfl (fun e he => Or.inl (hsub.subset he)) (fun ρ hρ => hρ) (fun u => Nat.le_refl _) ?_
    (fun t' r _ h0 => heapIdx_sub hsub h0) h.done
  intro u r _ hor
  rcases hor with ⟨c, hc, hcu, _⟩ | h0
  · have hne : u ≠ t := by
      have := (List.mem_filter.mp hc).2
      rw [hcu] at this; simpa using this
    have : heapIdx (s.processStop t) u r = heapIdx s u r := by
      unfold heapIdx Sim.processStop
      refine filterMap_filter_same _ _ _ ?_
      intro e' _ hp
      refine tagIdxOf_trial ?_
      intro hh
      rw [hh] at hp
      simp at hp
      exact hne hp
    unfold cat
    rw [this]; rfl
  · exact cat_of_nil (s := s) (s' := s.processStop t) rfl rfl h0 (heapIdx_sub hsub h0)

theorem CInv.result {s : Sim J} {e : Ev} {rest : List Ev} (h : CInv s) (hheap : s.heap = e :: rest) (res : Res)
    (tag : Tag) (hk : e.kind = .result res tag) :
    CInv ({ (({ s with heap := rest } : Sim J).updT e.trial fun y =>
              if y.isResult then y else { y with isResult := true, status := .inProgress }) with
            next := aset e.trial ((alookup e.trial s.next).getD [] ++ [⟨res, e.time, tag⟩]) s.next } : Sim J) := by
  have hsub : List.Sublist rest s.heap := by rw [hheap]; exact List.sublist_cons_self e rest
  have hrc : (({ s with heap := rest } : Sim J).updT e.trial fun y =>
      if y.isResult then y else { y with isResult := true, status := .inProgress }).trials.map rc = s.trials.map rc := by
    refine rc_updT ({ s with heap := rest } : Sim J) _ _ (fun y => ?_)
    split <;> rfl
  refine h.mono rfl (fun e' he' => Or.inl (hsub.subset he')) (fun ρ hρ => hρ)
    (fun u => Nat.le_of_eq (runsOf_of_rc hrc u).symm)
    (fun t r _ _ => cat_processResult hheap res tag hk _ t r) (fun t r _ h0 => heapIdx_sub hsub h0) ?_
  intro t x' r hx' hcr
  obtain ⟨x, hx, _, h2⟩ := rc_get_some hrc t x' hx'
  exact h.done t x r hx (by rw [h2]; exact hcr)

theorem pushResults_tf (A : Arith) (t : Nat) (te : Rat) (run : Nat) (rs : List Res) :
    ∀ (s : Sim J) (i : Nat) (tf : Rat), tf ≤ (pushResults A s t te run rs i tf).2 ∧
      ∀ r ∈ rs, A.add te r.elapsed ≤ (pushResults A s t te run rs i tf).2 := by
  induction rs with
  | nil => intro s i tf; exact ⟨le_refl _, by intro r hr; cases hr⟩
  | cons r rs ih =>
    intro s i tf
    simp only [pushResults]
    obtain ⟨h1, h2⟩ := ih (s.push (A.add (A.add te r.elapsed) s.cfg.dResult) t (.result r ⟨run, i⟩)) (i + 1)
      (maxRat tf (A.add te r.elapsed))
    refine ⟨le_trans (le_maxRat_left' _ _) h1, ?_⟩
    intro r' hr'
    rcases List.mem_cons.mp hr' with rfl | hr'
    · exact le_trans (le_maxRat_right' _ _) h1
    · exact h2 r' hr'

theorem startResult_cfg_runs (A : Arith) (s : Sim J) (t : Nat) (te : Rat) (x : STrial) (js' : J) (status : St)
    (rs : List Res) :
    (startResult A s t te x js' status rs).cfg = s.cfg ∧
    (startResult A s t te x js' status rs).runs = s.runs ++ [⟨t, x.runs, te, s.js, js', rs⟩] := by
  have hf := pushResults_fields A t te x.runs rs ({ s with js := js' } : Sim J) 0 te
  simp only at hf
  simp only [startResult, updT_cfg, push_cfg, push_runs]
  exact ⟨hf.2.1, by rw [hf.2.2.2.2.2.1]⟩


theorem CInv.startRes {A : Arith} (hA : AddMono A) {s : Sim J} (h1 : Inv1 s) (h : CInv s) (t : Nat) (te : Rat)
    (x : STrial) (js' : J) (status : St) (rs : List Res) (hx : s.trials[t]? = some x)
    (hp : rs.Pairwise (fun a b => a.elapsed ≤ b.elapsed)) :
    CInv (startResult A s t te x js' status rs) := by
  have hro := startResult_runsOf A s t te x js' status rs hx
  obtain ⟨hn, hl⟩ := startResult_next_log A s t te x js' status rs
  obtain ⟨hcfg, hruns⟩ := startResult_cfg_runs A s t te x js' status rs
  have hxr : runsOf s t = x.runs := runsOf_some hx
  have hmono : ∀ u, runsOf s u ≤ runsOf (startResult A s t te x js' status rs) u := by
    intro u; rw [hro]
    by_cases hu : u = t
    · subst hu; simp only [if_true]; omega
    · simp only [hu, if_false]; exact Nat.le_refl _
  have hrsub : ∀ ρ ∈ s.runs, ρ ∈ (startResult A s t te x js' status rs).runs := by
    intro ρ hρ; rw [hruns]; exact List.mem_append_left _ hρ
  have hcat : ∀ t' r', r' < runsOf s t' →
      cat (startResult A s t te x js' status rs) t' r' = cat s t' r' ∧
      heapIdx (startResult A s t te x js' status rs) t' r' = heapIdx s t' r' := by
    intro t' r' hlt
    have hne : ¬ (t = t' ∧ x.runs = r') := by
      rintro ⟨rfl, rfl⟩; omega
    have hh := startResult_heapIdx_other A s t te x js' status rs t' r' hne
    refine ⟨?_, hh⟩
    unfold cat
    rw [hh]
    unfold logIdx nextIdx
    rw [hn, hl]
  have hmem : ∀ e' ∈ (startResult A s t te x js' status rs).heap,
      e' = ⟨A.add (pushResults A ({ s with js := js' } : Sim J) t te x.runs rs 0 te).2 s.cfg.dCompleteFinal,
            s.added + rs.length, t, .complete status (some x.runs)⟩ ∨ e' ∈ s.heap ∨
      ∃ k r, rs[k]? = some r ∧
        e' = ⟨A.add (A.add te r.elapsed) s.cfg.dResult, s.added + k, t, .result r ⟨x.runs, k⟩⟩ := by
    intro e' he'
    simp only [startResult, updT_heap, push_heap, mem_insertEv] at he'
    rcases he' with rfl | he'
    · left
      have := (pushResults_fields A t te x.runs rs ({ s with js := js' } : Sim J) 0 te).2.2.2.2.2.2.2.2.2.2.2
      simp only at this
      rw [this]
    · rw [pushResults_mem] at he'
      rcases he' with he' | ⟨k, r, hk, rfl⟩
      · right; left; exact he'
      · right; right; exact ⟨k, r, hk, by simp⟩
  refine ⟨by rw [hcfg]; exact h.hd, ?_, ?_, ?_, ?_⟩
  · intro c hc st r hk
    rcases hmem c hc with rfl | hc0 | ⟨k, r', _, rfl⟩
    · simp only [EvKind.complete.injEq, Option.some.injEq] at hk
      obtain ⟨_, rfl⟩ := hk
      rw [hro]; simp
    · exact Nat.lt_of_lt_of_le (h.fcomp c hc0 st r hk) (hmono _)
    · cases hk
  · intro e he c hc res tag st hke hkc htr
    rcases hmem e he with rfl | he0 | ⟨k, r', hk, rfl⟩
    · cases hke
    · rcases hmem c hc with rfl | hc0 | ⟨k, r', _, rfl⟩
      · simp only [EvKind.complete.injEq, Option.some.injEq] at hkc
        have := h1.fheap e he0 res tag hke
        simp only at htr
        rw [← htr, hxr, ← hkc.2] at this
        omega
      · exact h.ord e he0 c hc0 res tag st hke hkc htr
      · cases hkc
    · simp only [EvKind.result.injEq] at hke
      obtain ⟨_, rfl⟩ := hke
      rcases hmem c hc with rfl | hc0 | ⟨k', r'', _, rfl⟩
      · have hklt : k < rs.length := (List.getElem?_eq_some_iff.mp hk).1
        have hmem_r : r' ∈ rs := List.mem_of_getElem? hk
        have htf := (pushResults_tf A t te x.runs rs ({ s with js := js' } : Sim J) 0 te).2 r' hmem_r
        have hle : A.add (A.add te r'.elapsed) s.cfg.dResult ≤
            A.add (pushResults A ({ s with js := js' } : Sim J) t te x.runs rs 0 te).2 s.cfg.dCompleteFinal :=
          le_trans (hA.2 _ _ _ htf) (hA.1 _ _ _ h.hd)
        unfold keyLt
        simp only
        rcases lt_or_eq_of_le hle with h' | h'
        · left; exact h'
        · right; exact ⟨h', by omega⟩
      · have := h.fcomp c hc0 st _ hkc
        simp only at htr
        rw [htr, hxr] at this
        simp only at this
        omega
      · cases hkc
  · intro c hc st r hk
    rcases hmem c hc with rfl | hc0 | ⟨k, r', _, rfl⟩
    · simp only [EvKind.complete.injEq, Option.some.injEq] at hk
      obtain ⟨_, rfl⟩ := hk
      refine ⟨⟨t, x.runs, te, s.js, js', rs⟩, by rw [hruns]; simp, rfl, rfl, ?_⟩
      show cat (startResult A s t te x js' status rs) t x.runs = List.range rs.length
      have hlog : logIdx (startResult A s t te x js' status rs) t x.runs = logIdx s t x.runs := by
        unfold logIdx; rw [hl]
      have hnext : nextIdx (startResult A s t te x js' status rs) t x.runs = nextIdx s t x.runs := by
        unfold nextIdx; rw [hn]
      unfold cat
      rw [hlog, hnext, logIdx_fresh h1 (by omega), nextIdx_fresh h1 (by omega)]
      rw [startResult_heapIdx_same A hA s t te x js' status rs h1.heapOK hp]
      · rfl
      · have := heapIdx_fresh h1 (t := t) (r := x.runs) (by omega)
        unfold heapIdx at this
        exact List.filterMap_eq_nil_iff.mp this
    · exact (h.tot c hc0 st r hk).mono hrsub (hcat _ _ (h.fcomp c hc0 st r hk)).1
    · cases hk
  · intro u x' r hx' hcr
    rw [startResult_trials_get] at hx'
    have hold : ∃ x0, s.trials[u]? = some x0 ∧ x0.completedRun = some r := by
      by_cases hu : u = t
      · simp only [hu, if_true] at hx'
        rw [hx] at hx'
        simp only [Option.map_some, Option.some.injEq] at hx'
        subst hx'
        exact ⟨x, by rw [hu]; exact hx, hcr⟩
      · simp only [hu, if_false] at hx'
        exact ⟨x', hx', hcr⟩
    obtain ⟨x0, hx0, hcr0⟩ := hold
    obtain ⟨d1, d2, d3⟩ := h.done u x0 r hx0 hcr0
    exact ⟨Nat.lt_of_lt_of_le d1 (hmono u), d2.mono hrsub (hcat u r d1).1, by rw [(hcat u r d1).2]; exact d3⟩


/-! ### the combined invariant -/

def CI (s : Sim J) : Prop := Inv1 s ∧ CInv s

theorem CI.processEvent {A : Arith} {job : JobFn J} (hA : AddMono A) (hjob : JobSorted job) {s s' : Sim J}
    {e : Ev} {rest : List Ev} (h : CI s) (hheap : s.heap = e :: rest)
    (hev : ({ s with heap := rest } : Sim J).processEvent A job e = .ok s') : CI s' := by
  refine ⟨h.1.processEvent hA hjob hheap hev, ?_⟩
  obtain ⟨h1, h2⟩ := h
  have hmem : e ∈ s.heap := by rw [hheap]; exact List.mem_cons_self
  unfold Sim.processEvent at hev
  split at hev
  · rename_i hk
    obtain ⟨x, js', status, rs, hx, hj, rfl⟩ := processStart_inv hev
    have hnr : ∀ res tag, e.kind ≠ .result res tag := by intro _ _ hh; rw [hk] at hh; cases hh
    exact (h2.pop hheap hnr).startRes hA (h1.pop hheap hnr) _ _ _ _ _ _ hx (hjob _ _ _ _ _ hj)
  · rename_i st nat hk
    obtain ⟨_, rfl⟩ := processComplete_inv hev
    have hnr : ∀ res tag, e.kind ≠ .result res tag := by intro _ _ hh; rw [hk] at hh; cases hh
    refine (h2.pop hheap hnr).complete e.trial st nat _ ?_
    intro r hr
    subst hr
    refine ⟨?_, ?_, ?_⟩
    · exact h2.fcomp e hmem st r hk
    · exact (h2.tot e hmem st r hk).mono (fun ρ hρ => hρ) (cat_pop hheap hnr _ _)
    · unfold heapIdx
      simp only
      rw [List.filterMap_eq_nil_iff]
      intro e' he'
      cases hf : tagIdxOf e.trial r e' with
      | none => rfl
      | some i =>
        exfalso
        obtain ⟨res, tag, hke, hte, htr, _⟩ := tagIdxOf_some hf
        have hs := h1.heapOK.sorted
        rw [hheap, List.pairwise_cons] at hs
        have k1 : keyLt e e' := hs.1 e' he'
        have k2 : keyLt e' e :=
          h2.ord e' (by rw [hheap]; exact List.mem_cons_of_mem _ he') e hmem res tag st hke
            (by rw [htr]; exact hk) hte.symm
        exact keyLt_asymm k1 k2
  · rename_i hk
    cases hev
    have hnr : ∀ res tag, e.kind ≠ .result res tag := by intro _ _ hh; rw [hk] at hh; cases hh
    exact (h2.pop hheap hnr).stop e.trial
  · rename_i res tag hk
    obtain ⟨_, rfl⟩ := processResult_inv hev
    exact h2.result hheap res tag hk

theorem CI.frame {s s' : Sim J} (h : CI s) (hc : s'.cfg = s.cfg) (hh : s'.heap = s.heap) (ha : s'.added = s.added)
    (hn : s'.next = s.next) (hl : s'.log = s.log) (hr : s'.runs = s.runs)
    (ht : s'.trials.map rc = s.trials.map rc) : CI s' :=
  ⟨h.1.frame hh ha hn hl (runsOf_of_rc ht), h.2.frame hc hh hn hl hr ht⟩

theorem CI.push {s : Sim J} (h : CI s) (tm : Rat) (t : Nat) (k : EvKind) (hk : ∀ res tag, k ≠ .result res tag)
    (hk' : ∀ st r, k ≠ .complete st (some r)) : CI (s.push tm t k) :=
  ⟨h.1.push tm t k hk, h.2.push tm t k hk hk'⟩

theorem CI.fetchDrop {s : Sim J} (h : CI s) (ids : List Nat) :
    CI (dropRest (fetchCovered s ids).1 (fetchCovered s ids).1.next) := by
  refine ⟨h.1.fetchDrop ids, ?_⟩
  have hc := fetchCovered_fields ids s
  have hd := dropRest_fields (fetchCovered s ids).1.next (fetchCovered s ids).1
  have i1 := Inv1.fetchCov ids s h.1
  have hcat : ∀ t r, cat (dropRest (fetchCovered s ids).1 (fetchCovered s ids).1.next) t r = cat s t r :=
    fun t r => (cat_dropAll i1 t r).trans (cat_fetchCov ids t r s h.1)
  have hrc : (dropRest (fetchCovered s ids).1 (fetchCovered s ids).1.next).trials.map rc = s.trials.map rc :=
    (dropRest_rc _ _).trans (fetchCovered_rc ids s)
  have hheap : (dropRest (fetchCovered s ids).1 (fetchCovered s ids).1.next).heap = s.heap := hd.1.trans hc.1
  refine h.2.mono (hd.2.2.2.1.trans hc.2.2.2.1) (by rw [hheap]; exact fun e he => Or.inl he)
    (by rw [hd.2.2.2.2.2.1, hc.2.2.2.2.2.1]; exact fun ρ hρ => hρ)
    (fun u => Nat.le_of_eq (runsOf_of_rc hrc u).symm) (fun t r _ _ => hcat t r) ?_ ?_
  · intro t r _ h0
    unfold heapIdx at *
    rw [hheap]; exact h0
  · intro t x' r hx' hcr
    obtain ⟨x, hx, _, h2⟩ := rc_get_some hrc t x' hx'
    exact h.2.done t x r hx (by rw [h2]; exact hcr)

theorem CI.newTrial {s : Sim J} (h : CI s) : CI ({ s with trials := s.trials ++ [{}] } : Sim J) := by
  refine ⟨h.1.frame rfl rfl rfl rfl (runsOf_newTrial s), ?_⟩
  refine h.2.mono rfl (fun e he => Or.inl he) (fun ρ hρ => hρ) (fun u => Nat.le_of_eq (runsOf_newTrial s u).symm)
    (fun t r _ _ => cat_frame rfl rfl rfl t r) (fun t r _ h0 => h0) ?_
  intro u x' r hx' hcr
  rcases newTrial_get s.trials u x' hx' with hx | ⟨_, rfl⟩
  · exact h.2.done u x' r hx hcr
  · cases hcr

/-! ### whole operations -/

section ops
variable {A : Arith} {job : JobFn J}

theorem CI.processUntil (hA : AddMono A) (hjob : JobSorted job) {fuel : Nat} {s s' : Sim J} (h : CI s)
    (hu : Sim.processUntil A job fuel s = .ok s') : CI s' := by
  refine processUntil_induct A job CI ?_ fuel s s' h hu
  intro s e rest s1 hs hheap _ hev
  exact hs.processEvent hA hjob hheap hev

theorem CI.advance {s s' : Sim J} {step : Rat} (h : CI s) (ha : s.advance A step = .ok s') : CI s' := by
  obtain ⟨_, rfl⟩ := advance_inv ha
  exact h.frame rfl rfl rfl rfl rfl rfl rfl

theorem CI.schedule (hA : AddMono A) (hjob : JobSorted job) {s s' : Sim J} {t : Nat} (h : CI s)
    (hs : s.schedule A job t = .ok s') : CI s' := by
  obtain ⟨s1, s2, h1, h2, rfl⟩ := schedule_inv hs
  have a2 := (h.advance h1).processUntil hA hjob h2
  exact (a2.push (A.add s2.now s2.cfg.dStart) t .start (by intro r tag hk; cases hk) (by intro st r hk; cases hk)).frame
    rfl rfl rfl rfl rfl rfl rfl

theorem CI.stopOrPause (hA : AddMono A) (hjob : JobSorted job) {s s' : Sim J} {t : Nat} {st : St} (h : CI s)
    (hs : s.stopOrPause A job t st = .ok s') : CI s' := by
  obtain ⟨s1, s3, s5, h1, h3, h5, rfl⟩ := stopOrPause_inv hs
  have a1 := h.advance h1
  have a3 : CI s3 := by
    refine CI.processUntil hA hjob ?_ h3
    exact (a1.push _ t .stop (by intro r tag hk; cases hk) (by intro st r hk; cases hk)).frame rfl rfl rfl rfl rfl rfl rfl
  have a5 : CI s5 := by
    refine CI.processUntil hA hjob ?_ h5
    exact (a3.push _ t (.complete st none) (by intro r tag hk; cases hk) (by intro st r hk; cases hk)).frame
      rfl rfl rfl rfl rfl rfl rfl
  exact a5.frame rfl rfl rfl rfl rfl rfl rfl

theorem CI.stopTrial (hA : AddMono A) (hjob : JobSorted job) {s s' : Sim J} {t : Nat} (h : CI s)
    (hs : s.stopTrial A job t = .ok s') : CI s' := by
  refine CI.stopOrPause hA hjob ?_ hs
  exact h.frame rfl rfl rfl rfl rfl rfl (rc_updT _ _ _ (fun y => rfl))

theorem CI.stopAllGo (hA : AddMono A) (hjob : JobSorted job) (l : List Nat) : ∀ {s s' : Sim J}, CI s →
    simStopAllGo A job s l = .ok s' → CI s' := by
  induction l with
  | nil => intro s s' h hs; cases hs; exact h
  | cons t rest ih =>
    intro s s' h hs
    unfold simStopAllGo at hs
    split at hs
    · exact ih h hs
    · split at hs
      · cases h1 : s.stopTrial A job t with
        | error e => rw [h1] at hs; cases hs
        | ok s1 => rw [h1] at hs; exact ih (h.stopTrial hA hjob h1) hs
      · exact ih h hs

end ops

theorem CI.step {A : Arith} {job : JobFn TabState} (hA : AddMono A) (hjob : JobSorted job) {s s' : TB} {op : SOp}
    (h : CI s) (hs : TB.step A job s op = .ok s') : CI s' := by
  cases op with
  | start cfg =>
    simp only [TB.step, Sim.startTrial] at hs
    cases h1 : s.schedule A job s.trials.length with
    | error e => rw [h1] at hs; cases hs
    | ok s1 =>
      rw [h1] at hs; cases hs
      have a1 := h.schedule hA hjob h1
      exact a1.newTrial.frame rfl rfl rfl rfl rfl rfl rfl
  | resume t nc =>
    simp only [TB.step, Sim.resumeTrial] at hs
    split at hs
    · cases hs
    · split at hs
      · cases hs
      · split at hs
        · cases hs
        · cases h1 : Sim.schedule A job ({ s with js := _ } : TB) t with
          | error e => rw [h1] at hs; cases hs
          | ok s1 =>
            rw [h1] at hs; cases hs
            have a : CI s1 := by
              refine CI.schedule hA hjob ?_ h1
              exact h.frame rfl rfl rfl rfl rfl rfl rfl
            exact a.frame rfl rfl rfl rfl rfl rfl (rc_updT _ _ _ (fun y => rfl))
  | pause t lv =>
    simp only [TB.step, Sim.pauseTrial] at hs
    split at hs
    · cases h1 : Sim.stopOrPause A job (s.updT t _) t .paused with
      | error e => rw [h1] at hs; cases hs
      | ok s1 =>
        rw [h1] at hs; cases hs
        have a : CI s1 := by
          refine CI.stopOrPause hA hjob ?_ h1
          exact h.frame rfl rfl rfl rfl rfl rfl (rc_updT _ _ _ (fun y => rfl))
        exact a.frame rfl rfl rfl rfl rfl rfl rfl
    · cases hs
  | stop t => exact h.stopTrial hA hjob hs
  | fetch ids =>
    simp only [TB.step] at hs
    cases h1 : s.fetch A job ids with
    | error e => rw [h1] at hs; cases hs
    | ok r =>
      obtain ⟨s1, sts, res⟩ := r
      rw [h1] at hs; cases hs
      obtain ⟨s1', s2, h1', h2, _, rfl⟩ := fetch_inv h1
      have a2 := (h.advance h1').processUntil hA hjob h2
      exact (a2.fetchDrop ids).frame rfl rfl rfl rfl rfl rfl (rc_markFlushed _ _)
  | busy =>
    simp only [TB.step, Sim.busyIds] at hs
    cases h1 : Sim.processUntil A job simFuel s with
    | error e => rw [h1] at hs; cases hs
    | ok s1 => rw [h1] at hs; cases hs; exact h.processUntil hA hjob h1
  | sleep => exact h.advance hs
  | advance dt => exact h.advance hs
  | tick dt => cases hs; exact h.frame rfl rfl rfl rfl rfl rfl rfl
  | tape d => cases hs; exact h.frame rfl rfl rfl rfl rfl rfl rfl
  | stopAll => exact CI.stopAllGo hA hjob _ h hs

theorem CI.run {A : Arith} {job : JobFn TabState} (hA : AddMono A) (hjob : JobSorted job) (ops : List SOp) :
    ∀ {s s' : TB}, CI s → TB.run A job s ops = .ok s' → CI s' := by
  induction ops with
  | nil => intro s s' h hs; cases hs; exact h
  | cons op ops ih =>
    intro s s' h hs
    unfold TB.run at hs
    cases h1 : TB.step A job s op with
    | error e => rw [h1] at hs; cases hs
    | ok s1 => rw [h1] at hs; exact ih (h.step hA hjob h1) hs

theorem CI.init (cfg : SimCfg) (js : TabState) (hd : cfg.dResult ≤ cfg.dCompleteFinal) : CI (TB.init cfg js) := by
  refine ⟨Inv1.init cfg js, hd, ?_, ?_, ?_, ?_⟩
  · intro c hc; simp [TB.init] at hc
  · intro e he; simp [TB.init] at he
  · intro c hc; simp [TB.init] at hc
  · intro t x r hx; simp [TB.init] at hx

/-- **complete (simulator).**  If the own completion event of run `r` of trial `t` has been
processed (`completedRun = some r`: the status `Completed` becomes visible at the next poll),
all results of that run have arrived at the backend: handled at a poll or queued for the next
one, none left in the heap. -/
theorem sim_complete_run (A : Arith) (job : JobFn TabState) (hA : AddMono A) (hjob : JobSorted job)
    (cfg : SimCfg) (js : TabState) (hd : cfg.dResult ≤ cfg.dCompleteFinal) (ops : List SOp) (s' : TB)
    (h : TB.run A job (TB.init cfg js) ops = .ok s') :
    ∀ (t : Nat) (x : STrial) (r : Nat), s'.trials[t]? = some x → x.completedRun = some r →
      ∃ ρ ∈ s'.runs, ρ.trial = t ∧ ρ.run = r ∧
        logIdx s' t r ++ nextIdx s' t r = List.range ρ.results.length ∧ heapIdx s' t r = [] := by
  intro t x r hx hcr
  obtain ⟨_, ⟨ρ, hρ, h1, h2, h3⟩, h0⟩ := (CI.run hA hjob ops (CI.init cfg js hd) h).2.done t x r hx hcr
  refine ⟨ρ, hρ, h1, h2, ?_, h0⟩
  unfold cat at h3
  rw [h0, List.append_nil] at h3
  exact h3


end SyneTune.SimL
