#!/usr/bin/env python3
"""Rewrites the per-property as-built table of DESIGN.md (between the ASBUILT markers) from harness/props/*.py,
MANIFEST.json and the latest evidence files."""
import ast, glob, json, os, re
ROOT = os.path.dirname(os.path.dirname(os.path.abspath(__file__)))
man = json.load(open(os.path.join(ROOT, "MANIFEST.json")))
claimed = {c["property_id"]: c for c in man["checks"]}
rows = []
for pid in [f"C{i:02d}" for i in range(1, 21)]:
    p = os.path.join(ROOT, "harness", "props", pid.lower() + ".py")
    if not os.path.exists(p):
        rows.append(f"| {pid} | — | not built | | |")
        continue
    tree = ast.parse(open(p).read())
    vals = {}
    for node in tree.body:
        if isinstance(node, ast.Assign) and len(node.targets) == 1 and isinstance(node.targets[0], ast.Name):
            try:
                vals[node.targets[0].id] = ast.literal_eval(node.value)
            except Exception:
                pass
    th = vals.get("THEOREMS")
    if th is None:
        # THEOREMS built from another module's list (e.g. c20.py: `[...] + list(c20pbt.THEOREMS)`): every string constant of the
        # assignment plus the lists it refers to
        th = []
        for node in tree.body:
            if isinstance(node, ast.Assign) and getattr(node.targets[0], "id", None) == "THEOREMS":
                th += [c.value for c in ast.walk(node.value) if isinstance(c, ast.Constant) and isinstance(c.value, str)]
                for a in ast.walk(node.value):
                    if isinstance(a, ast.Attribute) and a.attr == "THEOREMS" and isinstance(a.value, ast.Name):
                        q = os.path.join(ROOT, "harness", "props", a.value.id + ".py")
                        for n2 in ast.parse(open(q).read()).body:
                            if isinstance(n2, ast.Assign) and getattr(n2.targets[0], "id", None) == "THEOREMS":
                                th += ast.literal_eval(n2.value)
    part = [t.split(".")[-1] for t in th if t.endswith("_partial")]
    cex = [t.split(".")[-1] for t in th if "counterexample" in t]
    ev = os.path.join(ROOT, "evidence", pid + ".json")
    cov = json.load(open(ev))["coverage"] if os.path.exists(ev) else {}
    lvl = claimed.get(pid, {}).get("level_claimed", {}).get("category", "not claimed")
    targets = ", ".join(x.replace("SyneTune.Props.", "") for x in vals.get("LEAN_TARGETS", []))
    rows.append(f"| {pid} | {lvl} | {len(th)} theorems in Props/{{{targets}}} | "
                f"{'; '.join(part) if part else '—'} | {'; '.join(cex) if cex else '—'} | "
                f"{cov.get('evaluations', '?')} cases, {cov.get('disagreements', '?')} disagreements, known: {', '.join(cov.get('known_findings_hit', [])) or '—'} |")
table = ("| property | level | obligations (audited with `#print axioms` on every run) | `_partial` theorems | `_counterexample` theorems | last quick run here |\n"
         "|---|---|---|---|---|---|\n" + "\n".join(rows))
p = os.path.join(ROOT, "DESIGN.md")
s = open(p).read()
a, b = "<!-- ASBUILT:BEGIN -->", "<!-- ASBUILT:END -->"
if a in s:
    s = s[:s.index(a) + len(a)] + "\n" + table + "\n" + s[s.index(b):]
    open(p, "w").write(s)
print(len(rows))
