#!/bin/sh
# usage: tools/rerecord_seed.sh <seed-id> [worktree]  -- re-runs the quick check of a kept seed on a scratch worktree at /repo's HEAD
# and rewrites detected_by_check / check_output_tail of its meta.json
ID="$1"; WT="${2:-/tmp/seed/rt0}"; PID=$(echo "$ID" | cut -c1-3); D=/verif/seeded/$ID
git -C /repo worktree add --detach "$WT" HEAD >/dev/null 2>&1
git -C "$WT" checkout -q -- .
git -C "$WT" apply "$D/patch.diff" || { echo "$ID: patch does not apply"; exit 9; }
RES=$(cd /verif && VERIF_REPO="$WT" ./check "$PID" --tier quick 2>&1 | tail -3)
git -C "$WT" checkout -q -- .
DET=no; echo "$RES" | grep -q "^VIOLATION property=$PID" && DET=yes
python3 - "$D/meta.json" "$DET" "$RES" <<'PY'
import json,sys
p,det,res=sys.argv[1:4]
m=json.load(open(p)); m["detected_by_check"]=det; m["check_output_tail"]=res
json.dump(m,open(p,"w"),indent=1)
PY
echo "$ID detected=$DET"
