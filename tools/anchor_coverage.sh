#!/bin/sh
# usage: tools/anchor_coverage.sh <PID> [tier]   -- line coverage of the property's anchor files by one run of its check
# (diagnostic only: shows which anchored code the correspondence streams never execute)
PID="$1"; TIER="${2:-quick}"
W=/tmp/cov/$PID; rm -rf "$W"; mkdir -p "$W/data"
cat > "$W/rc" <<EOR
[run]
source = /repo/syne_tune
concurrency = multiprocessing
parallel = True
data_file = $W/data/.coverage
sigterm = True
EOR
cd /verif
VERIF_REPO=/repo PYTHONPATH=/verif/harness:/repo PYTHONHASHSEED=0 SYNE_TUNE_VERIF=1 \
  /venv/bin/python -m coverage run --rcfile="$W/rc" harness/framework.py "$PID" --tier "$TIER" 2>&1 | tail -1
/venv/bin/python -m coverage combine --rcfile="$W/rc" -q "$W/data" 2>/dev/null
FILES=$(python3 - "$PID" <<'PY'
import json,sys
for l in open('/verif/properties.jsonl'):
    p=json.loads(l)
    if p['id']==sys.argv[1]:
        print(",".join('/repo/'+f for f in p['anchors']['files']))
PY
)
/venv/bin/python -m coverage report --rcfile="$W/rc" --include="$FILES" -m 2>&1 | cut -c1-400
