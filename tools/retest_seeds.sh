#!/bin/sh
# usage: tools/retest_seeds.sh [worktree]  -- re-applies every kept seed to a scratch worktree at /repo's HEAD and re-runs the
# quick check of its property; prints one line per seed (regression test of the checks themselves)
WT="${1:-/tmp/seed/rev}"
git -C /repo worktree add --detach "$WT" HEAD >/dev/null 2>&1
git -C "$WT" checkout -q --detach "$(git -C /repo rev-parse HEAD)"
for d in /verif/seeded/*/; do
  id=$(basename "$d"); pid=$(echo "$id" | cut -c1-3)
  git -C "$WT" checkout -q -- .
  if ! git -C "$WT" apply "$d/patch.diff" 2>/dev/null; then echo "$id skipped (patch does not apply to HEAD)"; continue; fi
  out=$(cd /verif && VERIF_REPO="$WT" ./check "$pid" --tier quick 2>&1 | grep "^VIOLATION property=$pid\|^HARNESS" | head -1)
  was=$(python3 -c "import json;print(json.load(open('$d/meta.json')).get('detected_by_check'))")
  case "$out" in VIOLATION*) now=yes;; HARNESS*) now=harness-error;; *) now=no;; esac
  echo "$id recorded=$was now=$now"
done
git -C "$WT" checkout -q -- .
