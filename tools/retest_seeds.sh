#!/bin/sh
# usage: tools/retest_seeds.sh [worktree-prefix] [shards]  -- re-applies every kept seed to a scratch worktree at /repo's HEAD and
# re-runs the quick check of its property; prints one line per seed (regression test of the checks themselves). `shards` worktrees
# <prefix>0 .. <prefix>N-1 work in parallel; they are removed at the end.
PFX="${1:-/tmp/seed/rt}"; N="${2:-3}"
HEAD=$(git -C /repo rev-parse HEAD)
shard() {
  k="$1"; WT="$PFX$k"
  git -C /repo worktree add --detach "$WT" "$HEAD" >/dev/null 2>&1
  git -C "$WT" checkout -q --detach "$HEAD"
  i=0
  for d in /verif/seeded/*/; do
    i=$((i+1)); [ $((i % N)) -eq "$k" ] || continue
    id=$(basename "$d"); pid=$(echo "$id" | cut -c1-3)
    git -C "$WT" checkout -q -- .
    if ! git -C "$WT" apply "$d/patch.diff" 2>/dev/null; then echo "$id skipped (patch does not apply to HEAD)"; continue; fi
    out=$(cd /verif && VERIF_REPO="$WT" ./check "$pid" --tier quick 2>&1 | grep "^VIOLATION property=$pid\|^HARNESS" | head -1)
    was=$(python3 -c "import json;print(json.load(open('$d/meta.json')).get('detected_by_check'))")
    case "$out" in VIOLATION*) now=yes;; HARNESS*) now=harness-error;; *) now=no;; esac
    echo "$id recorded=$was now=$now"
  done
  git -C /repo worktree remove --force "$WT" >/dev/null 2>&1
}
k=0
while [ "$k" -lt "$N" ]; do shard "$k" & k=$((k+1)); done
wait
git -C /repo worktree prune
