#!/bin/sh
# usage: tools/try_seed.sh <worktree> <patch.diff> <PID> [tier]  — apply patch in scratch worktree, run check there, undo
WT="$1"; PATCH="$2"; PID="$3"; TIER="${4:-quick}"
git -C "$WT" checkout -q -- . && git -C "$WT" apply "$PATCH" || exit 9
cd /verif && VERIF_REPO="$WT" ./check "$PID" --tier "$TIER" 2>&1 | tail -4
git -C "$WT" checkout -q -- .
