#!/bin/sh
# usage: tools/try_revert.sh <fix-commit> <PID> <seed-id> <demo-script> : reverse-applies a fix commit in the scratch worktree /tmp/seed/rev and runs the check
C="$1"; PID="$2"; ID="$3"; DEMO="$4"
WT=/tmp/seed/rev
git -C $WT checkout -q -- . ; git -C /repo diff $C $C^ > /tmp/seed/rev_$C.diff
git -C $WT apply /tmp/seed/rev_$C.diff || exit 9
( cd $WT && PYTHONPATH=$WT /venv/bin/python $DEMO >/dev/null 2>&1 ); MOD=$?
RES=$(cd /verif && VERIF_REPO=$WT ./check $PID --tier quick 2>&1 | grep -v "^adding trial" | tail -3)
git -C $WT checkout -q -- .
DET=no; echo "$RES" | grep -q "^VIOLATION property=$PID" && DET=yes
D=/verif/seeded/$ID; mkdir -p $D; cp /tmp/seed/rev_$C.diff $D/patch.diff; cp $DEMO $D/demo.py
python3 - "$D/meta.json" "$C" "$PID" "$MOD" "$DET" "$RES" <<'PY'
import json,sys,subprocess
dst,c,pid,mod,det,res=sys.argv[1:7]
msg=subprocess.run(["git","-C","/repo","log","--format=%s","-1",c],capture_output=True,text=True).stdout.strip()
json.dump({"property":pid,"summary":"reverts fix commit %s (%s)"%(c,msg),"origin":"inverse of a fix: commit","needs_to_manifest":"see the finding's demo script (findings/)",
 "demo_exit_unmodified":0,"demo_exit_modified":int(mod),"confirmed_by_coordinator":"demo exits non-zero with the reverse patch applied in a scratch worktree, 0 on HEAD; check run with VERIF_REPO=<worktree>",
 "detected_by_check":det,"check_output_tail":res},open(dst,"w"),indent=1)
PY
echo "$ID modified_demo=$MOD detected=$DET"
