#!/bin/sh
# usage: tools/keep_seed.sh <worktree> <outdir> <i> <seed-id> <PID>
# confirms demo passes on clean tree / fails with the patch, records check result, stores under /verif/seeded/<seed-id>/
WT="$1"; OUT="$2"; I="$3"; ID="$4"; PID="$5"
D=/verif/seeded/$ID; mkdir -p "$D"
git -C "$WT" checkout -q -- .
( cd "$WT" && PYTHONPATH="$WT" /venv/bin/python "$OUT/demo$I.py" >/dev/null 2>&1 ); CLEAN=$?
git -C "$WT" apply "$OUT/patch$I.diff" || { echo "patch does not apply"; exit 9; }
( cd "$WT" && PYTHONPATH="$WT" /venv/bin/python "$OUT/demo$I.py" >/dev/null 2>&1 ); MOD=$?
RES=$(cd /verif && VERIF_REPO="$WT" ./check "$PID" --tier quick 2>&1 | tail -3)
git -C "$WT" checkout -q -- .
cp "$OUT/patch$I.diff" "$D/patch.diff"; cp "$OUT/demo$I.py" "$D/demo.py"
DET=no; echo "$RES" | grep -q "^VIOLATION property=$PID" && DET=yes
python3 - "$OUT/meta$I.json" "$D/meta.json" "$CLEAN" "$MOD" "$DET" "$PID" "$RES" <<'PY'
import json,sys
src,dst,clean,mod,det,pid,res=sys.argv[1:8]
try: m=json.load(open(src))
except Exception: m={}
m.update({"property":pid,"demo_exit_unmodified":int(clean),"demo_exit_modified":int(mod),
          "confirmed_by_coordinator":"demo run on clean scratch worktree (exit %s) and with patch applied (exit %s); check run with VERIF_REPO=<worktree>"%(clean,mod),
          "detected_by_check":det,"check_output_tail":res})
json.dump(m,open(dst,"w"),indent=1)
PY
echo "$ID clean=$CLEAN modified=$MOD detected=$DET"
