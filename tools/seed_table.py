#!/usr/bin/env python3
"""Rewrites the seeded-changes table of DESIGN.md (between the SEEDS markers) from seeded/*/meta.json."""
import glob, json, os, re
ROOT = os.path.dirname(os.path.dirname(os.path.abspath(__file__)))
rows = []
for d in sorted(glob.glob(os.path.join(ROOT, "seeded", "*"))):
    mp = os.path.join(d, "meta.json")
    if not os.path.exists(mp):
        continue
    m = json.load(open(mp))
    sid = os.path.basename(d)
    summ = re.sub(r"\s+", " ", str(m.get("summary", "")))[:170]
    needs = re.sub(r"\s+", " ", str(m.get("needs_to_manifest", "")))[:150]
    det = m.get("detected_by_check", "?")
    how = m.get("detected_how", "")
    rows.append(f"| {sid} | {m.get('property','')} | {summ} | {needs} | {det}{(' — ' + how) if how else ''} |")
table = "| seed | property | change | needs to manifest | caught by `./check <property>` |\n|---|---|---|---|---|\n" + "\n".join(rows)
p = os.path.join(ROOT, "DESIGN.md")
s = open(p).read()
a, b = "<!-- SEEDS:BEGIN -->", "<!-- SEEDS:END -->"
if a in s:
    s = s[:s.index(a) + len(a)] + "\n" + table + "\n" + s[s.index(b):]
    open(p, "w").write(s)
print(len(rows), "seeds")
