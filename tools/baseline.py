#!/usr/bin/env python3
"""Run the repository's pinned baseline (guard off) and check that every stable test of
/root/.vp/BASELINE.json still passes.  usage: tools/baseline.py [repo_dir]"""
import json, os, subprocess, sys, tempfile
import xml.etree.ElementTree as ET

repo = sys.argv[1] if len(sys.argv) > 1 else "/repo"
base = json.load(open("/root/.vp/BASELINE.json"))
out = tempfile.mktemp(suffix=".xml")
env = dict(os.environ)
env.pop("SYNE_TUNE_VERIF", None)
subprocess.run(["/venv/bin/python", "-m", "pytest", "-ra", "-q", "-p", "no:cacheprovider", "--timeout=900",
                "--continue-on-collection-errors", f"--junitxml={out}"], cwd=repo, env=env,
               stdout=subprocess.DEVNULL, stderr=subprocess.DEVNULL)
passed = set()
for tc in ET.parse(out).getroot().iter("testcase"):
    if not any(c.tag in ("failure", "error", "skipped") for c in tc):
        passed.add(f"{tc.get('classname')}::{tc.get('name')}")
os.unlink(out)
missing = [t for t in base["stable_pass"] if t not in passed]
print(f"stable={len(base['stable_pass'])} passed_now={len(passed)} missing={len(missing)}")
for t in missing[:20]:
    print("  MISSING", t)
sys.exit(1 if missing else 0)
