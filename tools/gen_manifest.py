#!/usr/bin/env python3
"""Regenerates /verif/MANIFEST.json from the table below (one entry per claimed property)."""
import json, os
ROOT = os.path.dirname(os.path.dirname(os.path.abspath(__file__)))
props = [json.loads(l) for l in open(os.path.join(ROOT, "properties.jsonl"))]
NOTE_COMMON = ("Trusted: Lean 4.33 kernel; axioms propext / Classical.choice / Quot.sound only (audited by #print axioms on "
               "every run); the hand-written model (validated against /repo by the correspondence stream on every run, "
               "strength bounded by the generators whose measured distribution is in the evidence); the Python harness; "
               "CPython / numpy / sortedcontainers semantics as modelled. ")
CLAIMS = {
 "C03": ("proof",
   "Lean theorems over the model of Rung / StoppingRungSystem / RUSH decider / HyperbandBracketManager / HyperbandScheduler: "
   "Rung.quantile = numpy linear quantile for every rung size and both modes; decision at an own rung level iff no worse than the "
   "quantile incl. own value (all comparisons outside 2^-40 round-off); off-rung reports change nothing; one entry per trial per rung "
   "and sortedness for every report sequence (induction); STOP at resource >= max_t; decided trials repeat their decision; rung levels "
   "and promotion quantiles well-formed. Model tied to /repo by differential execution of the real HyperbandScheduler(type=stopping) "
   "on generated schedules (hb stream); a monitor re-derives the rule with numpy.quantile on the implementation trace.",
   "IEEE rounding of the cutoff is outside the model (free decisions adopt the implementation's answer, counted in evidence). "
   "Rung levels from grace_period / reduction_factor >= 2 (Python round-half-even of min_t*rf^k, any rational factor) are proved positive, "
   "strictly increasing and below max_t; reduction factors given as floats enter the model as exact rationals (pow in floating point is "
   "validated by correspondence).",
   "Lean 4 proof (invariants by induction over report sequences) + model/implementation correspondence", "DESIGN.md §5 C03"),
 "C04": ("proof",
   "Lean theorems over the model of PromotionRungSystem / PASHA / cost-aware / RUSH promotion and the promotion path of the scheduler: "
   "pause exactly at the milestone (beyond it the code asserts); a promotion comes from a rung below the cap, runs exactly to the next "
   "rung level, never beyond max_t; only eligible trials are promoted (unpromoted, no better unpromoted entry, no promotable entry in a "
   "higher rung below the cap, metric no worse than the numpy quantile for forced comparisons); nothing eligible => new trial and no "
   "rung changes; a trial is promoted from a rung at most once over every history of schedule/report/add/remove operations (invariant "
   "by induction); PASHA's cap is monotone and always a rung level or max_t; cost-prefix rule and RUSH threshold rule stated outright. "
   "Tied to /repo by the hb correspondence stream over promotion, pasha, cost_promotion, rush_promotion.",
   "PASHA's epsilon (numpy percentile over a set-ordered list) and its ranking inputs are inputs of the model; two PASHA crashes "
   "(single rung level; several brackets) are recorded as known findings.",
   "Lean 4 proof (history invariant by induction) + model/implementation correspondence", "DESIGN.md §5 C04"),
}
def check(pid):
    level, text, note, tech, ref = CLAIMS[pid]
    return {"property_id": pid, "quick_cmd": f"./check {pid} --tier quick", "thorough_cmd": f"./check {pid} --tier thorough",
            "evidence_file": f"evidence/{pid}.json", "replay_cmd_template": f"./check {pid} --replay {{path}}",
            "engine": "lean-proof+correspondence",
            "level_claimed": {"category": level, "text": text, "design_ref": ref},
            "level_note": NOTE_COMMON + note, "technique": tech}
extra = os.path.join(ROOT, "tools", "manifest_claims.json")
if os.path.exists(extra):
    for k, v in json.load(open(extra)).items():
        CLAIMS[k] = tuple(v)
NA = {}
na_file = os.path.join(ROOT, "tools", "manifest_na.json")
if os.path.exists(na_file):
    NA = json.load(open(na_file))
m = {"version": 1, "setup_cmd": "cd /verif && ./check --setup",
     "hooks": {"guard": "SYNE_TUNE_VERIF",
               "enable": "no source hooks are needed: all observation goes through public APIs, harness-side subclasses and per-instance wrappers; the checks export SYNE_TUNE_VERIF=1, which /repo never reads",
               "baseline_off_cmd": "cd /repo && /venv/bin/python -m pytest -ra -q -p no:cacheprovider --timeout=900 --continue-on-collection-errors",
               "source_commits": [], "add_only": True},
     "engines": [{"name": "lean-proof+correspondence", "path": "check", "serves_properties": sorted(CLAIMS),
                  "kind_free_text": "Lean 4 library lean/SyneTune (executable models, lemmas, property theorems, line-protocol drivers) + Python correspondence harness harness/ driving the real code of /repo; per property: lake build + #print axioms audit, correspondence on corpus + generated cases, monitors on the implementation trace as failing-input search"}],
     "checks": [check(p["id"]) for p in props if p["id"] in CLAIMS],
     "notes": "See DESIGN.md. Repairs of genuine defects are `fix:` commits in /repo, listed in known_findings.json.",
     "not_applicable": [{"property_id": p["id"], "reason": NA.get(p["id"], "check not built yet in this round (planned in DESIGN.md §5); not claimed")}
                        for p in props if p["id"] not in CLAIMS]}
json.dump(m, open(os.path.join(ROOT, "MANIFEST.json"), "w"), indent=1)
print("claimed:", sorted(CLAIMS))
