"""fresh-process simulated experiment: prints the table of delivered results as JSON.
usage: python sim_worker.py '<spec json>'"""
import contextlib
import io
import json
import logging
import os
import sys
import tempfile

sys.path.insert(0, os.path.dirname(os.path.abspath(__file__)))
logging.disable(logging.CRITICAL)
# optional dependency whose import crashes in this sandbox (ConfigSpace / numpy ABI); /repo guards the
# import with `except ImportError`, a missing module takes that path
sys.modules.setdefault("yahpo_gym", None)


def run(spec):
    import numpy as np
    import pandas as pd
    from syne_tune.config_space import randint
    from syne_tune.blackbox_repository.blackbox_tabular import BlackboxTabular
    from syne_tune.blackbox_repository.simulated_tabular_backend import UserBlackboxBackend
    from syne_tune.backend.simulator_backend.simulator_callback import SimulatorCallback
    from syne_tune import Tuner, StoppingCriterion
    from syne_tune.tuner_callback import TunerCallback
    from streams import generic as g

    # real wall-clock time spent outside the backend is added to the simulated clock by design; it is
    # not a seeded input, so it is stubbed to zero here (harness-side, no change to /repo)
    import types
    import syne_tune.backend.simulator_backend.time_keeper as tk
    tk.time = types.SimpleNamespace(time=lambda: 0.0)
    rs = np.random.RandomState(spec["table_seed"])
    n, n_epochs, n_seeds = spec.get("n", 6), spec.get("max_t", 9), spec.get("n_seeds", 2)
    hp = pd.DataFrame(data=[(i, j) for i in range(n) for j in range(n)], columns=["a", "c"])
    cs = {"a": randint(0, n - 1), "c": randint(0, n - 1)}
    ev = rs.randint(0, 1024, size=(len(hp), n_seeds, n_epochs, 2)) / 1024.0
    ev[:, :, :, 1] = np.cumsum(ev[:, :, :, 1] + 1.0 / 64, axis=2)
    bb = BlackboxTabular(hyperparameters=hp, configuration_space=cs, fidelity_space={g.RES: randint(1, n_epochs)},
                         objectives_evaluations=ev, objectives_names=[g.METRIC, "elapsed_time"])
    backend = UserBlackboxBackend(blackbox=bb, elapsed_time_attr="elapsed_time", max_resource_attr=g.MAXATTR,
                                  seed=spec["backend_seed"] % n_seeds, support_checkpointing=spec.get("checkpointing", True))
    rows = []

    class Collect(TunerCallback):
        def on_trial_result(self, trial, status, result, decision):
            rows.append([int(trial.trial_id), {k: (v if not isinstance(v, float) else float(v).hex()) for k, v in sorted(trial.config.items())},
                         int(result[g.RES]), float(result[g.METRIC]).hex(), float(result["st_tuner_time"]).hex(), decision])

    name = spec["name"]
    cs_s = dict(cs)
    cs_s[g.MAXATTR] = n_epochs
    orig = g.config_space
    g.config_space = lambda kind, max_t: dict(cs_s)
    sch = g.make_scheduler(name, "min", spec["sched_seed"], "finite", n_epochs, spec.get("extra"))
    g.config_space = orig
    os.environ["SYNETUNE_FOLDER"] = tempfile.mkdtemp(prefix="c11sim")
    tuner = Tuner(trial_backend=backend, scheduler=sch, stop_criterion=StoppingCriterion(max_num_trials_started=spec.get("trials", 12)),
                  n_workers=spec.get("n_workers", 3), sleep_time=0, callbacks=[SimulatorCallback(), Collect()],
                  save_tuner=False, suffix_tuner_name=False, tuner_name="c11sim", results_update_interval=1e9,
                  print_update_interval=1e9)
    with contextlib.redirect_stdout(io.StringIO()):
        tuner.run()
    import shutil
    shutil.rmtree(os.environ["SYNETUNE_FOLDER"], ignore_errors=True)
    return rows


if __name__ == "__main__":
    spec = json.loads(sys.argv[1])
    print("TRACE " + json.dumps(run(spec)))
