"""
Common machinery of the checks (DESIGN §4).

A property module (harness/props/cXX.py) provides

    PID                      "C03"
    LEVEL                    "proof" | "translation_validation"
    LEAN_TARGETS             lake module targets holding the property theorems
    THEOREMS                 fully qualified names of the property theorems (obligations)
    DRIVER                   driver file relative to lean/ (or None)
    TRUSTED / ASSUMPTIONS    lists of strings for the evidence file
    RULE                     how cases are generated, what counts as non-trivial
    corpus()                 list of case specs that always run first
    gen_cases(rng, tier)     iterable of case specs (plain picklable data)
    run_impl(spec)           -> {"lines": [(model_input_dict, impl_output_or_None), ...],
                                 "meta": {...}, "monitor": [finding, ...]}
                                runs the REAL code of /repo on the spec; `monitor` is the
                                direct reading of the property on the implementation trace
    compare(inp, impl, model)-> None | str    (optional; default: canonical equality)
    post_case(trace, model_outputs) -> [finding]  (optional; monitors that need the model's
                                forced/free classification of the implementation's decisions)
    nontrivial(trace)        -> bool
    extra(ctx)               optional extra stage (e.g. replay of Lean counterexamples)

A finding is {"signature": str, "what": str, "detail": ...}.
"""
import argparse
import fcntl
import hashlib
import importlib
import json
import multiprocessing as mp
import os
import random
import re
import subprocess
import sys
import tempfile
import time
import traceback

ROOT = os.path.dirname(os.path.dirname(os.path.abspath(__file__)))
LEAN = os.path.join(ROOT, "lean")
EVID = os.path.join(ROOT, "evidence")
REPLAYS = os.path.join(ROOT, "replays")
ALLOWED_AXIOMS = {"propext", "Classical.choice", "Quot.sound"}
FORBIDDEN = re.compile(
    r"\bsorry\b|\badmit\b|^\s*axiom\s|native_decide|bv_decide|implemented_by|\bunsafe\s|maxHeartbeats\s+0\b",
    re.M,
)


def canon(obj):
    return json.dumps(obj, sort_keys=True, separators=(",", ":"))


def case_hash(spec):
    return hashlib.sha256(canon(spec).encode()).hexdigest()[:16]


def frac_str(x):
    """exact rational string of a Python number (float -> dyadic rational)."""
    from fractions import Fraction
    import math

    if isinstance(x, bool):
        x = int(x)
    if isinstance(x, float):
        if math.isnan(x):
            return "nan"
        if math.isinf(x):
            return "inf" if x > 0 else "-inf"
    f = Fraction(x)
    return str(f.numerator) if f.denominator == 1 else f"{f.numerator}/{f.denominator}"


# ---------------------------------------------------------------------------------
# Lean side


class Lock:
    def __init__(self):
        os.makedirs(os.path.join(LEAN, ".lake"), exist_ok=True)
        self.path = os.path.join(LEAN, ".lake", "verif.lock")

    def __enter__(self):
        self.f = open(self.path, "w")
        fcntl.flock(self.f, fcntl.LOCK_EX)

    def __exit__(self, *a):
        fcntl.flock(self.f, fcntl.LOCK_UN)
        self.f.close()


def lake_build(targets, timeout=3000):
    """lake build of the given module targets. Returns (ok, output)."""
    with Lock():
        p = subprocess.run(
            ["lake", "build"] + list(targets),
            cwd=LEAN,
            capture_output=True,
            text=True,
            timeout=timeout,
        )
    return p.returncode == 0, (p.stdout + p.stderr)


def strip_lean_comments(src):
    out = []
    i, n, depth = 0, len(src), 0
    while i < n:
        if src.startswith("/-", i):
            depth += 1
            i += 2
        elif depth and src.startswith("-/", i):
            depth -= 1
            i += 2
        elif depth:
            if src[i] == "\n":
                out.append("\n")
            i += 1
        elif src.startswith("--", i):
            while i < n and src[i] != "\n":
                i += 1
        else:
            out.append(src[i])
            i += 1
    return "".join(out)


def import_closure(targets):
    """files of this project transitively imported by the given module targets"""
    seen, todo = set(), list(targets)
    while todo:
        m = todo.pop()
        if m in seen or not m.startswith("SyneTune"):
            continue
        p = os.path.join(LEAN, m.replace(".", "/") + ".lean")
        if not os.path.exists(p):
            continue
        seen.add(m)
        for l in open(p):
            mm = re.match(r"\s*import\s+(SyneTune[\w.]*)", l)
            if mm:
                todo.append(mm.group(1))
    return sorted(seen)


def forbidden_tokens(targets):
    hits = []
    for m in import_closure(targets):
        p = os.path.join(LEAN, m.replace(".", "/") + ".lean")
        src = strip_lean_comments(open(p).read())
        for mt in FORBIDDEN.finditer(src):
            line = src.count("\n", 0, mt.start()) + 1
            hits.append(f"{os.path.relpath(p, LEAN)}:{line}:{mt.group(0).strip()}")
    return hits


def audit(pid, targets, theorems):
    """#print axioms on every property theorem.
    Returns dict name -> {"ok": bool, "axioms": [...], "why": str}."""
    res = {t: {"ok": False, "axioms": [], "why": "not audited"} for t in theorems}
    ok, out = lake_build(targets)
    if not ok:
        # find which theorems are still available: try building; everything undischarged
        for t in theorems:
            res[t]["why"] = "lake build failed: " + out[-1500:]
        return res, out
    os.makedirs(os.path.join(LEAN, ".audit"), exist_ok=True)
    path = os.path.join(LEAN, ".audit", f"Audit_{pid}_{os.getpid()}.lean")
    with open(path, "w") as f:
        for t in targets:
            f.write(f"import {t}\n")
        for t in theorems:
            f.write(f"#print axioms {t}\n")
    p = subprocess.run(["lake", "env", "lean", path], cwd=LEAN, capture_output=True, text=True, timeout=1800)
    text = p.stdout + p.stderr
    os.unlink(path)
    flat = re.sub(r"\s+", " ", text)
    for t in theorems:
        m = re.search(r"'" + re.escape(t) + r"' depends on axioms: \[([^\]]*)\]", flat)
        if m:
            ax = [a.strip() for a in m.group(1).split(",") if a.strip()]
            bad = [a for a in ax if a not in ALLOWED_AXIOMS]
            res[t] = {"ok": not bad, "axioms": ax, "why": "" if not bad else "non-standard axioms " + ",".join(bad)}
        elif re.search(r"'" + re.escape(t) + r"' does not depend on any axioms", flat):
            res[t] = {"ok": True, "axioms": [], "why": ""}
        else:
            res[t]["why"] = "theorem not found: " + text[-600:]
    return res, text


def run_driver(driver, lines, timeout=3000):
    """Feed JSON lines to a model driver, return the list of parsed output lines."""
    if not lines:
        return []
    with tempfile.NamedTemporaryFile("w", suffix=".jsonl", delete=False, dir=os.path.join(LEAN, ".lake")) as f:
        for l in lines:
            f.write(canon(l) + "\n")
        inp = f.name
    try:
        with open(inp) as fin:
            p = subprocess.run(
                ["lake", "env", "lean", "--run", driver],
                cwd=LEAN,
                stdin=fin,
                capture_output=True,
                text=True,
                timeout=timeout,
            )
    finally:
        os.unlink(inp)
    outs = [l for l in p.stdout.split("\n") if l.strip()]
    if p.returncode != 0 or len(outs) != len(lines):
        raise RuntimeError(
            f"driver {driver} rc={p.returncode} produced {len(outs)} lines for {len(lines)} inputs\n"
            + p.stderr[-2000:] + p.stdout[-500:]
        )
    return [json.loads(o) for o in outs]


# ---------------------------------------------------------------------------------
# known findings


def load_known():
    p = os.path.join(ROOT, "known_findings.json")
    if not os.path.exists(p):
        return []
    return json.load(open(p))


def known_open(pid):
    return [k for k in load_known() if k.get("status") == "open" and pid in k.get("properties", [k.get("property")])]


def match_known(pid, signature):
    for k in known_open(pid):
        if k["signature"] == signature:
            return k
    return None


# ---------------------------------------------------------------------------------
# implementation workers


class CaseTimeout(Exception):
    """a case did not return within CASE_TIMEOUT seconds"""


CASE_TIMEOUT = float(os.environ.get("VERIF_CASE_TIMEOUT", "900"))


def _case_alarm(signum, frame):
    raise CaseTimeout(f"no answer within {CASE_TIMEOUT:.0f} s")


def _worker(args):
    modname, spec = args
    import signal
    import threading
    armed = threading.current_thread() is threading.main_thread()
    try:
        if armed:
            # per-case watchdog (streams that guard single scheduler calls with their own, shorter, alarm take it over)
            signal.signal(signal.SIGALRM, _case_alarm)
            signal.setitimer(signal.ITIMER_REAL, CASE_TIMEOUT)
        mod = importlib.import_module(modname)
        t = mod.run_impl(spec)
        t["spec"] = spec
        return t
    except Exception as e:
        text = "".join(traceback.format_exception(type(e), e, e.__traceback__))[-3000:]
        # Who raised? Walk to the deepest frame that belongs to the harness or to the implementation under test. An
        # exception that comes out of the implementation on a generated case - one the unchanged tree handles - is a
        # failing input of the implementation, not a defect of the harness: it is reported as a finding with the case as
        # replay. Everything else is a harness crash (exit 2, never a violation).
        repo = os.path.realpath(os.environ.get("VERIF_REPO") or "/repo") + os.sep
        here = os.path.realpath(os.path.dirname(os.path.abspath(__file__))) + os.sep
        owner, func = None, None
        tb = e.__traceback__
        while tb is not None:
            fn = os.path.realpath(tb.tb_frame.f_code.co_filename)
            if fn.startswith(repo):
                owner, func = "repo", os.path.basename(fn)[:-3] + "." + tb.tb_frame.f_code.co_name
            elif fn.startswith(here):
                owner = "harness"
            tb = tb.tb_next
        if owner == "repo":
            try:
                pid = importlib.import_module(modname).PID.lower()
            except Exception:  # noqa
                pid = "c00"
            return {"spec": spec, "lines": [], "meta": {"hist": {"implementation-raised": 1}},
                    "monitor": [{"signature": f"{pid}:implementation-raised:{type(e).__name__}:{func}",
                                 "what": f"the implementation raised {type(e).__name__}: {str(e)[:200]} in {func} on a generated case "
                                         f"(an exception the harness does not expect from any legal input)",
                                 "detail": {"traceback": text[-1500:]}}]}
        return {"spec": spec, "crash": text}
    finally:
        if armed:
            signal.setitimer(signal.ITIMER_REAL, 0)


def default_compare(inp, impl, model):
    """impl is a dict of observed outputs; every key of it must be reproduced by the model."""
    if impl is None:
        return None
    if "err" in impl:
        if "err" in model and model["err"].split(":")[0] == impl["err"].split(":")[0]:
            return None
        return f"impl raised {impl['err']} model gave {canon(model)[:200]}"
    if "err" in model:
        return f"model error {model['err']} impl gave {canon(impl)[:200]}"
    mo = model.get("out", {})
    for k, v in impl.items():
        if k.startswith("_") or v is None:
            continue
        if k not in mo:
            return f"model output lacks key {k}"
        if canon(mo[k]) != canon(v):
            return f"key {k}: impl {canon(v)[:300]} model {canon(mo[k])[:300]}"
    return None


class Ctx:
    def __init__(self, mod, tier, seed):
        self.mod, self.tier, self.seed = mod, tier, seed
        self.pid = mod.PID
        self.findings = []  # monitor hits (failing inputs on the real code)
        self.disagreements = []  # correspondence mismatches
        self.undischarged = []
        self.notes = {}
        self.traces = 0
        self.evaluations = 0
        self.nontrivial_hashes = set()
        self.samples = []
        self.hist = {}
        self.free = 0
        self.forced = 0

    def count(self, k, n=1):
        self.hist[k] = self.hist.get(k, 0) + n


def run_cases(ctx, specs, label):
    mod = ctx.mod
    modname = mod.__name__
    if not specs:
        return
    nproc = min(16, max(1, len(specs) // 4)) if len(specs) > 8 else 1
    if nproc > 1:
        # safety net: a case that never returns (an implementation that loops forever inside a call no stream guards with its own
        # watchdog) ends the run as a harness error after a generous time instead of hanging it
        limit = float(os.environ.get("VERIF_CASES_TIMEOUT", "2400" if len(specs) < 1000 else "5400"))
        with mp.get_context("fork").Pool(nproc) as pool:
            res = pool.map_async(_worker, [(modname, s) for s in specs], chunksize=max(1, len(specs) // (nproc * 4)))
            try:
                traces = res.get(timeout=limit)
            except mp.TimeoutError:
                pool.terminate()
                raise RuntimeError(f"{label}: the cases did not finish within {limit:.0f} s (a worker hangs)")
    else:
        traces = [_worker((modname, s)) for s in specs]
    crashes = [t for t in traces if "crash" in t]
    if crashes:
        raise RuntimeError("harness crash on spec " + canon(crashes[0]["spec"])[:500] + "\n" + crashes[0]["crash"])
    # model side, one driver process per driver file for all cases (a trace may name its own
    # driver with key "driver"; default: the module's DRIVER)
    default_driver = getattr(mod, "DRIVER", None)
    by_driver = {}
    for idx, t in enumerate(traces):
        d = t.get("driver", default_driver)
        if d and t["lines"]:
            by_driver.setdefault(d, []).append(idx)
    outs_for = {}
    for d, idxs in by_driver.items():
        all_lines = []
        for idx in idxs:
            all_lines.extend(l[0] for l in traces[idx]["lines"])
        res = run_driver(d, all_lines)
        pos = 0
        for idx in idxs:
            n = len(traces[idx]["lines"])
            outs_for[idx] = res[pos:pos + n]
            pos += n
    cmp_default = getattr(mod, "compare", default_compare)
    cmp_by_driver = getattr(mod, "COMPARE", {})
    for idx, t in enumerate(traces):
        n = len(t["lines"])
        driver = t.get("driver", default_driver) if idx in outs_for else None
        mo = outs_for.get(idx, [])
        cmp = cmp_by_driver.get(driver, cmp_default)
        ctx.evaluations += 1
        ctx.traces += 1
        dis = None
        for i, (inp, impl) in enumerate(t["lines"]):
            if not driver:
                break
            ctx.count("op:" + str(inp.get("op", inp.get("stream", "?"))))
            m = mo[i]
            if isinstance(m.get("out"), dict) and m["out"].get("free"):
                ctx.free += 1
            d = cmp(inp, impl, m)
            if d is not None:
                dis = {"case": case_hash(t["spec"]), "line": i, "input": inp, "why": d, "label": label}
                break
        if dis:
            dis["spec"] = t["spec"]
            ctx.disagreements.append(dis)
        extra = mod.post_case(t, mo) if (hasattr(mod, "post_case") and driver and not dis) else []
        for f in list(t.get("monitor", [])) + list(extra):
            f = dict(f)
            f["spec"] = t["spec"]
            ctx.findings.append(f)
        for k, v in t.get("meta", {}).get("hist", {}).items():
            ctx.count(k, v)
        if mod.nontrivial(t):
            ctx.nontrivial_hashes.add(case_hash(t["spec"]))
        if len(ctx.samples) < 3:
            ctx.samples.append({"spec": t["spec"], "first_lines": [l[0] for l in t["lines"][:6]],
                                "hist": t.get("meta", {}).get("hist", {})})


def write_replay(pid, kind, payload):
    os.makedirs(REPLAYS, exist_ok=True)
    h = hashlib.sha256(canon(payload).encode()).hexdigest()[:12]
    path = os.path.join(REPLAYS, f"{pid}-{kind}-{h}.json")
    with open(path, "w") as f:
        json.dump(payload, f, indent=1, sort_keys=True, default=str)
    return os.path.relpath(path, ROOT)


def main(argv=None):
    ap = argparse.ArgumentParser()
    ap.add_argument("pid")
    ap.add_argument("--tier", default=os.environ.get("VERIF_TIER", "quick"))
    ap.add_argument("--replay")
    args = ap.parse_args(argv)
    tier = args.tier if args.tier in ("quick", "thorough") else "quick"
    seed = int(os.environ.get("VERIF_SEED", "0") or 0)
    t0 = time.time()
    pid = args.pid.upper()
    sys.path.insert(0, os.path.join(ROOT, "harness"))
    mod = importlib.import_module("props." + pid.lower())
    ctx = Ctx(mod, tier, seed)
    rc = 0
    try:
        rc = _run(ctx, args, t0)
    except subprocess.TimeoutExpired as e:
        print(f"TIMEOUT {e}", flush=True)
        rc = 2
    except Exception as e:
        traceback.print_exc()
        print(f"HARNESS-ERROR property={pid} {type(e).__name__}: {str(e)[:2000]}", flush=True)
        rc = 2
    sys.exit(rc)


def _run(ctx, args, t0):
    mod, pid, tier, seed = ctx.mod, ctx.pid, ctx.tier, ctx.seed
    # 1. proofs
    theorems = list(mod.THEOREMS)
    targets = list(mod.LEAN_TARGETS)
    drv = getattr(mod, "DRIVER", None)
    aud, build_out = audit(pid, targets, theorems)
    ctx.undischarged = [(t, a["why"]) for t, a in aud.items() if not a["ok"]]
    forb = forbidden_tokens(targets + ([drv[:-5].replace("/", ".")] if drv else []))
    if forb:
        ctx.undischarged.append(("forbidden-tokens", "; ".join(forb[:10])))
    if drv:
        mod_name = drv[:-5].replace("/", ".")
        ok, out = lake_build([mod_name])
        if not ok:
            raise RuntimeError("driver does not build: " + out[-2000:])
    if tier == "thorough" and not ctx.undischarged and os.environ.get("VERIF_NO_LEANCHECKER") != "1":
        p = subprocess.run(["lake", "env", "leanchecker"] + targets, cwd=LEAN, capture_output=True, text=True, timeout=3000)
        ctx.notes["leanchecker_rc"] = p.returncode
        if p.returncode != 0:
            ctx.undischarged.append(("leanchecker", (p.stdout + p.stderr)[-800:]))
    # 2. correspondence + monitors
    rng = random.Random(seed * 1000003 + 17)
    if args.replay:
        rp = json.load(open(args.replay if os.path.isabs(args.replay) else os.path.join(ROOT, args.replay)))
        specs = [rp["spec"]] if "spec" in rp else []
        run_cases(ctx, specs, "replay")
    else:
        run_cases(ctx, list(mod.corpus()), "corpus")
        run_cases(ctx, list(mod.gen_cases(rng, tier)), "generated")
    if hasattr(mod, "extra"):
        mod.extra(ctx)
    # 3. verdict
    lines = []
    violations = 0
    known_hits = {}
    new_findings = []
    for f in ctx.findings:
        k = match_known(pid, f["signature"])
        if k:
            known_hits.setdefault(f["signature"], f)
        else:
            new_findings.append(f)
    for sig, f in known_hits.items():
        lines.append(f"KNOWN-FINDING: property={pid} {sig}: {f['what']}")
    seen_sig = set()
    for f in new_findings:
        if f["signature"] in seen_sig:
            continue
        seen_sig.add(f["signature"])
        path = write_replay(pid, "violation", {"property": pid, "kind": "failing-input", "signature": f["signature"],
                                                "what": f["what"], "detail": f.get("detail"), "spec": f.get("spec")})
        lines.append(f"VIOLATION property={pid} replay={path}")
        violations += 1
    broken = []
    if ctx.undischarged:
        broken.append({"kind": "proof-obligation", "items": ctx.undischarged})
    if ctx.disagreements:
        broken.append({"kind": "correspondence", "stream": getattr(mod, "DRIVER", ""),
                       "count": len(ctx.disagreements), "first": ctx.disagreements[:3]})
    if broken and not new_findings:
        # property no longer shown to hold, no failing input on the real code found
        path = write_replay(pid, "unproved", {"property": pid, "kind": "no-failing-input-found", "broken": broken,
                                               "spec": ctx.disagreements[0]["spec"] if ctx.disagreements else None})
        lines.append(f"VIOLATION property={pid} replay={path} no-failing-input-found")
        violations += 1
    elif broken:
        ctx.notes["broken"] = broken
    # 4. evidence
    n_ob = len(theorems)
    n_dis = len([t for t, a in aud.items() if a["ok"]])
    level = getattr(mod, "LEVEL", "proof")
    cov = {
        "obligations": n_ob,
        "discharged": n_dis,
        "checker_cmd": f"cd lean && lake build {' '.join(targets)} && lake env lean <#print axioms of each theorem>"
                       + (" && lake env leanchecker " + " ".join(targets) if tier == "thorough" else ""),
        "trusted_base": list(getattr(mod, "TRUSTED", [])) + [
            "Lean 4.33 kernel", "axioms used: " + ",".join(sorted({a for v in aud.values() for a in v["axioms"]})) ],
        "theorems": {t: a["axioms"] if a["ok"] else "UNDISCHARGED: " + a["why"][:200] for t, a in aud.items()},
        "evaluations": ctx.evaluations,
        "traces_validated_against_impl": ctx.traces,
        "distinct_nontrivial": len(ctx.nontrivial_hashes),
        "rule": getattr(mod, "RULE", ""),
        "samples": ctx.samples[:3] or [{"note": "no generated cases in this run"}],
        "histogram": dict(sorted(ctx.hist.items())),
        "free_decisions": ctx.free,
        "disagreements": len(ctx.disagreements),
        "monitor_findings": len(ctx.findings),
        "known_findings_hit": sorted(known_hits),
        "programs": ctx.evaluations,
        "disagreements_checked": len(ctx.disagreements),
        "notes": ctx.notes,
    }
    ev = {
        "property_id": pid, "tier": tier, "seed": seed, "level": level, "coverage": cov,
        "assumptions": list(getattr(mod, "ASSUMPTIONS", [])),
        "wall_s": round(time.time() - t0, 2), "violations": violations,
    }
    # runs against a scratch tree (VERIF_REPO, used only to try seeded changes) must not overwrite the
    # evidence of the real tree
    evid_dir = EVID if not os.environ.get("VERIF_REPO") else os.path.join(EVID, ".scratch")
    os.makedirs(evid_dir, exist_ok=True)
    if not args.replay:
        with open(os.path.join(evid_dir, f"{pid}.json"), "w") as f:
            json.dump(ev, f, indent=1, sort_keys=True, default=str)
    for l in lines:
        print(l, flush=True)
    print(f"[{pid}] tier={tier} seed={seed} obligations={n_dis}/{n_ob} cases={ctx.evaluations} "
          f"nontrivial={len(ctx.nontrivial_hashes)} disagreements={len(ctx.disagreements)} "
          f"findings={len(ctx.findings)} wall={ev['wall_s']}s", flush=True)
    return 1 if violations else 0


if __name__ == "__main__":
    main()
