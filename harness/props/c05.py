"""C05 — synchronous Hyperband fills rungs exactly and promotes exactly the top trials
(+ the synchronous-Hyperband parts of C13 and C20, audited here until they are combined)."""
import json
import os
import random

from streams import sync
from streams.sync import compare  # noqa: F401

PID = "C05"
LEVEL = "proof"
LEAN_TARGETS = ["SyneTune.Props.C05", "SyneTune.Props.C13Sync", "SyneTune.Props.C20Sync"]
DRIVER = "SyneTune/Drivers/Sync.lean"
THEOREMS = [
    # C05
    "SyneTune.C05.run_total",
    "SyneTune.C05.distinct",
    "SyneTune.C05.cycle",
    "SyneTune.C05.barrier",
    "SyneTune.C05.top",
    "SyneTune.C05.top_list_best",
    "SyneTune.C05.never_blocks",
    "SyneTune.C05.suggest_total",
    "SyneTune.C05.primary",
    "SyneTune.C05.resume_is_top",
    # C13 (synchronous Hyperband part)
    "SyneTune.C13Sync.sync_total",
    "SyneTune.C13Sync.sync_no_wait",
    "SyneTune.C13Sync.no_orphan_slot",
    "SyneTune.C13Sync.occupied_slots_stable",
    "SyneTune.C13Sync.no_resume_failed_partial",
    "SyneTune.C13Sync.witness_resumes_failed",
    "SyneTune.C13Sync.no_resume_failed_counterexample",
    # C20 (synchronous Hyperband part)
    "SyneTune.C20Sync.removable_not_promoted",
    "SyneTune.C20Sync.not_promoted_stable",
    "SyneTune.C20Sync.not_promoted_never_resumed",
    "SyneTune.C20Sync.resume_has_ckpt_sync",
    # the induction itself
    "SyneTune.Sync.run_inv",
    "SyneTune.Sync.init_inv",
]
TRUSTED = [
    "hand-written model lean/SyneTune/Model/{SyncBracket,SyncManager,SyncScheduler}.lean tied to /repo by the sync correspondence stream",
    "Python harness harness/streams/sync.py (scripted workers, recording stub searcher, slot tables read from the private fields of the real objects)",
    "Python `sorted` (Timsort) modelled as the stable sort by key; `reverse=True` keeps the original order among equal keys",
    "metrics are finite floats or NaN in the cases compared with the model (±inf only in monitor-only cases); numpy float arithmetic of `geometric` is exact for the dyadic factors generated, "
    "ceilings within 2^-40 of an integer computed from non-dyadic factors are 'free' (model adopts the implementation's value)",
]
ASSUMPTIONS = [
    "trial ids handed to suggest() are fresh (not yet known to the scheduler) — the tuning loop's counter",
    "the searcher's answer (configuration or None) is an input of the model",
    "theorems about runs hold for every op list; an op that raises (training script skipping a rung level) leaves the state unchanged",
]
RULE = ("cases: (a) real SynchronousHyperbandScheduler / SynchronousGeometricHyperbandScheduler with custom and geometric rung systems "
        "(1-4 rungs, 1-4 offsets, base rung <= 9), modes min/max, 1-6 scripted workers, reports in random order across open brackets "
        "(random linear extension), failure subsets, searcher without configuration, NaN metrics, late reports, with/without "
        "max_resource_attr and checkpointing; (b) the real bracket managers (synchronous and DEHB) driven directly incl. illegal calls; "
        "(c) thorough: every result order and failure subset for tiny systems; (d) monitor only: ±inf metric values (the top list of a "
        "completed rung is judged by what the workers reported), real DEHB runs; distinct by sha256 of the spec; "
        "non-trivial iff at least one rung was completed")


# ---------------------------------------------------------------------------------
# generators


def gen_levels(rng, n):
    ls, x = [], 0
    for _ in range(n):
        x += rng.choice([1, 1, 2, 3])
        ls.append(x)
    return ls


def gen_sizes(rng, n, base_max):
    """strictly decreasing positive sizes, largest <= base_max (if possible)"""
    sizes, x = [], rng.choice([1, 1, 2])
    for _ in range(n):
        sizes.append(x)
        x += rng.choice([1, 1, 2, 3])
    sizes.reverse()
    while sizes[0] > max(base_max, n) and n > 0:
        sizes = [max(n - i, s - 1) for i, s in enumerate(sizes)]
    return sizes


def gen_custom_systems(rng, base_max=7):
    R = rng.choice([1, 2, 2, 3, 3, 4])
    noff = rng.randint(1, R)
    levels = gen_levels(rng, R)
    systems = []
    for off in range(noff):
        n = R - off
        lv = levels[off:] if rng.random() < 0.8 else gen_levels(rng, n)
        sz = gen_sizes(rng, n, base_max)
        systems.append([[s, l] for s, l in zip(sz, lv)])
    return systems


def gen_ctor(rng, tier):
    mode = rng.choice(["min", "max"])
    c = {"mode": mode}
    r = rng.random()
    if r < 0.55:
        c["bracket_rungs"] = gen_custom_systems(rng, 7 if tier == "quick" else 9)
    elif r < 0.6:
        # constructor assertions (sizes not decreasing / levels not increasing / wrong number of rungs / empty)
        sysm = gen_custom_systems(rng)
        k = rng.choice(["size", "level", "len", "empty", "zero"])
        if k == "size":
            sysm[-1].append([sysm[-1][-1][0], sysm[-1][-1][1] + 1])
            for i in range(len(sysm) - 1):
                sysm[i].append([1, sysm[i][-1][1] + 1]) if sysm[i][-1][0] > 1 else None
        elif k == "level":
            sysm[0][0][1] = sysm[0][-1][1] + (1 if len(sysm[0]) > 1 else 0)
        elif k == "len":
            sysm.append(list(sysm[-1]))
        elif k == "empty":
            sysm = []
        else:
            sysm[0][-1][0] = 0
        c["bracket_rungs"] = sysm
    else:
        rf = rng.choice(["2", "3", "3", "4", "5/2", "9/4", "7/2", "11/4"])
        mn = rng.choice([1, 1, 2, 3])
        mx = rng.choice([mn + 1, 4, 9, 16, 27] if tier == "quick" else [mn + 1, 4, 9, 16, 27, 30, 81])
        if mx <= mn:
            mx = mn + 2
        c["geometric"] = {"min": mn, "max": mx, "rf": rf, "brackets": rng.choice([None, None, 1, 2, 3])}
    c["max_resource_attr"] = rng.random() < 0.5
    c["searcher_data"] = rng.choice(["rungs", "all"])
    return c


def gen_scheduler_case(rng, tier):
    spec = _gen_scheduler_case(rng, tier)
    g = spec["ctor"].get("geometric")
    if g is not None:
        # long enough to complete the (large) base rung of a geometric system
        try:
            base = sync.SynchronousHyperbandRungSystem.geometric(
                g["min"], g["max"], float(sync.Fraction(g["rf"])), g.get("brackets"))[0][0][0]
        except AssertionError:
            base = 1
        if base > 8:
            spec["report_all"] = False
        spec["max_events"] = min(max(spec["max_events"], 4 * base), 200 if tier == "quick" else 600)
    return spec


def _gen_scheduler_case(rng, tier):
    return {
        "level": "scheduler",
        "ctor": gen_ctor(rng, tier),
        "seed": rng.randrange(10 ** 9),
        "n_workers": rng.randint(1, 6),
        "max_events": rng.choice([30, 60, 100]) if tier == "quick" else rng.choice([60, 150, 400]),
        "style": rng.choice(["general"] * 5 + ["ties", "ties", "const", "id"]),
        "p_fail": rng.choice([0, 0, 0.05, 0.15, 0.4, 0.8]),
        "p_late": rng.choice([0, 0, 0.1]),
        "p_noconfig": rng.choice([0, 0, 0, 0.05, 0.3]),
        "p_nan": rng.choice([0, 0, 0, 0.05]),
        "p_skip": rng.choice([0, 0, 0, 0.02]),
        "p_reuse": rng.choice([0, 0, 0, 0.02]),
        "checkpointing": rng.random() < 0.6,
        "report_all": rng.random() < 0.5,
        "sign": rng.choice([1, 1, -1]),
    }


def gen_manager_case(rng, tier):
    kind = rng.choice(["hyperband", "hyperband", "dehb"])
    ctor = {"kind": kind, "mode": rng.choice(["min", "max"])}
    if kind == "dehb":
        R = rng.randint(1, 4)
        ctor["rungs_first"] = [[s, l] for s, l in zip(gen_sizes(rng, R, 7), gen_levels(rng, R))]
        ctor["num_brackets"] = rng.choice([None, None, rng.randint(0, R + 1)])
    else:
        ctor["bracket_rungs"] = gen_custom_systems(rng)
    return {
        "level": "manager",
        "ctor": ctor,
        "seed": rng.randrange(10 ** 9),
        "max_events": rng.choice([30, 60]) if tier == "quick" else rng.choice([60, 200]),
        "style": rng.choice(["general", "general", "ties", "const"]),
        "p_fail": rng.choice([0, 0.1, 0.5]),
        "p_bad": rng.choice([0, 0.1, 0.25]),
        "n_open": rng.randint(1, 6),
    }


# tiny systems for the exhaustive enumeration (thorough tier): (bracket_rungs, n_workers, max_trials)
TINY = [
    ([[[2, 1], [1, 2]]], 2, 3),
    ([[[2, 1], [1, 2]]], 3, 3),
    ([[[3, 1], [1, 3]]], 3, 3),
    ([[[3, 1], [2, 2], [1, 4]]], 2, 3),
    ([[[2, 1], [1, 3]], [[1, 3]]], 2, 3),
    ([[[3, 1], [1, 3]], [[2, 3]]], 2, 4),
    ([[[3, 1], [2, 2], [1, 4]], [[2, 2], [1, 4]], [[1, 4]]], 2, 3),
]


def enumerate_scripts(systems, n_workers, max_trials, mode, style, cap=6000):
    """all choice sequences (suggest / report t / fail t) of the scripted scenario, found by
    depth-first search on the real scheduler"""
    base = {"level": "scheduler", "ctor": {"mode": mode, "bracket_rungs": systems, "max_resource_attr": False, "searcher_data": "rungs"},
            "seed": 1, "n_workers": n_workers, "max_trials": max_trials, "max_events": 40, "style": style,
            "p_fail": 1.0, "checkpointing": True, "report_all": False, "sign": 1}
    done = []
    stack = [[]]
    while stack and len(done) < cap:
        prefix = stack.pop()
        spec = dict(base, script=prefix)
        t = sync.run_scheduler(spec)
        n = t.get("next_options")
        if not n:
            done.append(spec)
        else:
            for c in range(n - 1, -1, -1):
                stack.append(prefix + [c])
    return done, not stack


def gen_cases(rng, tier):
    n_s, n_m = (90, 30) if tier == "quick" else (1500, 400)
    for _ in range(n_s):
        yield gen_scheduler_case(rng, tier)
    for _ in range(n_m):
        yield gen_manager_case(rng, tier)
    # geometric systems whose largest level is an exact power of the reduction factor times the smallest one (the number of rung
    # levels is a count of multiplications, not a rounded logarithm)
    powers = [(1, "5", 125), (1, "6", 216), (1, "7", 343), (2, "5", 250), (1, "10", 1000), (1, "3", 243), (3, "5", 375), (1, "6", 1296)]
    for i in range(4 if tier == "quick" else len(powers)):
        mn, rf, mx = powers[(i + rng.randrange(len(powers))) % len(powers)] if tier == "quick" else powers[i]
        spec = gen_scheduler_case(rng, tier)
        spec["ctor"].pop("bracket_rungs", None)
        spec["ctor"]["geometric"] = {"min": mn, "max": mx, "rf": rf, "brackets": rng.choice([None, 1, 2])}
        spec["max_events"] = 12
        spec["report_all"] = False
        yield spec
    # infinite metric values (monitor only: the model's metrics are rationals or NaN): +-inf is a value like any other, it ranks
    # first or last among the valid entries of its rung and is not a failure
    for _ in range(12 if tier == "quick" else 150):
        spec = gen_scheduler_case(rng, tier)
        spec.update({"p_inf": rng.choice([0.15, 0.3]), "p_nan": 0, "p_skip": 0, "p_late": 0, "p_noconfig": 0, "monitor_only": True})
        yield spec
    # the real DEHB scheduler (monitor only, no model of DEHB's scheduler): with pause and resume (the default) the best trials of a
    # completed rung of the first bracket are RESUMED - a new trial is never given the configuration of an earlier one
    for i in range(6 if tier == "quick" else 60):
        yield {"dehb_run": True, "sched_seed": rng.randrange(10 ** 6), "seed": rng.randrange(10 ** 9),
               "cs_kind": rng.choice(["finite", "mixed", "cont"]), "max_t": 9, "n_workers": rng.randint(1, 4),
               "max_events": 200, "style": "distinct", "p_fail": 0, "extra": {"brackets": rng.choice([None, 1, 2])}}
    if tier == "thorough":
        for systems, w, mt in TINY:
            for mode, style in (("min", "id"), ("max", "ties")):
                specs, complete = enumerate_scripts(systems, w, mt, mode, style)
                for s in specs:
                    s["enumerated"] = True
                    s["enum_complete"] = complete
                    yield s


# the Lean witness of `C13Sync.no_resume_failed_counterexample`, replayed on the real code
WITNESS = {"level": "scheduler",
           "ctor": {"mode": "min", "bracket_rungs": [[[2, 1], [1, 2]]], "max_resource_attr": False, "searcher_data": "rungs"},
           "seed": 0, "n_workers": 2, "max_events": 6, "style": "id", "p_fail": 1.0, "checkpointing": True,
           "report_all": False, "sign": 1,
           # options: [suggest?, report t.., fail t..]: suggest, suggest, fail 0, fail 1, suggest
           "script": [0, 0, 2, 2, 0]}


def corpus():
    p = os.path.join(os.path.dirname(__file__), "..", "corpus", "c05.json")
    extra = json.load(open(p)) if os.path.exists(p) else []
    return [WITNESS] + extra


# ---------------------------------------------------------------------------------


def run_impl(spec):
    if spec.get("dehb_run"):
        from props import c06
        r = c06.run_dehb(dict(spec, scenario="dehb"))
        for f in r["monitor"]:
            f["signature"] = "c05:dehb-earlier-trial-started-anew"
            f["what"] = f["what"] + " (a trial that should have been resumed from its rung was started anew)"
        r["meta"]["hist"] = {"dehb-run:" + k: v for k, v in r["meta"]["hist"].items()}
        return r
    if spec.get("level") == "manager":
        t = sync.run_manager(spec)
    else:
        t = sync.run_scheduler(spec)
    mon = sync.monitor_c05(t)
    if spec.get("level") != "manager":
        mon += sync.monitor_c13_sync(t) + sync.monitor_c20_sync(t)
    hist = {}

    def cnt(k, n=1):
        hist[k] = hist.get(k, 0) + n

    completed = 0
    max_open = 0
    for ev in t["events"]:
        cnt("ev:" + ev["ev"])
        if "state" in ev:
            st = ev["state"]
            max_open = max(max_open, len(st["brackets"]) - st["primary"])
    final = [e for e in t["events"] if e["ev"] == "final"]
    if final:
        for br in final[0]["state"]["brackets"]:
            completed += br["current"]
    # promotions out of a rung with fewer valid entries than slots in the next rung (F4 territory)
    if final and spec["ctor"].get("kind", "hyperband") == "hyperband":
        for br in final[0]["state"]["brackets"]:
            for k in range(1, len(br["rungs"])):
                lo, hi = br["rungs"][k - 1][1], br["rungs"][k][1]
                if isinstance(lo, list) and isinstance(hi, list) and sum(1 for e in lo if e[1] not in (None, "nan")) < len(hi):
                    cnt("rungs_filled_up_with_failed")
    cnt("level:" + spec.get("level", "scheduler"))
    cnt("kind:" + spec["ctor"].get("kind", "hyperband"))
    cnt("rungs_completed", completed)
    pre = "enumerated_" if spec.get("enumerated") else ""
    if max_open >= 2:
        cnt(pre + "cases_with_2+_open_brackets")
    if completed >= 1:
        cnt(pre + "cases_with_completed_rung")
    if spec.get("enumerated"):
        cnt("enumerated")
    for f in mon:
        cnt("monitor:" + f["signature"])
    for inp, impl in t["lines"]:
        if impl is not None and "err" in impl:
            cnt("impl_err:" + impl["err"] + ":" + str(inp.get("op", "ctor")))
    if spec.get("monitor_only"):
        cnt("monitor-only:infinite-metrics")
        return {"lines": [], "monitor": mon, "meta": {"hist": hist, "completed": completed},
                "resumes": [e["trial"] for e in t["events"] if e["ev"] == "resume"]}
    return {"lines": t["lines"], "monitor": mon, "meta": {"hist": hist, "completed": completed},
            "resumes": [e["trial"] for e in t["events"] if e["ev"] == "resume"]}


def nontrivial(trace):
    return trace.get("meta", {}).get("completed", 0) >= 1


def extra(ctx):
    """replay of the model-side counterexample (both trials of the base rung fail, the next
    suggest resumes failed trial 0) on the real code"""
    t = run_impl(WITNESS)
    # generator targets of DESIGN Appendix C (stream `sync`), measured on this run
    n = ctx.hist.get("level:scheduler", 0) + ctx.hist.get("level:manager", 0) - ctx.hist.get("enumerated", 0)
    if n >= 100:  # (randomly generated cases; the enumerated tiny systems are counted separately)
        open2 = ctx.hist.get("cases_with_2+_open_brackets", 0) / n
        done = ctx.hist.get("cases_with_completed_rung", 0) / n
        ctx.notes["generator_targets"] = {"cases": n, "two_or_more_open_brackets": round(open2, 3),
                                          "completed_rung": round(done, 3), "required": {"open": 0.4, "completed": 0.8}}
        # only meaningful when the run is otherwise clean: a broken implementation (findings,
        # disagreements) cuts scenarios short and must be reported as such, not as a weak generator
        new = [f for f in ctx.findings if f["signature"] != "c05:failed-trial-promoted"]
        if (open2 < 0.4 or done < 0.8) and not new and not ctx.disagreements:
            raise RuntimeError(f"weak generator: 2+ open brackets in {open2:.2f} of the cases (need 0.40), "
                               f"completed rung in {done:.2f} (need 0.80)")
    ctx.notes["counterexample_replay"] = {
        "witness": "rungs [(2,1),(1,2)]: suggest 0, suggest 1, error 0, error 1, suggest 2",
        "real_code_resumes_failed_trial": t["resumes"] == [0],
        "monitor_signatures": sorted({f["signature"] for f in t["monitor"]}),
    }
