"""C17 — the results log and the reported best configuration reflect what happened."""
import json
import os
import random

from streams import loop
from streams.loop import compare  # noqa: F401

PID = "C17"
LEVEL = "proof"
LEAN_TARGETS = ["SyneTune.Props.C17"]
DRIVER = "SyneTune/Drivers/Loop.lean"
THEOREMS = [
    "SyneTune.C17.stats_count",
    "SyneTune.C17.stats_nan_never_enters",
    "SyneTune.C17.stats_nan_never_enters_status",
    "SyneTune.C17.stats_nan_never_enters_status_init",
    "SyneTune.C17.stats_min",
    "SyneTune.C17.stats_max",
    "SyneTune.C17.stats_sum",
    "SyneTune.C17.stats_is_numeric",
    "SyneTune.C17.stats_latch",
    "SyneTune.C17.stats_latch_forever",
    "SyneTune.C17.update_overall",
    "SyneTune.C17.update_per_trial",
    "SyneTune.C17.update_keys_unique",
    "SyneTune.C17.best_tuner_first_none",
    "SyneTune.C17.best_tuner_first",
    "SyneTune.C17.best_tuner_min",
    "SyneTune.C17.best_tuner_max",
    "SyneTune.C17.best_experiment_none",
    "SyneTune.C17.best_experiment",
    "SyneTune.C17.mode_lookup_name_one",
    "SyneTune.C17.mode_lookup_name_many",
    "SyneTune.C17.mode_lookup_index_of",
    "SyneTune.C17.mode_lookup_index_of_mem",
    "SyneTune.C17.mode_lookup_index_one",
    "SyneTune.C17.mode_lookup_index_many",
    "SyneTune.C17.mode_lookup_negative_index_one",
    "SyneTune.C17.mode_lookup_negative_index_out_of_range",
    "SyneTune.C17.mode_lookup_unknown_name",
    "SyneTune.C17.mode_lookup_index_too_large",
    "SyneTune.C17.rows",
    "SyneTune.C17.rows_none",
    "SyneTune.C17.rows_content",
]
TRUSTED = [
    "hand-written model lean/SyneTune/Model/{Tuner,TuningStatus}.lean tied to /repo by the loop correspondence stream",
    "pandas CSV writer/reader and Series.argmin/argmax (checked by correspondence only: frame written under a temporary "
    "SYNETUNE_FOLDER, read back with load_experiment, compared to 17 significant digits)",
    "floating-point sums are compared with relative tolerance 1e-9 (the model adds exactly)",
]
ASSUMPTIONS = [
    "metric values handed to the loop are Python/numpy numbers, strings, NaN or +-inf",
]
RULE = ("cases: the real Tuner.run() with StoreResultsCallback (or SimulatorCallback) writing results.csv.zip under a "
        "temporary SYNETUNE_FOLDER; several metrics, mode lists, strings, NaN, +-inf, trials without results, resumed "
        "trials with a new configuration, results_update_interval both 'never' and 'every result'; plus reference-style "
        "calls of metric_name_mode; scripted two-metric schedulers whose second metric is now and then a word; monitor only: "
        "experiments run in two legs (run, Tuner.load, larger budget, run); non-trivial iff at least 3 rows were stored and at least 2 trials reported")


def gen_resume_case(rng, tier):
    """runs in which trials are paused and resumed with a CHANGED configuration (promotion-type Hyperband rewrites the
    max-resource entry of the configuration at every promotion; the PRNG scheduler resumes with new values): the rows
    written after the resume carry the configuration the trial then runs with"""
    while True:
        spec = loop.gen_spec(rng, tier)
        if spec["backend"] == "script":
            break
    if rng.random() < 0.6:
        spec["scheduler"] = {"kind": "hb", "type": rng.choice(["promotion", "promotion", "cost_promotion", "rush_promotion"]),
                             "modes": rng.choice(["min", "max"]), "reduction_factor": rng.choice([2, 3]), "brackets": 1,
                             "max_resource_attr": True}
        if spec["scheduler"]["type"] == "cost_promotion":
            spec["backend_params"]["style"] = "cost"
    else:
        spec["scheduler"] = {"kind": "script", "params": {"p_stop": 0.0, "p_pause": 0.3, "p_resume": 0.6, "p_ckpt": 0.0,
                                                         "max_suggest": None, "p_removable": 0.0}, "ckpt_mixin": False,
                             "modes": rng.choice(["min", "max"])}
    spec["max_t"] = 9
    spec["n_workers"] = rng.randint(1, 4)
    spec["criterion"] = {"max_num_evaluations": rng.randint(30, 45)}
    spec["inject"] = None
    spec["backend_params"].update({"p_fail": 0.0, "p_extstop": 0.0, "short_runs": None})
    spec["cb_store"] = True
    spec["csv"] = True
    return spec


def gen_cases(rng, tier):
    n = 100 if tier == "quick" else 2000
    for _ in range(14 if tier == "quick" else 200):
        yield gen_resume_case(rng, tier)
    for _ in range(n):
        spec = loop.gen_spec(rng, tier)
        spec["cb_store"] = True
        spec["csv"] = True
        if spec["backend"] == "script" and rng.random() < 0.6:
            spec["backend_params"]["style"] = "rich"
            sp = spec["scheduler"]
            spec["backend_params"]["nan_metric"] = sp["kind"] == "script" or (sp["kind"] == "fifo" and sp.get("searcher") == "random")
        if rng.random() < 0.3:
            spec["store_every"] = True
        yield spec
    # training scripts that report a value under the name of one of their hyperparameters (appended: the cases above stay the same)
    k = 0
    while k < (12 if tier == "quick" else 150):
        spec = loop.gen_spec(rng, tier)
        if spec["backend"] != "script":
            continue
        spec["cb_store"], spec["csv"] = True, True
        spec["backend_params"]["style"] = "rich"
        spec["backend_params"]["report_hp_name"] = True
        k += 1
        yield spec
    # results that carry the worker's report counter (it restarts with every run of a trial), pause-and-resume schedulers
    for _ in range(10 if tier == "quick" else 120):
        spec = gen_resume_case(rng, tier)
        spec["backend_params"]["worker_iter"] = True
        yield spec
    # scripted schedulers with two metrics, the second of which is now and then not a number (statistics of a metric follow the type
    # of its first value; the best trial is the best among the per-trial statistics)
    k = 0
    while k < (14 if tier == "quick" else 160):
        spec = loop.gen_spec(rng, tier, text_metric=True)
        if not spec.get("backend_params", {}).get("text_metric"):
            continue
        # (the table is not read back in these cases: what pandas makes of a column of numbers and words is not modelled)
        spec["cb_store"], spec["csv"], spec["no_view"] = True, False, True
        spec["inject"] = None
        k += 1
        yield spec
    # an experiment run in two legs (monitor only): Tuner.run(), Tuner.load() of the saved tuner, a larger budget, run() again - the
    # table on disk has one row per result handed to the loop in EITHER leg
    for _ in range(4 if tier == "quick" else 40):
        yield {"two_legs": True, "seed": rng.randrange(10 ** 9), "n_workers": rng.randint(1, 4), "first": rng.randint(3, 10),
               "second": rng.randint(12, 24), "sched": rng.choice(["fifo", "hb"]), "max_batch": rng.randint(1, 3)}


def run_two_legs(spec):
    import contextlib, io, shutil, tempfile
    from syne_tune import Tuner, StoppingCriterion
    from syne_tune.results_callback import StoreResultsCallback
    from syne_tune.config_space import uniform
    from syne_tune.experiments import load_experiment
    old = os.environ.get("SYNETUNE_FOLDER")
    tmp = tempfile.mkdtemp(prefix="c17legs_")
    os.environ["SYNETUNE_FOLDER"] = tmp
    mon = []
    try:
        be = loop.ScriptBackend(spec["seed"] % 9973, {"p_fail": 0.0, "p_extstop": 0.0, "max_batch": spec["max_batch"], "p_end_same_poll": 0.5,
                                                      "stop_delay": 0, "p_finish_at_busy": 0.0, "style": "plain", "short_runs": None}, 4)
        cs = {"x": uniform(0, 1), loop.MAXATTR: 4}
        if spec["sched"] == "fifo":
            from syne_tune.optimizer.schedulers.fifo import FIFOScheduler
            sch = FIFOScheduler(cs, searcher="random", metric=loop.METRIC, mode="min", random_seed=spec["seed"] % 1000)
        else:
            from syne_tune.optimizer.schedulers.hyperband import HyperbandScheduler
            sch = HyperbandScheduler(cs, searcher="random", metric=loop.METRIC, mode="min", resource_attr=loop.RES, max_t=4,
                                     grace_period=1, reduction_factor=2, type="stopping", random_seed=spec["seed"] % 1000)
        tuner = Tuner(trial_backend=be, scheduler=sch, stop_criterion=StoppingCriterion(max_num_evaluations=spec["first"]),
                      n_workers=spec["n_workers"], sleep_time=0, callbacks=[StoreResultsCallback()], save_tuner=True,
                      tuner_name="legs")
        with contextlib.redirect_stdout(io.StringIO()):
            tuner.run()
        n1 = int(tuner.tuning_status.overall_metric_statistics.count)
        df1 = load_experiment(str(tuner.name)).results
        keys = ["trial_id", loop.RES, loop.METRIC]
        first = [] if df1 is None else [tuple(r) for r in df1[keys].itertuples(index=False)]
        t2 = Tuner.load(str(tuner.tuner_path))
        t2.stop_criterion = StoppingCriterion(max_num_evaluations=spec["second"])
        with contextlib.redirect_stdout(io.StringIO()):
            t2.run()
        n2 = int(t2.tuning_status.overall_metric_statistics.count)
        df = load_experiment(str(t2.name)).results
        on_disk = 0 if df is None else len(df)
        both = [] if df is None else [tuple(r) for r in df[keys].itertuples(index=False)]
        # the rows of the first leg are still there, in place; a FIFO scheduler takes every result, so that the table then has one row
        # per result handed to the loop
        if both[:len(first)] != first or (spec["sched"] == "fifo" and on_disk != n2):
            mon.append({"signature": "c17:resumed-run-table-rows",
                        "what": f"experiment run in two legs (Tuner.load in between): the table had {len(first)} rows after the first leg "
                                f"({n1} results handed to the loop), {n2} results were handed to the loop in both legs; the table on disk has "
                                f"{on_disk} rows and {'does not begin' if both[:len(first)] != first else 'begins'} with the rows of the first leg",
                        "detail": {"spec": spec}})
        return {"lines": [], "monitor": mon, "meta": {"hist": {"two-legs": 1, "two-legs:results-second-leg": n2 - n1}, "rows": n2, "trials": 2}}
    finally:
        if old is None:
            os.environ.pop("SYNETUNE_FOLDER", None)
        else:
            os.environ["SYNETUNE_FOLDER"] = old
        shutil.rmtree(tmp, ignore_errors=True)


def corpus():
    p = os.path.join(os.path.dirname(__file__), "..", "corpus", "c17.json")
    fixed = json.load(open(p)) if os.path.exists(p) else []
    return fixed + loop.witness_specs(DRIVER)  # the runs of Lemmas/TunerWitnessData.lean, replayed on the real Tuner


def run_impl(spec):
    if spec.get("two_legs"):
        return run_two_legs(spec)
    t = loop.run_loop(spec)
    try:
        view = None if spec.get("no_view") else loop.experiment_view(t)
        lines = loop.to_lines(t, view)
        lines += loop.mode_lookup_lines(random.Random(spec["seed"] + 7))
        mon = loop.monitor_c17(t, view)
        hist = loop.histogram(t)
        rows = t["rows"] or []
        hist["rows"] = len(rows)
        for r in rows:
            for k, v in r.items():
                if isinstance(v, float) and v != v:
                    hist["nan-cells"] = hist.get("nan-cells", 0) + 1
                elif isinstance(v, str) and k == loop.AUX:
                    hist["string-cells"] = hist.get("string-cells", 0) + 1
        return {"lines": lines, "monitor": mon,
                "meta": {"hist": hist, "rows": len(rows), "trials": len({r["trial_id"] for r in rows})}}
    finally:
        loop.cleanup(t)


def nontrivial(trace):
    m = trace.get("meta", {})
    return m.get("rows", 0) >= 3 and m.get("trials", 0) >= 2
