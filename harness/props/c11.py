"""C11 — seeded runs are reproducible (translation validation: twin executions under perturbation)."""
import contextlib
import io
import json
import os
import random
import subprocess
import sys

import numpy as np

from streams import generic as g

PID = "C11"
LEVEL = "translation_validation"
LEAN_TARGETS = []
DRIVER = None
THEOREMS = []
TRUSTED = [
    "no Lean theorem can fail when the implementation grows a hidden input (a functional model is deterministic by "
    "construction); the property is decided by differential execution of the real code: in-process twins under perturbation of "
    "the global generators and interleaved independent instances, fresh-process twins under different PYTHONHASHSEED",
]
ASSUMPTIONS = [
    "every seed argument the API offers is set (random_seed of the scheduler; MOASHA takes none and is excluded)",
    "GP-based searchers are compared as fresh-process twins only (parameter vector order depends on process-global counters)",
]
RULE = ("programs = pairs of executions of the same seeded scheduler on the same event script: (a) in-process twin whose global "
        "numpy/python generators are reseeded and advanced between every two scheduler calls and which is interleaved with an "
        "independent instance of the same scheduler class; (b) fresh-process twins with PYTHONHASHSEED 1 and 2; (c) for "
        "bayesopt/hypertune searchers two fresh processes (with restarted surrogate fits also under different hash seeds); (d) twins "
        "created from ONE list object of allowed / of initial configurations, schedulers given a searcher object without a seed of "
        "its own, global generators re-seeded before the second twin is created. A pair disagrees iff the traces (suggested configurations bit-exact, "
        "decisions) differ. distinct by sha256 of the spec; non-trivial iff the trace contains >= 10 suggestions")
MODEL_FREE = ["fifo-random", "fifo-grid", "fifo-rea", "hb-stopping", "hb-promotion", "hb-pasha", "hb-cost_promotion",
              "hb-rush_stopping", "hb-rush_promotion", "sync-hb", "dehb", "pbt", "median", "hb-dyhpo"]
GP = ["fifo-bayesopt", "hb-bayesopt", "hb-hypertune"]
HERE = os.path.dirname(os.path.dirname(os.path.abspath(__file__)))  # harness/


def gen_cases(rng, tier):
    n = 42 if tier == "quick" else 420
    for i in range(n):
        name = MODEL_FREE[i % len(MODEL_FREE)]
        yield {"kind": "inproc", "name": name, "sched_seed": rng.randrange(10 ** 6), "seed": rng.randrange(10 ** 9),
               "cs_kind": "finite" if name == "fifo-grid" else rng.choice(["mixed", "cont", "finite"]),
               "n_workers": rng.randint(1, 5), "max_events": rng.choice([60, 120]) if tier == "quick" else rng.choice([120, 300]),
               "style": "distinct", "p_fail": rng.choice([0.05, 0.1]) if name == "dehb" else rng.choice([0, 0.03]), "max_t": rng.choice([1, 2, 3]) if name.startswith("fifo-") else rng.choice([9, 27]),
               "extra": {"brackets": 1 if name == "hb-pasha" else (None if name in ("dehb", "sync-hb") else rng.choice([1, 2, 3]))},
               "perturb_seed": rng.randrange(10 ** 6), "np_seed": rng.random() < 0.3}
    # PASHA estimates a noise level from all results it has seen: longer runs with many rank changes
    for i in range(6 if tier == "quick" else 40):
        yield {"kind": "inproc", "name": "hb-pasha", "sched_seed": rng.randrange(10 ** 6), "seed": rng.randrange(10 ** 9),
               "cs_kind": rng.choice(["mixed", "cont"]), "n_workers": rng.randint(2, 5), "max_events": 160, "style": "general",
               "p_fail": 0, "max_t": 27, "extra": {"brackets": 1, "reduction_factor": rng.choice([2, 3])},
               "perturb_seed": rng.randrange(10 ** 6)}
    # twins created from the very same argument objects (here: the list of allowed configurations): neither may change
    # what the other one sees
    for i in range(4 if tier == "quick" else 40):
        yield {"kind": "inproc", "name": "fifo-random-rc", "sched_seed": rng.randrange(10 ** 6), "seed": rng.randrange(10 ** 9),
               "cs_kind": rng.choice(["mixed", "finite"]), "n_workers": rng.randint(1, 4), "max_events": 40, "style": "distinct",
               "p_fail": 0, "max_t": 9, "extra": {"restrict_n": rng.randint(5, 30), "restrict_seed": rng.randrange(1000)},
               "perturb_seed": rng.randrange(10 ** 6)}
    m = len(MODEL_FREE) if tier == "quick" else 4 * len(MODEL_FREE)
    for i in range(m):
        name = MODEL_FREE[i % len(MODEL_FREE)]
        yield {"kind": "hashseed", "name": name, "sched_seed": rng.randrange(10 ** 6), "seed": rng.randrange(10 ** 9),
               "cs_kind": "finite" if name == "fifo-grid" else "mixed", "n_workers": 3, "max_events": 100, "style": "distinct",
               "p_fail": 0.02, "max_t": rng.choice([1, 2, 3]) if name.startswith("fifo-") else 27,
               "extra": {"brackets": 1 if name == "hb-pasha" else (None if name in ("dehb", "sync-hb") else 2)}}
    k = 2 if tier == "quick" else 12
    for i in range(k):
        name = GP[i % len(GP)]
        yield {"kind": "gp", "name": name, "sched_seed": rng.randrange(10 ** 6), "seed": rng.randrange(10 ** 9),
               "cs_kind": "cont", "n_workers": 2, "max_events": 40, "style": "distinct", "p_fail": 0, "max_t": 9,
               "extra": {"brackets": 1, "num_init_random": 3}}
    # optional dictionary arguments left to their defaults in the twins and given explicitly in the instance created between them
    for i in range(4 if tier == "quick" else 30):
        name = ["hb-rush_stopping", "hb-rush_promotion"][i % 2]
        yield {"kind": "inproc", "name": name, "sched_seed": rng.randrange(10 ** 6), "seed": rng.randrange(10 ** 9),
               "cs_kind": rng.choice(["mixed", "cont"]), "n_workers": rng.randint(2, 5), "max_events": 120, "style": "hurdle",
               "p_fail": 0, "max_t": 27, "extra": {"brackets": 1, "default_rung_system_kwargs": True},
               "perturb_seed": rng.randrange(10 ** 6), "fresh_process": True}
    # PBT with a population large enough for the upper quantile to hold several trials (the exploit step then really draws)
    for i in range(4 if tier == "quick" else 40):
        yield {"kind": "inproc", "name": "pbt", "sched_seed": rng.randrange(10 ** 6), "seed": rng.randrange(10 ** 9),
               "cs_kind": rng.choice(["mixed", "cont"]), "n_workers": rng.randint(5, 8), "max_events": 200, "style": "distinct",
               "p_fail": 0, "max_t": 27, "extra": {"population_size": 8, "quantile_fraction": rng.choice([0.5, 0.4, 0.25]),
                                                    "perturbation_interval": rng.choice([1, 2])},
               "perturb_seed": rng.randrange(10 ** 6)}
    # GP searchers with several evaluations pending at a suggestion (joint fantasy samples), and DyHPO in its model-based phase
    # with a small cap on the data the surrogate is fitted to (random subsample); appended: the cases above stay the same
    for i in range(2 if tier == "quick" else 10):
        if i % 2 == 0:
            yield {"kind": "gp", "name": GP[(i // 2) % len(GP)], "sched_seed": rng.randrange(10 ** 6), "seed": rng.randrange(10 ** 9),
                   "cs_kind": "cont", "n_workers": 3 + (i // 2) % 2, "max_events": 45, "style": "distinct", "p_fail": 0, "max_t": 9,
                   "extra": {"brackets": 1, "num_init_random": 3}}
        else:
            yield {"kind": "gp", "name": "hb-dyhpo", "sched_seed": rng.randrange(10 ** 6), "seed": rng.randrange(10 ** 9),
                   "cs_kind": "cont", "n_workers": 2, "max_events": 90, "style": "distinct", "p_fail": 0, "max_t": 9,
                   "extra": {"num_init_random": 3, "rung_increment": 1,
                             "search_options": {"max_size_data_for_model": 12, "opt_maxiter": 5, "opt_nstarts": 1, "num_init_candidates": 5}}}
    # (round l) restricted random search whose list holds initial configurations, twins in fresh processes under different hash seeds;
    # twins created from ONE list of initial configurations; a searcher OBJECT without a seed of its own under a seeded scheduler
    for i in range(3 if tier == "quick" else 12):
        yield {"kind": "hashseed", "name": "fifo-random-rc", "sched_seed": rng.randrange(10 ** 6), "seed": rng.randrange(10 ** 9),
               "cs_kind": rng.choice(["mixed", "finite"]), "n_workers": 3, "max_events": 40, "style": "distinct", "p_fail": 0.02, "max_t": 3,
               "extra": {"restrict_n": rng.randint(12, 30), "restrict_seed": rng.randrange(1000), "p2e_from_restrict": rng.randint(1, 3)}}
    for i in range(4 if tier == "quick" else 24):
        name = ["fifo-random", "hb-stopping", "hb-promotion", "fifo-random"][i % 4]
        yield {"kind": "inproc", "name": name, "sched_seed": rng.randrange(10 ** 6), "seed": rng.randrange(10 ** 9),
               "cs_kind": rng.choice(["mixed", "cont"]), "n_workers": rng.randint(1, 4), "max_events": 60, "style": "distinct",
               "p_fail": 0, "max_t": 3 if name.startswith("fifo-") else 9,
               "extra": ({"brackets": 2} if name.startswith("hb-") else {}), "shared_p2e": rng.randint(2, 4),
               "perturb_seed": rng.randrange(10 ** 6)}
    for i in range(4 if tier == "quick" else 24):
        name = ["hb-stopping", "fifo-random", "hb-promotion", "hb-stopping"][i % 4]
        yield {"kind": "inproc", "name": name, "sched_seed": rng.randrange(10 ** 6), "seed": rng.randrange(10 ** 9),
               "cs_kind": rng.choice(["mixed", "cont"]), "n_workers": rng.randint(1, 4), "max_events": 60, "style": "distinct",
               "p_fail": 0, "max_t": 3 if name.startswith("fifo-") else 9,
               "extra": dict({"brackets": 2} if name.startswith("hb-") else {}, searcher_object=True),
               "perturb_seed": rng.randrange(10 ** 6)}
    # GP searchers whose surrogate fit is restarted from randomised points (opt_nstarts = 2, the default), twins in fresh
    # processes with different hash seeds
    for i in range(2 if tier == "quick" else 8):
        yield {"kind": "gp", "name": GP[i % len(GP)], "sched_seed": rng.randrange(10 ** 6), "seed": rng.randrange(10 ** 9),
               "cs_kind": "cont", "n_workers": 2, "max_events": 40, "style": "distinct", "p_fail": 0, "max_t": 9,
               "extra": {"brackets": 1, "num_init_random": 3, "opt_nstarts": 2}, "hash_twins": True}

    # simulated experiments (real Tuner + simulator backend on a synthetic table) in two fresh processes
    j = 3 if tier == "quick" else 24
    for i in range(j):
        name = ["hb-promotion", "fifo-random", "hb-stopping", "pbt", "sync-hb", "hb-pasha", "dehb", "median"][i % 8]
        yield {"kind": "sim", "name": name, "sched_seed": rng.randrange(10 ** 6), "table_seed": rng.randrange(10 ** 6),
               "backend_seed": rng.randrange(100), "n_workers": rng.randint(1, 4), "trials": 14, "max_t": 9,
               "checkpointing": rng.random() < 0.7, "extra": {"brackets": 1}}


def corpus():
    return []


def _sub(spec, hashseed, worker="twin_worker.py"):
    env = dict(os.environ)
    env["PYTHONHASHSEED"] = str(hashseed)
    p = subprocess.run([sys.executable, os.path.join(HERE, worker), json.dumps(spec)],
                       capture_output=True, text=True, env=env, timeout=900)
    for l in p.stdout.split("\n"):
        if l.startswith("TRACE "):
            return json.loads(l[6:])
    raise RuntimeError("twin worker failed: " + p.stderr[-1500:])


def _first_diff(a, b):
    for i, (x, y) in enumerate(zip(a + [None], b + [None])):
        if x != y:
            return i, x, y
    return None


def run_impl(spec):
    if spec.get("fresh_process"):
        r = _sub(dict(spec, whole_case=True), 1)
        r["meta"]["hist"]["in-process twins in a process of their own"] = 1
        return {"lines": [], "monitor": r["monitor"], "meta": r["meta"]}
    name = spec["name"]
    mon = []
    hist = {"kind:" + spec["kind"]: 1, "sched:" + name: 1}
    if spec["kind"] == "inproc":
        rc0 = None
        if spec["extra"].get("restrict_n"):
            from syne_tune.optimizer.schedulers.searchers.random_grid_searcher import RandomSearcher
            s0 = RandomSearcher(g.config_space(spec["cs_kind"], spec["max_t"]), metric=g.METRIC, points_to_evaluate=[],
                                random_seed=spec["extra"]["restrict_seed"], allow_duplicates=True)
            rc = [s0.get_config(trial_id=str(i_)) for i_ in range(spec["extra"]["restrict_n"])]
            rc0 = [dict(c_) for c_ in rc]  # (the independent instance gets a list of its own)
            spec = dict(spec, extra=dict(spec["extra"], restrict=rc))  # ONE list object for the two twins
        if spec.get("shared_p2e"):
            # fully specified, pairwise distinct initial configurations: ONE list object for every instance created below
            p2e = g.restrict_list(g.config_space(spec["cs_kind"], spec["max_t"]), spec["shared_p2e"], spec["seed"] % 1000)
            p2e = [c_ for i_, c_ in enumerate(p2e) if c_ not in p2e[:i_]]
            spec = dict(spec, extra=dict(spec["extra"], p2e=p2e))
            hist["twins-from-one-list-of-initial-configurations"] = 1
        with contextlib.redirect_stdout(io.StringIO()):
            if spec.get("np_seed"):
                # the seed is an integer of numpy (for seed in np.arange(n), a seed read from an array): the same experiment
                spec = dict(spec, sched_seed=np.int64(spec["sched_seed"]))
            a = g.drive(g.make_scheduler(name, "min", spec["sched_seed"], spec["cs_kind"], spec["max_t"], spec["extra"]), spec)
            # twin under ambient perturbation, interleaved with an independent instance of the same class
            prng = random.Random(spec["perturb_seed"])
            # the independent instance: same class, other seed; for grid search also other domains under the same names
            # ... and of another shape where the class has one: other number of brackets / reduction factor / max_t
            oextra = dict(spec["extra"], restrict=rc0) if rc0 is not None else dict(spec["extra"])
            if isinstance(oextra.get("brackets"), int) and name != "hb-pasha":
                oextra["brackets"] = oextra["brackets"] % 3 + 1
            oextra["reduction_factor"] = 2 if oextra.get("reduction_factor", 3) == 3 else 3
            if oextra.pop("default_rung_system_kwargs", None):
                oextra["num_threshold_candidates"] = 3   # the twins leave rung_system_kwargs to its default, this instance does not
            omax_t = 27 if spec["max_t"] == 9 else (9 if spec["max_t"] == 27 else spec["max_t"])
            try:
                other = g.make_scheduler(name, "min", spec["sched_seed"] + 1,
                                         "finite2" if (name == "fifo-grid" and spec["cs_kind"] == "finite") else spec["cs_kind"], omax_t, oextra)
            except Exception:  # noqa (a shape the class rejects)
                other = g.make_scheduler(name, "min", spec["sched_seed"] + 1, spec["cs_kind"], spec["max_t"],
                                         dict(spec["extra"], restrict=rc0) if rc0 is not None else spec["extra"])
                omax_t = spec["max_t"]
            ospec = dict(spec, seed=spec["seed"] + 7, max_events=6, max_t=omax_t)
            # a whole independent experiment of the other instance runs between the two twins (and goes on, interleaved,
            # while the second twin runs): state shared between objects of a class shows as a divergence of the twins
            try:
                g.drive(other, dict(ospec, max_events=min(60, spec["max_events"])))
            except Exception:  # noqa
                pass
            # (the global generators are somewhere else when the second twin is created)
            np.random.seed(prng.randrange(2 ** 31))
            random.seed(prng.randrange(2 ** 31))
            try:
                b_s = g.make_scheduler(name, "min", spec["sched_seed"], spec["cs_kind"], spec["max_t"], spec["extra"])
            except Exception as e:  # noqa: the first instance was created from the same arguments without complaint
                b_s = None
                mon.append({"signature": f"c11:twin-diverges:{name}:global-state",
                            "what": f"{name}: a second scheduler created with the same arguments raised {type(e).__name__}: {e}",
                            "detail": None})
            state = {"n": 0}
            # a third instance, of yet another shape, is created now but used for the first time while the second twin runs
            lextra = dict(oextra)
            if isinstance(lextra.get("brackets"), int) and name != "hb-pasha":
                lextra["brackets"] = lextra["brackets"] % 3 + 1
            try:
                late = g.make_scheduler(name, "min", spec["sched_seed"] + 2, spec["cs_kind"], spec["max_t"], lextra)
            except Exception:  # noqa
                late = None

            def between():
                k = prng.randrange(2 ** 31)
                np.random.seed(k)
                np.random.rand(prng.randrange(1, 4))
                random.seed(k)
                random.random()
                state["n"] += 1
                if late is not None and state["n"] in (5, 40):
                    try:
                        g.drive(late, dict(spec, seed=spec["seed"] + 11 + state["n"], max_events=12))
                    except Exception:  # noqa
                        pass
                if state["n"] % 17 == 3:
                    try:
                        g.drive(other, dict(ospec, seed=ospec["seed"] + state["n"]))
                    except Exception:
                        pass  # the independent instance is only there to perturb shared state

            b = g.drive(b_s, spec, between=between) if b_s is not None else a
        d = _first_diff(a, b)
        if d:
            mon.append({"signature": f"c11:twin-diverges:{name}:global-state",
                        "what": f"{name}: twin under perturbed global generators / interleaved instance diverges at event {d[0]}: "
                                f"{str(d[1])[:150]} vs {str(d[2])[:150]}", "detail": {"event": d[0]}})
        ev = a
    elif spec["kind"] == "hashseed":
        a = _sub(spec, 1)
        b = _sub(spec, 2)
        d = _first_diff(a, b)
        if d:
            mon.append({"signature": f"c11:twin-diverges:{name}:hashseed",
                        "what": f"{name}: fresh processes with PYTHONHASHSEED=1 / 2 diverge at event {d[0]}: "
                                f"{str(d[1])[:150]} vs {str(d[2])[:150]}", "detail": {"event": d[0]}})
        ev = a
    elif spec["kind"] == "sim":
        def sim_run(hs):
            try:
                return _sub(spec, hs, "sim_worker.py")
            except RuntimeError as e:
                # the experiment itself raised (e.g. PBT on the simulator: the simulator writes no checkpoints to copy):
                # the last line of the traceback is this twin's whole trace - equal for equal seeds
                hist["sim-run-raised"] = 1
                return [["raised", str(e).strip().split("\n")[-1][:200].split("/tmp/")[0]]]
        a = sim_run(1)
        b = sim_run(2)
        d = _first_diff(a, b)
        if d:
            mon.append({"signature": f"c11:twin-diverges:{name}:simulated-experiment",
                        "what": f"{name}: two simulated experiments with equal seeds in fresh processes give different result "
                                f"tables at row {d[0]}: {str(d[1])[:150]} vs {str(d[2])[:150]}", "detail": {"row": d[0]}})
        ev = [["suggest"]] * len(a)
    else:
        a = _sub(spec, 1)
        b = _sub(spec, 2 if spec.get("hash_twins") else 1)
        if spec.get("hash_twins"):
            hist["gp-twins-under-different-hash-seeds"] = 1
        d = _first_diff(a, b)
        if d:
            mon.append({"signature": f"c11:twin-diverges:{name}:fresh-process",
                        "what": f"{name}: two fresh processes with equal seeds{' (PYTHONHASHSEED 1 / 2)' if spec.get('hash_twins') else ''} diverge at event {d[0]}: "
                                f"{str(d[1])[:150]} vs {str(d[2])[:150]}", "detail": {"event": d[0]}})
        ev = a
    nsug = sum(1 for e in ev if e[0] == "suggest")
    hist["events"] = len(ev)
    return {"lines": [], "monitor": mon, "meta": {"hist": hist, "nontrivial": nsug >= 10}}


def nontrivial(trace):
    return bool(trace.get("meta", {}).get("nontrivial"))
