"""C16 — a saved and restored scheduler or searcher continues exactly like the original.

Three kinds of evidence:
  (1) proof: Lean theorems `SyneTune.C16.*` about the models of RandomSearcher / GridSearcher
      (`get_state` / `clone_from_state`) and of the GP searchers' state codec, tied to /repo by the
      `searcher` correspondence stream (histories with `clone` operations, codec lines);
  (2) twin continuation of the REAL searchers: original vs `template.clone_from_state(pickle
      round trip of get_state())` at every prefix of generated histories (random, grid,
      GPFIFOSearcher, GPMultiFidelitySearcher with `num_init_random` large: no model fit);
  (3) twin continuation of whole REAL schedulers through `dill.loads(dill.dumps(obj))` (what
      `Tuner.save` / `Tuner.load` do) at every prefix — translation-validation style: no model can
      express a pickling defect.
"""
import logging
import os
import pickle
import random

import dill
import numpy as np

logging.disable(logging.CRITICAL)

import framework
from streams import searcher as S
from streams.searcher import compare  # noqa: F401
from syne_tune.backend.trial_status import Trial
from syne_tune.config_space import Domain
from syne_tune.optimizer.schedulers.fifo import FIFOScheduler
from syne_tune.optimizer.schedulers.hyperband import HyperbandScheduler
from syne_tune.optimizer.schedulers.median_stopping_rule import MedianStoppingRule
from syne_tune.optimizer.schedulers.multiobjective.moasha import MOASHA
from syne_tune.optimizer.schedulers.pbt import PopulationBasedTraining
from syne_tune.optimizer.schedulers.searchers.gp_fifo_searcher import GPFIFOSearcher
from syne_tune.optimizer.schedulers.searchers.random_grid_searcher import GridSearcher, RandomSearcher
from syne_tune.optimizer.schedulers.synchronous import SynchronousGeometricHyperbandScheduler

PID = "C16"
LEVEL = "proof"
LEAN_TARGETS = ["SyneTune.Props.C16", "SyneTune.Props.C16Restrict"]
DRIVER = "SyneTune/Drivers/Searcher.lean"
THEOREMS = [
    "SyneTune.C16.random",
    "SyneTune.C16.random_bisimulation",
    "SyneTune.C16.grid",
    "SyneTune.C16.grid_reshuffled_counterexample",
    "SyneTune.C16.state_codec",
    # random searcher with restrict_configurations (Props/C16Restrict.lean)
    "SyneTune.C16R.random_restricted",
    "SyneTune.C16R.restricted_bisimulation",
    "SyneTune.C16R.empty_list_roundtrip",
    "SyneTune.C16R.used_up_answers_none",
    "SyneTune.C16R.empty_list_dropped_counterexample",
    "SyneTune.C16R.failures_keep_list",
    "SyneTune.C16R.filtered_restore_counterexample",
]
TRUSTED = [
    "hand-written models lean/SyneTune/Model/{RandomSearcher,RandomRestrict,Grid,Searcher}.lean tied to /repo by the searcher stream "
    "(clone operations replayed in the model — with restrict_configurations the restored remaining list (None / [] / longer), "
    "_rc_returned_pos and the caller's list object are compared after the clone and after every later call; codec lines on live GP "
    "searcher states)",
    "numpy RandomState.randint(low=0, high=n) returns a position below n (recorded by a per-instance proxy of the searcher's random_state)",
    "numpy RandomState.get_state/set_state: the generator state is an opaque position on the tape of draws",
    "dill / pickle, CPython object model (the `dill` half is decided by twin traces only: translation validation)",
    "Python harness harness/props/c16.py, harness/streams/searcher.py",
]
ASSUMPTIONS = [
    "the snapshot is pickled between get_state and clone_from_state (documented: 'state must be pickle-able'; "
    "the tests of the library do the same — get_state returns the live restrict_configurations list, not a copy); "
    "the clone is built on a freshly constructed searcher",
    "restrict_configurations: the snapshot is taken between two calls of the searcher (_rc_returned_pos is empty there — proved "
    "for RandomSearcher, C06R.returned_pos_empty_between_calls — and is not part of the state)",
    "GP searchers are compared in the regime without surrogate-model fit (num_init_random large) for get_state/clone; "
    "with model fits only through the dill twins of FIFO/Hyperband(bayesopt)",
    "schedulers that draw from numpy's global generator (MOASHA) are compared with the global generator seeded "
    "identically before each twin step (ambient state is not part of the pickled object)",
]
RULE = ("cases: (a) searcher stream with clone operations (random / grid, via the searcher itself and via a fresh "
        "template with another seed) — reference style; (a') the same for RandomSearcher with restrict_configurations (lists of "
        "length 1, lists equal to the initial configurations, lists with repeated entries, allow_duplicates both ways, failing "
        "trials), clone operations also right after the searcher has said 'nothing left'; (b4) clone twins with "
        "restrict_configurations, allow_duplicates=True and failing trials (snapshots after a failure); (b) clone twins at EVERY prefix of histories of suggest / "
        "pending / failed / update events for RandomSearcher (incl. restrict_configurations, allow_duplicates), "
        "GridSearcher (shuffled, num_samples), GPFIFOSearcher, GPMultiFidelitySearcher; (c) dill twins at every prefix "
        "of scripted worker histories for FIFOScheduler(random|grid|bayesopt), HyperbandScheduler(stopping|promotion; "
        "random|bayesopt), PopulationBasedTraining, SynchronousGeometricHyperbandScheduler, MedianStoppingRule, MOASHA; "
        "twins are continued for the next L events and every suggestion / decision compared; (d) GP state codec lines; "
        "distinct by sha256 of the spec; non-trivial iff at least one clone/twin was continued over a suggestion that is "
        "not an initial configuration (or a non-CONTINUE decision)")

METRIC, METRIC2, RES, MAXATTR = S.METRIC, "cost2", S.RES, S.MAXATTR
EPOCH0 = S.EPOCH0
MAX_T = 9


# ---------------------------------------------------------------------------------
# (b) get_state / clone_from_state twins of the real searchers


def _mk_gp_mf(cs, seed, p2e, allow_duplicates=False, more_options=None, mode="min"):
    sch = HyperbandScheduler(dict(cs), searcher="bayesopt", metric=METRIC, mode=mode, resource_attr=RES, max_t=MAX_T,
                             grace_period=1, reduction_factor=3, type="stopping", random_seed=seed,
                             points_to_evaluate=p2e,
                             search_options=dict({"num_init_random": 10 ** 6, "debug_log": False, "allow_duplicates": bool(allow_duplicates)},
                                                 **(more_options or {})))
    sch._initialize_searcher()
    sch.searcher._twin_scheduler = sch   # harness-side back reference (for configure_scheduler of a clone)
    return sch.searcher


def _twin_mode(ctor):
    # half of the GP twins maximise (the observations the searcher stores are then mapped values)
    return ctor.get("mode") or ("max" if ctor.get("random_seed", 0) % 2 else "min")


def make_twin_searcher(kind, cs, ctor, p2e, seed_shift=0):
    seed = ctor.get("random_seed", 0) + seed_shift
    if kind in ("random", "grid"):
        c2 = dict(ctor)
        c2["random_seed"] = seed
        if kind == "random" and ctor.get("restrict"):
            return RandomSearcher(dict(cs), metric=METRIC, points_to_evaluate=None if p2e is None else [dict(p) for p in p2e],
                                  random_seed=seed, allow_duplicates=ctor.get("allow_duplicates", False),
                                  restrict_configurations=[dict(c) for c in ctor["restrict"]])
        s = S.make_searcher(kind, cs, c2, p2e)
        if kind == "random":
            # no recording needed for twins: restore the real method
            s._hp_ranges.random_config = s._rec.real
        return s
    rc = {"restrict_configurations": [dict(c) for c in ctor["restrict"]]} if ctor.get("restrict") else {}
    mode = _twin_mode(ctor)
    if kind == "gp-fifo":
        return GPFIFOSearcher(dict(cs), metric=METRIC, points_to_evaluate=None if p2e is None else [dict(p) for p in p2e],
                              num_init_random=10 ** 6, random_seed=seed, debug_log=False, mode=mode,
                              allow_duplicates=ctor.get("allow_duplicates", False), **rc)
    if kind == "gp-mf":
        return _mk_gp_mf(cs, seed, None if p2e is None else [dict(p) for p in p2e], ctor.get("allow_duplicates", False), rc,
                         mode=mode)
    raise AssertionError(kind)


def _gp_data_state(s):
    st = s.state_transformer.state
    obs = sorted((str(e.trial_id), sorted((str(k), repr(v if not isinstance(v, dict) else sorted((str(a), float(b)) for a, b in v.items())))
                                          for k, v in e.metrics.items())) for e in st.trials_evaluations)
    return {"observed": obs, "pending": sorted((str(p.trial_id), p.resource) for p in st.pending_evaluations),
            "failed": sorted(str(x) for x in st.failed_trials)}


def _norm_cfg(c):
    return None if c is None else {k: (v.item() if isinstance(v, np.generic) else v) for k, v in c.items()}


def searcher_apply(s, kind, op, configs):
    """one scripted event on a searcher; returns the observable output"""
    what = op[0]
    if what == "get":
        tid = op[1]
        kw = {"trial_id": str(tid)}
        if kind == "gp-mf":
            kw["milestone"] = 1
        return ("get", _norm_cfg(s.get_config(**kw)))
    if what == "pending":
        tid = op[1]
        if kind == "gp-mf":
            s.register_pending(str(tid), config=dict(configs[tid]), milestone=1)
        else:
            s.register_pending(str(tid), config=dict(configs[tid]))
        return None
    if what == "failed":
        s.evaluation_failed(str(op[1]))
        return None
    if what == "update":
        tid, metric, r = op[1], op[2], op[3]
        res = {METRIC: metric, RES: r}
        s.on_trial_result(str(tid), dict(configs[tid]), res, update=True)
        return None
    raise AssertionError(op)


def run_clone_twin(spec):
    """spec: {"scenario": "clone-twin", "kind", "space", "p2e", "ctor", "n_ops", "seed", "lookahead", "raw_state"}"""
    rng = random.Random(spec["seed"])
    cs = S.build_space(spec["space"])
    kind, ctor, p2e = spec["kind"], spec["ctor"], spec["p2e"]
    findings, hist = [], {}

    def add(sig, what, detail=None):
        findings.append({"signature": sig, "what": what, "detail": detail})

    try:
        orig = make_twin_searcher(kind, cs, ctor, p2e)
    except AssertionError:
        return {"lines": [], "monitor": [], "meta": {"hist": {"clone-twin:ctor-rejected": 1}, "nontrivial": False}}
    n_init = len(orig._points_to_evaluate)
    configs = {}           # tid -> config returned to that trial
    pend, done = [], set()
    script, outputs, states = [], [], []
    next_tid = 0
    none_seen = 0
    levels = {}
    data_states = []       # GP searchers: the data the original holds at each snapshot (observations, pending, failed trials)
    for _ in range(spec["n_ops"]):
        r = rng.random()
        live = [t for t in configs if t not in done]
        if kind.startswith("gp"):
            # the GP searchers only know trials that were registered as pending
            live = [t for t in live if t in pend]
        if live and r < 0.2:
            t = rng.choice(live)
            op = ("failed", t)
            done.add(t)
        elif live and r < 0.4 and any(t in pend for t in live):
            t = rng.choice([t for t in live if t in pend])
            if kind == "gp-mf":
                # a multi-fidelity trial reports at consecutive levels and may fail afterwards: then it is both observed
                # and failed
                levels[t] = levels.get(t, 0) + 1
                op = ("update", t, rng.randrange(0, 64) / 64.0, levels[t])
                if levels[t] >= 3 or rng.random() < 0.5:
                    done.add(t)
            else:
                op = ("update", t, rng.randrange(0, 64) / 64.0, 1)
                done.add(t)
        else:
            op = ("get", next_tid)
        # snapshot BEFORE the event: the clone has to reproduce this and the following events
        try:
            st = orig.get_state()
            states.append(st if spec.get("raw_state") else pickle.loads(pickle.dumps(st)))
            data_states.append(_gp_data_state(orig) if kind.startswith("gp") else None)
        except Exception as e:
            add(f"c16:{kind}-get-state-raises", f"get_state raised {type(e).__name__}: {e}")
            break
        out = searcher_apply(orig, kind, op, configs)
        script.append(op)
        outputs.append(out)
        if op[0] == "get":
            if out[1] is None:
                none_seen += 1
                if none_seen >= 2:
                    break
            else:
                configs[next_tid] = out[1]
                # the GP searchers learn about a suggestion only through register_pending (the
                # schedulers always call it); random / grid are also driven without it
                if kind.startswith("gp") or rng.random() < 0.85:
                    op2 = ("pending", next_tid)
                    st = orig.get_state()
                    states.append(st if spec.get("raw_state") else pickle.loads(pickle.dumps(st)))
                    data_states.append(_gp_data_state(orig) if kind.startswith("gp") else None)
                    searcher_apply(orig, kind, op2, configs)
                    script.append(op2)
                    outputs.append(None)
                    pend.append(next_tid)
                next_tid += 1
    data_states.append(_gp_data_state(orig) if kind.startswith("gp") else None)   # ... and after the last event
    # clones at every prefix, continued for `lookahead` events
    L = spec.get("lookahead", 12)
    compared = noninit = 0
    n_gets_before = 0
    after_failure = 0      # snapshots taken after >= 1 failed trial and continued over >= 1 non-initial suggestion
    for i, st in enumerate(states):
        via = ["template", "self-kind"][i % 2] if kind in ("random", "grid") else "template"
        try:
            tmpl = make_twin_searcher(kind, cs, ctor, [] if kind in ("random", "grid", "gp-fifo") else None,
                                      seed_shift=7919 if via == "template" else 0)
            clone = tmpl.clone_from_state(st)
        except Exception as e:
            sig = "c16:random-clone-restrict-configurations" if (kind == "random" and ctor.get("restrict")) else \
                  ("c16:random-clone-raises" if kind == "random" else f"c16:{kind}-clone-raises")
            add(sig, f"clone_from_state at prefix {i} raised {type(e).__name__}: {e}")
            break
        if kind.startswith("gp") and data_states[i] is not None and not spec.get("raw_state"):
            # (a snapshot that was not serialised shares its lists with the live searcher: judged by behaviour only)
            # what the searcher knows (observations, pending evaluations, black-listed trials) is what its future answers
            # are a function of: the restored searcher holds the same data
            dc = _gp_data_state(clone)
            if dc != data_states[i] and not any(f["signature"] == f"c16:{kind}-clone-data-differs" for f in findings):
                k_ = next(q for q in ("observed", "pending", "failed") if dc[q] != data_states[i][q])
                add(f"c16:{kind}-clone-data-differs", f"{kind}: the searcher restored from the snapshot at prefix {i} holds other data than the "
                    f"original had there: {k_} {dc[k_]} instead of {data_states[i][k_]}", {"prefix": i})
        diverged = False
        gets = n_gets_before
        noninit0 = noninit
        for j in range(i, min(i + L, len(script))):
            try:
                try:
                    out = searcher_apply(clone, kind, script[j], configs)
                except KeyError as e:
                    if kind == "gp-mf" and e.args == (None,) and script[j][0] == "update":
                        # the clone lost `resource_attr` (it is only set by configure_scheduler): report once,
                        # then configure the clone the way a restored scheduler would and go on
                        if not any(f["signature"] == "c16:gp-mf-clone-loses-resource-attr" for f in findings):
                            add("c16:gp-mf-clone-loses-resource-attr",
                                f"GPMultiFidelitySearcher clone taken at prefix {i} raised KeyError(None) in _update at event {j}: "
                                "its _resource_attr is None although the original was configured")
                        clone.configure_scheduler(tmpl._twin_scheduler)
                        out = searcher_apply(clone, kind, script[j], configs)
                    else:
                        raise
            except Exception as e:
                sig = "c16:random-clone-restrict-configurations" if (kind == "random" and ctor.get("restrict")) else \
                      ("c16:random-clone-raises" if kind == "random" else f"c16:{kind}-clone-raises")
                if kind.startswith("gp") and ctor.get("restrict") and isinstance(e, AssertionError) and \
                        isinstance(st, dict) and st.get("restrict_configurations") == []:
                    # restored after every allowed configuration has been suggested: the internal random searcher is rebuilt from
                    # an empty list, which its constructor rejects (the original keeps answering None)
                    sig = "c16:gp-clone-raises:restrict-list-used-up"
                add(sig, f"clone taken at prefix {i} raised {type(e).__name__} at event {j} {script[j]!r}: {e}")
                diverged = True
                break
            if script[j][0] == "get":
                gets += 1
                if gets > n_init:
                    noninit += 1
            compared += 1
            if out != outputs[j]:
                if spec.get("raw_state"):
                    # get_state() returns references into the live searcher: a state that is not pickled /
                    # deep-copied at once is not a snapshot.  Outside the documented usage: counted, not reported.
                    hist["clone-twin:raw-state-diverged"] = hist.get("clone-twin:raw-state-diverged", 0) + 1
                    diverged = True
                    break
                else:
                    sig = {"grid": "c16:grid-clone-reshuffled", "random": "c16:random-clone-diverges"}.get(kind, "c16:gp-clone-diverges")
                    if kind.startswith("gp") and script[j][0] == "get" and (out[1] is None) != (outputs[j][1] is None):
                        # the internal random searcher's own exclusion list is not part of the state: the clone
                        # counts retries differently, visible when the original runs into MAX_RETRIES (F8)
                        sig = "c16:gp-clone-none-mismatch"
                    elif kind.startswith("gp") and ctor.get("restrict") and \
                            len({framework.canon(c) for c in ctor["restrict"]}) < len(ctor["restrict"]):
                        # same cause (the internal random searcher's exclusion list is not in the state): a repeated entry of the
                        # list is skipped by the original's random searcher and drawn (then rejected, at the cost of further
                        # draws) by the restored one
                        sig = "c16:gp-clone-diverges:restrict-list-with-duplicates"
                add(sig, f"{kind}: clone taken at prefix {i} answers {out!r} at event {j} {script[j]!r}, the original answered {outputs[j]!r}",
                    {"prefix": i, "event": j})
                diverged = True
                break
        if diverged:
            break
        j_end = min(i + L, len(script))
        if kind.startswith("gp") and not spec.get("raw_state") and data_states[j_end] is not None and j_end > i:
            # ... and after the continuation the restored searcher has recorded what the original recorded (an observation is
            # the reported metric in the minimisation convention in both)
            dc = _gp_data_state(clone)
            if dc != data_states[j_end]:
                k_ = next(q for q in ("observed", "pending", "failed") if dc[q] != data_states[j_end][q])
                add(f"c16:{kind}-clone-data-differs", f"{kind} (mode {_twin_mode(ctor)}): the searcher restored at prefix {i} and fed events "
                    f"{i}..{j_end - 1} holds other data than the original after the same events: {k_} {dc[k_]} instead of "
                    f"{data_states[j_end][k_]}", {"prefix": i, "event": j_end})
                break
        if noninit > noninit0 and any(op[0] == "failed" for op in script[:i]):
            after_failure += 1
        if script[i][0] == "get":
            n_gets_before += 1
    if kind.startswith("gp"):
        hist[f"clone-twin:{kind}:mode={_twin_mode(ctor)}"] = 1
    hist.update({f"clone-twin:{kind}": 1, f"clone-twin:{kind}:clones": len(states),
                 f"clone-twin:{kind}:events-compared": compared,
                 f"clone-twin:{kind}:non-initial-suggestions-compared": noninit})
    if spec.get("raw_state"):
        hist["clone-twin:raw-state-cases"] = 1
    if kind == "random" and ctor.get("restrict") is not None:
        tag = f"clone-twin:random:restricted:allow_duplicates={bool(ctor.get('allow_duplicates'))}"
        hist[tag] = 1
        hist[tag + ":snapshots-after-a-failure-continued-over-a-draw"] = after_failure
    return {"lines": [], "monitor": findings, "meta": {"hist": hist, "nontrivial": noninit > 0}}


# ---------------------------------------------------------------------------------
# (c) dill twins of whole schedulers


def make_scheduler(name, cs, seed, p2e):
    # half of the twins run in mode "max" (sort direction of rungs etc. is part of the pickled state)
    common = dict(metric=METRIC, mode="max" if seed % 2 else "min", random_seed=seed, points_to_evaluate=p2e)
    bo = {"num_init_random": 2, "debug_log": False, "num_init_candidates": 8, "opt_maxiter": 6, "opt_nstarts": 1}
    if name == "fifo-random":
        return FIFOScheduler(dict(cs), searcher="random", **common)
    if name == "fifo-grid":
        return FIFOScheduler(dict(cs), searcher="grid", **common)
    if name == "fifo-bo":
        return FIFOScheduler(dict(cs), searcher="bayesopt", search_options=bo, **common)
    if name.startswith("hb-"):
        _, typ, srch = name.split("-")
        kw = dict(resource_attr=RES, max_t=MAX_T, grace_period=1, reduction_factor=3, type=typ,
                  brackets=2 if (seed // 2) % 2 else 1)
        if srch == "bo":
            return HyperbandScheduler(dict(cs), searcher="bayesopt", search_options=bo, **kw, **common)
        return HyperbandScheduler(dict(cs), searcher="random", **kw, **common)
    if name in ("pbt", "pbt-big"):
        # (pbt-big: enough live trials for quantiles of several trials)
        return PopulationBasedTraining(dict(cs), resource_attr=RES, max_t=MAX_T, population_size=3 if name == "pbt" else 8,
                                       perturbation_interval=1, quantile_fraction=0.34 if name == "pbt" else 0.5, **common)
    if name == "sync-hb":
        return SynchronousGeometricHyperbandScheduler(dict(cs), searcher="random", resource_attr=RES,
                                                       max_resource_level=MAX_T, grace_period=1, reduction_factor=3,
                                                       **common)
    if name == "median":
        return MedianStoppingRule(scheduler=FIFOScheduler(dict(cs), searcher="random", **common),
                                  resource_attr=RES, metric=METRIC, grace_time=1, grace_population=2, rank_cutoff=0.5)
    if name == "moasha":
        return MOASHA(dict(cs), metrics=[METRIC, METRIC2], mode=["min", "min"], time_attr=RES, max_t=MAX_T,
                      grace_period=1, reduction_factor=3)
    raise AssertionError(name)


def _ambient(seed):
    np.random.seed(seed % (2 ** 32))
    random.seed(seed)


def sched_apply(sch, ev, trials_of, ambient_seed):
    """one worker/tuner event on a scheduler object; returns the observable output.
    trials_of: this object's own dict tid -> Trial (suggestions create trials)"""
    _ambient(ambient_seed)
    what = ev[0]
    if what == "suggest":
        tid = ev[1]
        sg = sch.suggest(tid)
        if sg is None:
            return ("suggest", None)
        cfg = _norm_cfg(sg.config)
        if cfg is not None:
            cfg.pop("trial_id", None)
        out = ("suggest", bool(sg.spawn_new_trial_id), None if sg.checkpoint_trial_id is None else int(sg.checkpoint_trial_id), cfg)
        if sg.spawn_new_trial_id:
            trials_of[tid] = Trial(tid, dict(sg.config), EPOCH0)
            sch.on_trial_add(trials_of[tid])
        elif sg.config is not None:
            rt = int(sg.checkpoint_trial_id)
            trials_of[rt] = Trial(rt, dict(sg.config), EPOCH0)
        return out
    if what == "result":
        tid, r, m, m2 = ev[1], ev[2], ev[3], ev[4]
        res = {METRIC: m, METRIC2: m2, RES: r}
        d = sch.on_trial_result(trials_of[tid], dict(res))
        if d != "CONTINUE":
            sch.on_trial_remove(trials_of[tid])
        elif r >= MAX_T:
            sch.on_trial_complete(trials_of[tid], dict(res))
        return ("result", d)
    if what == "error":
        sch.on_trial_error(trials_of[ev[1]])
        return ("error",)
    raise AssertionError(ev)


def run_dill_twin(spec):
    import contextlib
    import io

    with contextlib.redirect_stdout(io.StringIO()):   # MOASHA prints "adding trial ..."
        return _run_dill_twin(spec)


def _run_dill_twin(spec):
    """spec: {"scenario": "dill-twin", "sched", "space", "p2e", "seed", "n_events", "lookahead", "every", "n_workers"}"""
    rng = random.Random(spec["seed"])
    cs = S.build_space(spec["space"])
    name = spec["sched"]
    findings, hist = [], {}

    def add(sig, what, detail=None):
        findings.append({"signature": sig, "what": what, "detail": detail})

    try:
        orig = make_scheduler(name, cs, spec["seed"] % 100000, spec.get("p2e"))
    except AssertionError:
        return {"lines": [], "monitor": [], "meta": {"hist": {"dill-twin:ctor-rejected": 1}, "nontrivial": False}}
    trials = {}
    running = {}          # tid -> next resource to report (world = the original's view)
    next_tid = 0
    twins = []            # [object, own trials dict, taken_at, steps_left]
    L, every = spec.get("lookahead", 6), spec.get("every", 1)
    compared = interesting = n_twins = 0
    none_streak = 0
    for i in range(spec["n_events"]):
        can = len(running) < spec["n_workers"]
        r = rng.random()
        if can and (not running or r < 0.45):
            ev = ("suggest", next_tid)
        elif running:
            t = rng.choice(sorted(running))
            if r > 0.93:
                ev = ("error", t)
            else:
                rr = running[t]
                base = random.Random(spec["seed"] * 7919 + t).randrange(0, 64) / 64.0
                ev = ("result", t, rr, base + rng.randrange(-8, 9) / (64.0 * rr), rng.randrange(0, 64) / 64.0)
                if spec.get("ties"):
                    # metrics from a handful of values: several live trials with exactly equal scores
                    ev = ("result", t, rr, rng.randrange(0, 3) / 4.0, rng.randrange(0, 2) / 2.0)
        else:
            ev = ("suggest", next_tid)
        if i % every == 0:
            try:
                twin = dill.loads(dill.dumps(orig))
            except Exception as e:
                add("c16:dill-twin-diverges", f"{name}: dill round trip of the scheduler raised {type(e).__name__}: {e} at event {i}")
                break
            twins.append([twin, {k: v for k, v in trials.items()}, i, L])
            n_twins += 1
        amb = spec["seed"] * 1009 + i
        try:
            out = sched_apply(orig, ev, trials, amb)
        except Exception as e:
            # the original itself raised: not a C16 matter; end of this history
            hist[f"dill-twin:{name}:original-raised:{type(e).__name__}"] = 1
            break
        bad = False
        for tw in twins:
            try:
                # a restored scheduler lives in another process: the global generators are in another state there. Only
                # MOASHA (no random_seed, draws from the global generators by design) is compared under equal ambient state
                o2 = sched_apply(tw[0], ev, tw[1], amb if name == "moasha" else amb + 7777 + tw[2])
            except Exception as e:
                o2 = ("raised", type(e).__name__, str(e)[:200])
            compared += 1
            if o2 != out:
                add("c16:dill-twin-diverges",
                    f"{name}: twin restored before event {tw[2]} answers {o2!r} to event {i} {ev[:3]!r}, the original answered {out!r}",
                    {"taken_at": tw[2], "event": i})
                bad = True
                break
            tw[3] -= 1
        if bad:
            break
        twins = [tw for tw in twins if tw[3] > 0]
        # world update from the original's answer
        if ev[0] == "suggest":
            if out[1] is None:
                none_streak += 1
                if none_streak > 6 and not running:
                    break
            else:
                none_streak = 0
                if out[1]:
                    running[next_tid] = 1
                    next_tid += 1
                else:
                    running[out[2]] = running.get(out[2], 1)
                    interesting += 1
        elif ev[0] == "result":
            if out[1] != "CONTINUE":
                interesting += 1
                del running[ev[1]]
            elif ev[2] >= MAX_T:
                del running[ev[1]]
            else:
                running[ev[1]] = ev[2] + 1
        else:
            del running[ev[1]]
    hist.update({f"dill-twin:{name}": 1, f"dill-twin:{name}:twins": n_twins, f"dill-twin:{name}:events-compared": compared,
                 f"dill-twin:{name}:non-continue-or-resume": interesting})
    return {"lines": [], "monitor": findings,
            "meta": {"hist": hist, "nontrivial": compared >= 3 and (interesting > 0 or next_tid >= 3)}}


# ---------------------------------------------------------------------------------
# generators

DILL_SCHEDS = ["fifo-random", "fifo-grid", "hb-stopping-random", "hb-promotion-random", "pbt", "sync-hb", "median",
               "moasha", "fifo-bo", "hb-stopping-bo", "hb-promotion-bo"]


def _grid_ok_space(rng, finite):
    return S.gen_space(rng, finite=finite, small=finite and rng.random() < 0.6)


def gen_cases(rng, tier):
    quick = tier == "quick"
    # (a) reference style with clone operations
    for _ in range(70 if quick else 1500):
        finite = rng.random() < 0.5
        space = _grid_ok_space(rng, finite)
        cs = S.build_space(space)
        yield {"scenario": "searcher", "space": space, "kind": rng.choice(["random", "grid"]), "p2e": S.gen_p2e(rng, cs),
               "ctor": {"allow_duplicates": rng.random() < 0.3, "random_seed": rng.randrange(1000),
                        "shuffle": rng.random() < 0.7, "num_samples": {}, "debug_log": rng.random() < 0.2},
               "n_ops": rng.choice([20, 40, 80]), "seed": rng.randrange(10 ** 9), "p_fail": rng.choice([0, 0.2]),
               "p_clone": rng.choice([0.1, 0.25]), "sched": None, "max_resource_attr": False}
    # (b) clone twins at every prefix
    for _ in range(60 if quick else 1200):
        kind = rng.choice(["random", "random", "grid", "grid", "gp-fifo", "gp-mf"])
        finite = rng.random() < 0.5
        space = S.gen_space(rng, finite=finite, small=finite and rng.random() < 0.5, consts=kind in ("random", "grid"))
        cs = S.build_space(space)
        p2e = S.gen_p2e(rng, cs)
        if p2e is not None:
            p2e = [{k: v for k, v in p.items() if k != "not_a_key"} for p in p2e]
        ctor = {"allow_duplicates": rng.random() < 0.3, "random_seed": rng.randrange(1000), "shuffle": rng.random() < 0.8,
                "num_samples": {}, "debug_log": False}
        if kind == "random" and rng.random() < 0.25:
            # restrict_configurations: a list of full configurations of the space
            s0 = RandomSearcher(dict(cs), metric=METRIC, points_to_evaluate=[], random_seed=rng.randrange(1000), allow_duplicates=True)
            ctor["restrict"] = [S._plain(s0.get_config()) for _ in range(rng.randint(2, 8))]
        yield {"scenario": "clone-twin", "kind": kind, "space": space, "p2e": p2e, "ctor": ctor,
               "n_ops": rng.choice([12, 25, 40]) if quick else rng.choice([25, 40, 80]), "seed": rng.randrange(10 ** 9),
               "lookahead": 10 if quick else 16, "raw_state": rng.random() < 0.1}
    # (b') random searcher with allow_duplicates=True on a tiny finite space: the only memory of a failed
    # configuration is the exclusion list, which has to survive the snapshot
    for _ in range(12 if quick else 200):
        space = S.gen_space(rng, finite=True, small=True, n_hp=1, consts=False)
        yield {"scenario": "clone-twin", "kind": "random", "space": space, "p2e": [],
               "ctor": {"allow_duplicates": True, "random_seed": rng.randrange(1000), "shuffle": True, "num_samples": {},
                        "debug_log": False},
               "n_ops": 40, "seed": rng.randrange(10 ** 9), "lookahead": 14, "raw_state": False}
    # (b'') random searcher restricted to a short list of configurations, driven beyond the point where the list is used
    # up: snapshots with an empty remainder
    for _ in range(8 if quick else 120):
        space = S.gen_space(rng, finite=rng.random() < 0.5, small=False, consts=False)
        cs = S.build_space(space)
        s0 = RandomSearcher(dict(cs), metric=METRIC, points_to_evaluate=[], random_seed=rng.randrange(1000), allow_duplicates=True)
        yield {"scenario": "clone-twin", "kind": "random", "space": space, "p2e": [],
               "ctor": {"allow_duplicates": False, "random_seed": rng.randrange(1000), "shuffle": True, "num_samples": {},
                        "debug_log": False, "restrict": [S._plain(s0.get_config()) for _ in range(rng.randint(1, 4))]},
               "n_ops": 40, "seed": rng.randrange(10 ** 9), "lookahead": 12, "raw_state": False}
    # (b2) multi-fidelity GP searcher with allow_duplicates=True on a tiny finite space: a trial that reported and then failed
    # is excluded only through the list of failed trials, which has to survive the snapshot
    for _ in range(10 if quick else 150):
        space = S.gen_space(rng, finite=True, small=True, n_hp=1, consts=False)
        yield {"scenario": "clone-twin", "kind": "gp-mf", "space": space, "p2e": None,
               "ctor": {"allow_duplicates": True, "random_seed": rng.randrange(1000), "shuffle": True, "num_samples": {},
                        "debug_log": False},
               "n_ops": 40, "seed": rng.randrange(10 ** 9), "lookahead": 14, "raw_state": False}
    # (b2') GP searchers restricted to a list of configurations, snapshots inside the initial random phase
    for _ in range(8 if quick else 100):
        space = S.gen_space(rng, finite=rng.random() < 0.5, small=False, consts=False)
        cs = S.build_space(space)
        s0 = RandomSearcher(dict(cs), metric=METRIC, points_to_evaluate=[], random_seed=rng.randrange(1000), allow_duplicates=True)
        yield {"scenario": "clone-twin", "kind": rng.choice(["gp-fifo", "gp-mf"]), "space": space, "p2e": [] ,
               "ctor": {"allow_duplicates": False, "random_seed": rng.randrange(1000), "shuffle": True, "num_samples": {},
                        "debug_log": False, "restrict": [S._plain(s0.get_config()) for _ in range(rng.randint(4, 12))]},
               "n_ops": 30, "seed": rng.randrange(10 ** 9), "lookahead": 12, "raw_state": False}
    # (b3) model-based GP searcher restored in the middle of its fit / skip rhythm
    for _ in range(6 if quick else 40):
        n = 8 if quick else 11
        yield {"scenario": "gp-fit-twin", "seed": rng.randrange(10 ** 9), "num_init_random": rng.choice([2, 3]),
               "skip_init": rng.choice([3, 4]), "skip_period": rng.choice([1, 2, 3, 3]), "n_steps": n, "lookahead": 3,
               "ks": sorted(rng.sample(range(0, n + 1), 4 if quick else 6)),
               # an odd number of initial candidates: the generator holds a cached normal variate at the snapshot
               "num_init_candidates": rng.choice([None, 5, 7, 33]),
               "initial_scoring": rng.choice([None, None, "acq_func"])}
    # (c) dill twins of whole schedulers
    for i in range(44 if quick else 700):
        name = DILL_SCHEDS[i % len(DILL_SCHEDS)]
        bo = name.endswith("-bo")
        finite = rng.random() < 0.4
        space = S.gen_space(rng, finite=finite, small=False, consts=True)
        cs = S.build_space(space)
        p2e = S.gen_p2e(rng, cs)
        if p2e is not None:
            p2e = [{k: v for k, v in p.items() if k != "not_a_key"} for p in p2e]
        yield {"scenario": "dill-twin", "sched": name, "space": space, "p2e": p2e, "seed": rng.randrange(10 ** 9),
               "n_events": (14 if bo else 40) if quick else (24 if bo else 120), "lookahead": 3 if bo else 6,
               "every": 2 if bo else 1, "n_workers": rng.randint(1, 4)}
    # (c') PBT with many live trials and tied scores (the order among equal scores is part of what is continued)
    for _ in range(6 if quick else 60):
        space = S.gen_space(rng, finite=False, small=False, consts=True)
        yield {"scenario": "dill-twin", "sched": "pbt-big", "space": space, "p2e": None, "seed": rng.randrange(10 ** 9),
               "n_events": 90 if quick else 160, "lookahead": 8, "every": 3, "n_workers": rng.randint(5, 8), "ties": True}
    # (d) GP state codec on live states
    for _ in range(10 if quick else 80):
        finite = rng.random() < 0.5
        yield {"scenario": "gp", "space": S.gen_space(rng, finite=finite, small=finite, consts=True), "seed": rng.randrange(10 ** 9),
               "sched": rng.choice(["fifo", "hb-stopping", "hb-promotion", "hb-promotion"]), "n_suggest": 8, "num_init_random": 3,
               "num_init_candidates": 6, "p2e": None, "p_fail": 0.15, "allow_duplicates": False,
               # with "all" a running trial has a pending evaluation at every level up to its milestone
               "searcher_data": rng.choice(["rungs", "all", "all"])}
    # (a') reference style with clone operations, restrict_configurations (model lines incl. the remaining list); generated
    # last: the cases above are the same as before for a given seed
    for i in range(30 if quick else 400):
        yield dict(S.gen_restricted_case(rng, i, p_clone=rng.choice([0.15, 0.3]), sched_ok=False), clone_when_used_up=True)
    # (b4) clone twins: restrict_configurations with allow_duplicates=True and failing trials — the exclusion list then holds the
    # configurations of failed trials, which stay in the searcher's list (C16R.failures_keep_list): snapshots after a failure
    # must restore the list as it is
    for _ in range(14 if quick else 200):
        space = S.gen_space(rng, finite=rng.random() < 0.3, small=False, consts=False)
        cs = S.build_space(space)
        s0 = RandomSearcher(dict(cs), metric=METRIC, points_to_evaluate=[], random_seed=rng.randrange(1000), allow_duplicates=True)
        yield {"scenario": "clone-twin", "kind": "random", "space": space, "p2e": rng.choice([[], None]),
               "ctor": {"allow_duplicates": True, "random_seed": rng.randrange(1000), "shuffle": True, "num_samples": {},
                        "debug_log": False, "restrict": [S._plain(s0.get_config()) for _ in range(rng.randint(3, 8))]},
               "n_ops": 30, "seed": rng.randrange(10 ** 9), "lookahead": 12, "raw_state": False}


def corpus():
    import json
    p = os.path.join(os.path.dirname(__file__), "..", "corpus", "c16.json")
    cases = json.load(open(p)) if os.path.exists(p) else []
    # F3 (fixed in 167bb09): shuffled grid, clone built on a template with another seed
    cases.append({"scenario": "clone-twin", "kind": "grid", "space": [["a", "choice", [["x", "y", "z"]], {}], ["b", "randint", [0, 3], {}]],
                  "p2e": [], "ctor": {"allow_duplicates": False, "random_seed": 7, "shuffle": True, "num_samples": {}, "debug_log": False},
                  "n_ops": 14, "seed": 3, "lookahead": 14, "raw_state": False})
    # dc67087 / 4e9ab8a: random searcher with default debug_log, and with restrict_configurations
    cases.append({"scenario": "clone-twin", "kind": "random", "space": [["x", "randint", [0, 9], {}], ["y", "choice", [["a", "b"]], {}]],
                  "p2e": [], "ctor": {"allow_duplicates": False, "random_seed": 1, "debug_log": False,
                                      "restrict": [{"x": i, "y": "a"} for i in range(10)]},
                  "n_ops": 12, "seed": 5, "lookahead": 12, "raw_state": False})
    cases.append({"scenario": "clone-twin", "kind": "random", "space": [["x", "uniform", [0.0, 1.0], {}]],
                  "p2e": None, "ctor": {"allow_duplicates": False, "random_seed": 2, "debug_log": False},
                  "n_ops": 12, "seed": 6, "lookahead": 12, "raw_state": False})
    return cases


# ---------------------------------------------------------------------------------


def run_gp_fit_twin(spec):
    """GPFIFOSearcher in its model-based phase (the surrogate model is really fitted, with `opt_skip_period` possibly
    > 1, so that the restored searcher has to continue the fit / skip rhythm of the original): snapshot (pickled
    get_state) after k finished trials, restore into a freshly built template, both continue with the same events.
    One start of the optimiser and no pending trial at suggest time: under these conditions the continuation of the
    real code is reproducible bit for bit."""
    from syne_tune.config_space import uniform
    rng = random.Random(spec["seed"])
    cs = {"x": uniform(-1.0, 1.0), "y": uniform(0.0, 2.0)}
    kw = dict(metric=METRIC, points_to_evaluate=[], random_seed=spec["seed"] % 1000, num_init_random=spec["num_init_random"],
              opt_skip_init_length=spec["skip_init"], opt_skip_period=spec["skip_period"], opt_nstarts=1, opt_maxiter=spec.get("maxiter", 10),
              debug_log=False)
    if spec.get("num_init_candidates"):
        kw["num_init_candidates"] = spec["num_init_candidates"]
    if spec.get("initial_scoring"):
        kw["initial_scoring"] = spec["initial_scoring"]
    a, b = rng.uniform(-0.5, 0.5), rng.uniform(0.5, 1.5)

    def step(sr, tid):
        c = sr.get_config(trial_id=str(tid))
        sr.register_pending(str(tid), config=c)
        sr.on_trial_result(str(tid), c, {METRIC: (c["x"] - a) ** 2 + 0.5 * (c["y"] - b) ** 2}, update=True)
        return {k: float(v) for k, v in c.items()}

    mon = []
    orig = GPFIFOSearcher(dict(cs), **kw)
    n, L = spec["n_steps"], spec["lookahead"]
    snaps, outs = [], []
    for i in range(n + L):
        if i <= n:
            snaps.append(pickle.dumps(orig.get_state()))
        outs.append(step(orig, i))
    compared = 0
    for k in spec["ks"]:
        try:
            rest = GPFIFOSearcher(dict(cs), **dict(kw, random_seed=(spec["seed"] + 17) % 1000)).clone_from_state(pickle.loads(snaps[k]))
            cont = [step(rest, k + j) for j in range(L)]
        except Exception as e:  # noqa
            mon.append({"signature": "c16:gp-fifo-clone-raises", "what": f"restored model-based GPFIFOSearcher (snapshot after {k} trials) "
                        f"raised {type(e).__name__}: {e}"})
            break
        compared += L

        def same(c1, c2):
            # round-off of writing the surrogate's parameters into the state and back moves a model-based suggestion in
            # its last digits; a searcher that continues differently (another fit / skip rhythm) is far outside this
            return c1.keys() == c2.keys() and all(abs(c1[q] - c2[q]) <= 1e-7 * max(1.0, abs(c1[q])) for q in c1)

        if not all(same(cont[j], outs[k + j]) for j in range(L)):
            j = next(j for j in range(L) if not same(cont[j], outs[k + j]))
            mon.append({"signature": "c16:gp-fifo-model-based-clone-diverges",
                        "what": f"GPFIFOSearcher(opt_skip_period={spec['skip_period']}, opt_skip_init_length={spec['skip_init']}) snapshot after "
                                f"{k} finished trials: suggestion {k + j} of the restored searcher is {cont[j]}, the original gave {outs[k + j]}",
                        "detail": {"k": k}})
            break
    return {"lines": [], "monitor": mon, "meta": {"hist": {"gp-fit-twin": 1, "gp-fit-twin:compared": compared,
                                                           f"gp-fit-twin:skip_period={spec['skip_period']}": 1}, "nontrivial": compared > 0}}


def run_impl(spec):
    sc = spec["scenario"]
    if sc == "gp-fit-twin":
        return run_gp_fit_twin(spec)
    if sc == "clone-twin":
        return run_clone_twin(spec)
    if sc == "dill-twin":
        return run_dill_twin(spec)
    if sc == "searcher":
        t = S.run_searcher_scenario(spec)
        ev = t["events"]
        clones = sum(1 for e in ev if e["ev"] == "clone")
        n_init = len(next((e["init"] for e in ev if e["ev"] == "init"), []))
        sugg_after = 0
        seen_clone = False
        k = 0
        for e in ev:
            if e["ev"] == "clone":
                seen_clone = True
            if e["ev"] == "suggest":
                k += 1
                if seen_clone and k > n_init:
                    sugg_after += 1
        mon = [{"signature": "c16:" + spec["kind"] + "-clone-raises", "what": f"clone_from_state raised {e['err']} (via {e['via']})"}
               for e in ev if e["ev"] == "clone-error"]
        hist = {"ref:" + spec["kind"]: 1, "ref:clone-ops": clones, "ref:suggestions-after-clone": sugg_after,
                "ref:clone-errors": len(mon)}
        if (spec.get("ctor") or {}).get("restrict") is not None:
            cl = [e for e in ev if e["ev"] == "caller-list" and e["when"] == "clone"]
            none_after = 0
            seen_clone = False
            for e in ev:
                seen_clone = seen_clone or e["ev"] == "clone"
                none_after += int(seen_clone and e["ev"] == "none")
            hist.update({"ref:restricted": 1, "ref:restricted:clone-ops": len(cl),
                         "ref:restricted:clones-with-empty-remainder": sum(1 for e in cl if e["remaining"] == []),
                         "ref:restricted:clones-with-nonempty-remainder": sum(1 for e in cl if e["remaining"]),
                         "ref:restricted:none-after-clone": none_after,
                         "ref:restricted:allow_duplicates=" + str(bool(spec["ctor"].get("allow_duplicates"))): 1})
            # the restored searcher must hold a list again (None would lift the restriction)
            for e in cl:
                if e["remaining"] is None:
                    mon.append({"signature": "c16:random-clone-loses-restrict-configurations",
                                "what": "the searcher restored by clone_from_state has _restrict_configurations=None (no "
                                        "restriction) although the original was created with restrict_configurations"})
                    break
        return {"lines": t["lines"], "monitor": mon, "meta": {"hist": hist, "nontrivial": sugg_after > 0}}
    t = S.run_gp_scenario(spec)
    ev = t["events"]
    mon = [{"signature": "c16:state-codec", "what": "decode_state(encode_state(state)) != state on a live GP searcher state"}
           for e in ev if e["ev"] == "codec" and not e["equal"]]
    n = sum(1 for e in ev if e["ev"] == "codec")
    lines = [l for l in t["lines"] if l[0].get("op") in (None, "codec") or "stream" in l[0]]
    return {"lines": lines, "monitor": mon, "meta": {"hist": {"codec-lines": n}, "nontrivial": n > 0}}


def nontrivial(trace):
    return bool(trace.get("meta", {}).get("nontrivial"))
