"""C02 — Every reported result is delivered exactly once, in order, never after stop.

Two correspondence streams: `poll` (generic `TrialBackend` poll logic + the batch filter of
`Tuner._process_new_results`, driver `Drivers/Poll.lean`) and `sim` (simulator backend, driver
`Drivers/Sim.lean`); a case names its stream in `spec["stream"]` (default `poll`) and its trace
names the driver (framework: multi-driver cases)."""
import json
import os
from fractions import Fraction  # noqa: F401

import framework
from streams import poll, sim

PID = "C02"
LEVEL = "proof"
LEAN_TARGETS = ["SyneTune.Props.C02"]
DRIVER = "SyneTune/Drivers/Poll.lean"
SIM_DRIVER = "SyneTune/Drivers/Sim.lean"
LOOP_DRIVER = "SyneTune/Drivers/Loop.lean"
from streams import loop as _loop  # noqa: E402
COMPARE = {DRIVER: poll.compare, SIM_DRIVER: sim.compare, LOOP_DRIVER: _loop.compare}
compare = poll.compare
THEOREMS = [
    "SyneTune.C02.poll_prefix",
    "SyneTune.C02.poll_complete",
    "SyneTune.C02.poll_nothing_after_decision",
    "SyneTune.C02.poll_resume_fresh_partial",
    "SyneTune.C02.poll_resume_fresh_counterexample",
    "SyneTune.C02.sim_prefix",
    "SyneTune.C02.sim_complete",
    "SyneTune.C02.sim_nothing_after_decision_partial",
    "SyneTune.C02.sim_resume_fresh_partial",
    "SyneTune.C02.sim_resume_fresh_counterexample",
]
TRUSTED = [
    "hand-written models lean/SyneTune/Model/{PollBackend,Simulator,TabularBackend}.lean tied to /repo by the poll and sim "
    "correspondence streams",
    "harness/streams/poll.py: in-memory environment `MemBackend` (implements only the abstract methods of TrialBackend, "
    "following LocalBackend: output appended across runs, stop/pause markers, exit code) and the scripted scheduler",
    "harness/streams/poll.py `RealLocal`: the same histories also run over the REAL LocalBackend (its files, marker files, log "
    "opened by _schedule, status and log read by _all_trial_results, report.retrieve) with one real worker process per run, "
    "commanded by the harness to write report lines / other output / exit, also in the middle of a poll between the two reads "
    "the backend makes; those cases carry model lines for the same Poll model",
    "harness/streams/sim.py (see C10)",
    "Python's stable `sorted` modelled as insertion sort after equal keys; worker time stamps are a global emission counter",
]
ASSUMPTIONS = [
    "a worker writes reports only while its process is alive; report order within a trial = order in the trial's output",
    "OS-level width of the window between the deciding poll and the kill is not a model quantity: the worker may write any "
    "number of reports there",
    "simulator theorems: the job lists results with non-decreasing elapsed time (proved for the tabular job) and "
    "floating-point addition is monotone",
]
RULE = ("poll stream: real TrialBackend.fetch_status_results / pause_trial / resume_trial / stop_trial / stop_all and the "
        "real Tuner._process_new_results over an in-memory environment: histories of start / emit (0-4 reports) / exit "
        "(before or after the last read) / loop (poll + scripted decisions, 0-3 reports written between the poll and the "
        "command) / resume / direct fetch, pause, stop / busy / checkpoint ops / stop_all, both delete_checkpoints values, "
        "immediate and delayed stop; the same generator over the real LocalBackend with real worker processes (ctor.local; plus "
        "worker exit in the middle of a poll); sim stream: see C10, with decisions after delivered results and immediate resumes; "
        "distinct by sha256 of the spec; non-trivial iff >= 1 pause-resume or >= 1 hidden / skipped result")

# the history of Lean's `staleHistory` (theorem `poll_resume_fresh_counterexample`), replayed on the real code
STALE_HISTORY = {
    "ctor": {"delete_checkpoints": False, "delayed_stop": False},
    "ops": [
        {"op": "start", "ckpt": None},
        {"op": "emit", "trial": 0, "n": 1},
        {"op": "loop", "ids": [0], "script": [["PAUSE", 1]]},
        {"op": "resume", "trial": 0},
        {"op": "emit", "trial": 0, "n": 1},
        {"op": "fetch", "ids": [0]},
    ],
    "lean_counterexample": "SyneTune.C02.poll_resume_fresh_counterexample",
}

# the history of Lean's `simStaleHistory` (theorem `sim_resume_fresh_counterexample`) on a real table
SIM_STALE_HISTORY = {
    "stream": "sim",
    "ctor": {"delays": {"delay_on_trial_result": "0", "delay_complete_after_final_report": "0",
                        "delay_complete_after_stop": "0", "delay_start": "0", "delay_stop": "1/2"},
             "sleep": "0", "guard": None, "min_step": None,
             "table": {"seed": 1, "n_cfg": 1, "n_seeds": 1, "fids": [1, 2, 3], "n_obj": 1, "tcol": 0, "time": "unit", "vals": "dyadic"},
             "checkpointing": True, "max_resource_attr": False, "seed": 0},
    "np_seed": 0,
    "ops": [
        {"op": "start", "cfg": {"idx": 0, "max_res": None}},
        {"op": "advance", "dt": "7/4"},
        {"op": "fetch", "ids": [0]},
        {"op": "pause", "trial": 0, "level": 1},
        {"op": "resume", "trial": 0, "cfg": None},
        {"op": "advance", "dt": "3/2"},
        {"op": "fetch", "ids": [0]},
    ],
    "lean_counterexample": "SyneTune.C02.sim_resume_fresh_counterexample",
}


def gen_cases(rng, tier):
    n = 150 if tier == "quick" else 3000
    for _ in range(n):
        yield {
            "ctor": {"delete_checkpoints": rng.random() < 0.3, "delayed_stop": rng.random() < 0.3},
            "seed": rng.randrange(10 ** 9),
            "steps": rng.choice([30, 60, 100]) if tier == "quick" else rng.choice([40, 100, 250, 400]),
            "n_workers": rng.randint(1, 5),
            "p": {"p_continue": rng.choice([0.5, 0.6, 0.75]), "p_pause": rng.choice([0.15, 0.28]),
                  "p_window": rng.choice([0.0, 0.3, 0.6]), "direct_cmd": rng.choice([0.0, 0.15]),
                  "bad": rng.choice([0.0, 0.05]), "stop_all": 0.5},
        }
    n = 100 if tier == "quick" else 2000
    for _ in range(n):
        yield {
            "stream": "sim",
            "ctor": sim.gen_ctor(rng),
            "np_seed": rng.randrange(2 ** 31),
            "seed": rng.randrange(10 ** 9),
            "steps": rng.choice([20, 40, 60]) if tier == "quick" else rng.choice([30, 60, 120, 250]),
            "n_workers": rng.randint(1, 4),
            "p": {"p_pause": rng.choice([0.2, 0.35]), "p_stop": rng.choice([0.05, 0.1]),
                  "p_resume_now": rng.choice([0.0, 0.3, 0.6]), "odd_fetch": rng.choice([0.0, 0.1]), "bad": 0.0},
        }
    yield from gen_loop_cases(rng, tier)
    # a worker whose clock is coarse: several consecutive reports carry the same time stamp (monitor only)
    for _ in range(16 if tier == "quick" else 200):
        yield {
            "ctor": {"delete_checkpoints": rng.random() < 0.3, "delayed_stop": rng.random() < 0.3, "coarse_clock": rng.choice([2, 3, 5, 1000])},
            "seed": rng.randrange(10 ** 9), "steps": rng.choice([30, 60, 100]), "n_workers": rng.randint(1, 4),
            "p": {"p_continue": rng.choice([0.5, 0.6, 0.75]), "p_pause": rng.choice([0.15, 0.28]), "p_window": rng.choice([0.0, 0.3]),
                  "direct_cmd": 0.0, "bad": 0.0, "stop_all": 0.5},
        }
    # the poll stream over the REAL LocalBackend (files, marker files, real worker processes); appended last so that the
    # cases above stay the same for a given seed
    for _ in range(24 if tier == "quick" else 300):
        yield {
            "ctor": {"delete_checkpoints": rng.random() < 0.3, "delayed_stop": False, "local": True},
            "seed": rng.randrange(10 ** 9),
            "steps": rng.choice([30, 50, 80]) if tier == "quick" else rng.choice([40, 80, 150]),
            "n_workers": rng.randint(1, 4),
            "p": {"p_continue": rng.choice([0.5, 0.6, 0.75]), "p_pause": rng.choice([0.15, 0.28, 0.35]),
                  "p_window": rng.choice([0.0, 0.3, 0.6]), "direct_cmd": rng.choice([0.0, 0.15]),
                  "bad": rng.choice([0.0, 0.05]), "stop_all": 0.5, "p_mid": rng.choice([0.0, 0.35, 0.6])},
        }


def gen_loop_cases(rng, tier):
    from streams import loop
    k = 0
    while k < (30 if tier == "quick" else 400):
        spec = loop.gen_spec(rng, tier)
        if spec["backend"] != "script":
            continue
        sp = spec["scheduler"]
        pr = (sp["kind"] == "hb" and "promotion" in sp.get("type", "")) or sp["kind"] in ("sync", "pbt", "script", "dehb")
        if not pr and rng.random() < 0.7:
            continue  # mostly pause-and-resume schedulers
        spec["stream"] = "loop"
        spec["inject"] = None
        if k % 2 == 1:
            # the results carry the worker's report counter, which restarts with every run of a trial
            spec["backend_params"]["worker_iter"] = True
            spec["cb_store"] = True
        k += 1
        yield spec


def corpus():
    p = os.path.join(os.path.dirname(__file__), "..", "corpus", "c02.json")
    extra_cases = json.load(open(p)) if os.path.exists(p) else []
    return [STALE_HISTORY, SIM_STALE_HISTORY] + extra_cases


# ---------------------------------------------------------------------------------
# monitors: direct reading of the property on the implementation trace


def poll_monitor(events):
    out = []
    emitted = {}      # (trial, run) -> number of reports written
    fetched = {}      # (trial, run) -> list of idx returned by polls, in order
    n_fetched = {}    # trial -> number of results returned by polls
    n_emitted = {}    # trial -> number of reports written
    decided = {}      # trial -> (run, idx) of the STOP/PAUSE decision, until the next resume
    resumed_at = {}   # trial -> index in `handed_log[trial]` where the last resume happened
    handed_log = {}
    hidden = 0
    for k, e in enumerate(events):
        op = e["op"]
        o = e["out"]
        for (t, r, i) in e["emitted"]:
            emitted[(t, r)] = emitted.get((t, r), 0) + 1
            n_emitted[t] = n_emitted.get(t, 0) + 1
            if i != emitted[(t, r)] - 1:
                raise RuntimeError("harness: emitted indices not consecutive")
        if "err" in o and op["op"] != "loop":
            continue
        cur = e["runs_before"]
        if op["op"] in ("fetch", "loop") and "delivered" in o:
            for (t, r, i) in o["delivered"]:
                lst = fetched.setdefault((t, r), [])
                if i != len(lst):
                    out.append({"signature": "c02:poll-not-a-gap-free-prefix", "what":
                                f"poll returned report {i} of run {r} of trial {t} after {lst}", "detail": {"event": k, "op": op}})
                lst.append(i)
                n_fetched[t] = n_fetched.get(t, 0) + 1
                if r != cur.get(t, 0):
                    out.append({"signature": "c02:stale-result-after-resume", "what":
                                f"a poll returned report {i} of run {r} of trial {t} while the trial is in run {cur.get(t, 0)}: "
                                "written after the scheduler's decision, delivered after the resume", "detail": {"event": k, "op": op}})
                if t in decided:
                    out.append({"signature": "c02:delivered-after-decision", "what":
                                f"poll returned report {i} of run {r} of trial {t} after the decision at {decided[t]} and before a resume",
                                "detail": {"event": k, "op": op}})
            # completed on its own and polled: everything written must have been returned
            for t, st in o.get("status", []):
                r = cur.get(t, 0)
                if st == "Completed" and len(fetched.get((t, r), [])) != emitted.get((t, r), 0):
                    out.append({"signature": "c02:completed-but-results-missing", "what":
                                f"trial {t} polled as Completed: its run {r} wrote {emitted.get((t, r), 0)} reports, "
                                f"{len(fetched.get((t, r), []))} returned", "detail": {"event": k, "op": op}})
        if op["op"] == "loop":
            handed = o.get("handed", [])
            if len(handed) < len(o.get("delivered", [])):
                hidden += 1
            for (t, r, i, dec) in handed:
                if t in decided:
                    out.append({"signature": "c02:handed-after-decision", "what":
                                f"scheduler received report {i} of run {r} of trial {t} after its decision at {decided[t]}",
                                "detail": {"event": k, "op": op}})
                hl = handed_log.setdefault(t, [])
                # (a first result after a resume that is not report 0 of the new run is either of an older
                #  run - reported as stale above - or breaks the gap-free prefix - reported above)
                hl.append((r, i))
                if dec != "CONTINUE":
                    decided[t] = (r, i)
        if op["op"] == "resume" and "err" not in o:
            t = op["trial"]
            decided.pop(t, None)
            resumed_at[t] = len(handed_log.get(t, []))
    return out, hidden


def sim_monitor(spec, trace):
    """C02 on the simulator trace: assigns every delivered result to the run it stems from
    (`sim.reconstruct`), then reads the property"""
    out = []
    runs, deliveries, problems = sim.reconstruct(spec, trace)
    events = trace["events"]
    by_event = {}
    for d in deliveries:
        by_event.setdefault(d["event"], []).append(d)
    cur_run = {}        # trial -> index of its current run
    commanded = {}      # trial -> event index of the pause/stop command, until resume
    got = {}            # (trial, run) -> list of idx delivered
    skipped = set()     # (trial, run) for which the harness itself did not poll the trial at some point (drops are legal)
    running = set()
    resumes = 0
    for k, e in enumerate(events):
        op = e["op"]
        if "err" in e["out"]:
            continue
        if op["op"] == "start":
            t = e["out"]["trial"]
            cur_run[t] = 0
            running.add(t)
        elif op["op"] == "resume":
            t = op["trial"]
            cur_run[t] = cur_run.get(t, 0) + 1
            commanded.pop(t, None)
            running.add(t)
            resumes += 1
        elif op["op"] in ("pause", "stop"):
            commanded[op["trial"]] = k
            running.discard(op["trial"])
        elif op["op"] == "stop_all":
            for t in list(running):
                commanded[t] = k
            running.clear()
        elif op["op"] == "fetch":
            ids = set(op["ids"])
            for t in running - ids:
                skipped.add((t, cur_run.get(t, 0)))
            for d in by_event.get(k, []):
                t = d["trial"]
                if d["run"] is None:
                    continue  # no run explains it: reported by the C10 monitor
                if d["run"] < cur_run.get(t, 0):
                    out.append({"signature": "c02:sim-stale-result-after-resume", "what":
                                f"simulator delivered level {d['level']} (st_tuner_time {d['time']}) of run {d['run']} of trial {t} "
                                f"after the trial was resumed (current run {cur_run.get(t, 0)}): it arrived between the decision "
                                "and the stop event and was still queued when the trial was resumed",
                                "detail": {"event": k, "op": op}})
                    continue
                # (a delivery for a trial between its stop/pause command and a resume can only happen when the caller
                #  polls a trial it has stopped/paused, which the tuning loop never does; not a reading of the property)
                lst = got.setdefault((t, d["run"]), [])
                if (t, d["run"]) not in skipped and d["idx"] != len(lst):
                    out.append({"signature": "c02:sim-not-a-gap-free-prefix", "what":
                                f"trial {t} run {d['run']}: delivered result number {d['idx']} of the run after {lst}",
                                "detail": {"event": k, "op": op}})
                lst.append(d["idx"])
            for t, st in e["out"].get("status", []):
                r = cur_run.get(t)
                if st == "Completed" and r is not None and t not in commanded and (t, r) not in skipped:
                    exp = runs[t][r]["expected"]
                    if exp is not None and len(got.get((t, r), [])) != len(exp):
                        out.append({"signature": "c02:sim-completed-but-results-missing", "what":
                                    f"trial {t} run {r} polled as Completed with {len(got.get((t, r), []))} of {len(exp)} results delivered",
                                    "detail": {"event": k, "op": op}})
                if st in ("Completed", "Failed"):
                    running.discard(t)
    return out, resumes


def run_impl_loop(spec):
    """third stream: the whole tuning loop (real Tuner.run on the scripted backend, model Drivers/Loop.lean). The poll stream
    covers what one poll does with the results of the trials it is given; this one covers WHICH trials are polled: every trial
    that occupies a worker is in the set handed to fetch_status_results, so that its results are fetched at all."""
    from streams import loop
    t = loop.run_loop(spec)
    try:
        lines = loop.to_lines(t)
        mon = []
        known = [f for f in loop.monitor_c01(t) if f["signature"] == "c01:trial-never-polled-after-rebind"]
        mon.extend(known)  # (F15: recorded for C02 as well)
        # (with a delayed stop a trial keeps its worker for a while after the loop has stopped polling it: not judged)
        if not known and not t.get("skipped") and not (spec.get("backend_params") or {}).get("stop_delay"):
            for e in t["dlg"].entries:
                c = e["call"]
                if c[:2] == ["be", "fetch"] and e.get("_occ") is not None and e["_occ"] > len(c[2]) and isinstance(e.get("ans"), dict):
                    mon.append({"signature": "c02:running-trial-not-polled",
                                "what": f"{e['_occ']} trials occupy workers, the poll asks for the results of {c[2]} only: what the "
                                        f"others report is never fetched", "detail": {"call": c}})
                    break
        kinds = loop.call_kinds(t)
        return {"lines": lines, "driver": LOOP_DRIVER, "monitor": mon,
                "meta": {"hist": {"loop:cases": 1, "loop:resumes": int("be.resume" in kinds)}, "resumes": int("be.resume" in kinds), "hidden": 0}}
    finally:
        loop.cleanup(t)


def run_impl(spec):
    if spec.get("stream") == "sim":
        return run_impl_sim(spec)
    if spec.get("stream") == "loop":
        return run_impl_loop(spec)
    t = poll.run_scenario(spec)
    mon, hidden = poll_monitor(t["events"])
    hist = dict(t["hist"])
    if t.get("survivors"):
        mon.append({"signature": "c02:job-alive-after-stop", "what": f"real LocalBackend: the worker processes of trials {t['survivors']} were still "
                    "alive after the backend had stopped / paused them (they go on writing reports)", "detail": None})
    if spec.get("ctor", {}).get("coarse_clock", 1) > 1:
        # worker time stamps shared by consecutive reports: the model's stamps are an emission counter, so these cases are
        # judged by the monitor alone (per trial and run: delivered = gap-free prefix of reported, each once, in order)
        hist["coarse-clock-cases"] = 1
        t["lines"] = []
    return {"lines": t["lines"], "monitor": mon,
            "meta": {"hist": hist, "resumes": hist.get("resume-ok", 0) + (1 if "ops" in spec else 0), "hidden": hidden}}


def nontrivial(trace):
    m = trace.get("meta", {})
    return m.get("resumes", 0) >= 1 or m.get("hidden", 0) >= 1


# ---------------------------------------------------------------------------------
# second stream (simulator)


def fill_sim_constants(spec):
    spec = json.loads(json.dumps(spec))
    g, m = sim.code_constants()
    if spec["ctor"].get("guard") is None:
        spec["ctor"]["guard"] = framework.frac_str(g)
    if spec["ctor"].get("min_step") is None:
        spec["ctor"]["min_step"] = framework.frac_str(m)
    return spec


def run_impl_sim(spec):
    spec = fill_sim_constants(spec)
    t = sim.run_scenario(spec)
    mon, resumes = sim_monitor(spec, t)
    hist = {"sim:" + k: v for k, v in t["hist"].items()}
    return {"lines": t["lines"], "driver": SIM_DRIVER, "monitor": mon,
            "meta": {"hist": hist, "resumes": resumes, "hidden": 0}}


def extra(ctx):
    ctx.notes["streams"] = ["poll (Drivers/Poll.lean)", "sim (Drivers/Sim.lean)", "loop (Drivers/Loop.lean)"]
    ctx.notes["lean_counterexamples_replayed"] = [STALE_HISTORY["lean_counterexample"], SIM_STALE_HISTORY["lean_counterexample"]]
