"""C20 — a checkpoint exists whenever a trial is resumed or warm-started from it (assembled: loop, hb, sync)."""
from streams import hb, sync, loop
from props import c05
from props.c03 import gen_ctor

PID = "C20"
LEVEL = "proof"
HB, SYNC, LOOP = "SyneTune/Drivers/Hb.lean", "SyneTune/Drivers/Sync.lean", "SyneTune/Drivers/Loop.lean"
DRIVER = LOOP
COMPARE = {HB: hb.compare, SYNC: sync.compare, LOOP: loop.compare}
LEAN_TARGETS = ["SyneTune.Props.C20Loop", "SyneTune.Props.C20Hb", "SyneTune.Props.C20Sync", "SyneTune.Props.C04K", "SyneTune.Props.C04"]
THEOREMS = [
    "SyneTune.C20Loop.delete_only_when",
    "SyneTune.C20Loop.deleted_only_stopped_or_named",
    "SyneTune.C20Loop.removal_callback_deletes_named",
    "SyneTune.C20Loop.resume_has_ckpt",
    "SyneTune.C20Loop.pbt_partial",
    "SyneTune.C20Loop.pbt_counterexample",
    "SyneTune.C20Hb.dead_stays_dead",
    "SyneTune.C20Hb.stopped_never_resumed",
    "SyneTune.C20Hb.stop_at_max_makes_dead",
    "SyneTune.C04K.resume_only_not_running",
    "SyneTune.C04.promoted_once",
    "SyneTune.C20Sync.removable_not_promoted",
    "SyneTune.C20Sync.not_promoted_stable",
    "SyneTune.C20Sync.not_promoted_never_resumed",
    "SyneTune.C20Sync.resume_has_ckpt_sync",
]
TRUSTED = [
    "loop model (Model/Tuner.lean: stop/pause/delete/copy commands, removal callback), asynchronous Hyperband model "
    "(Model/HB.lean) and synchronous Hyperband model (Model/Sync*.lean), each tied to /repo by its correspondence stream",
    "the backend's checkpoint set: copy requires the source present, delete idempotent, stop deletes iff delete_checkpoints, "
    "pause never deletes (scripted in-memory backend recording copy / delete / resume)",
]
ASSUMPTIONS = [
    "speculative early checkpoint removal (HyperbandRemoveCheckpointsCallback) is off unless explicitly requested, as in the property",
    "DEHB and PBT have no scheduler model: their resume / warm-start behaviour is decided on the real Tuner traces only",
]
RULE = ("cases: (loop) real Tuner runs with pause-and-resume schedulers (promotion Hyperband, PASHA, synchronous Hyperband, DEHB, "
        "PBT) on the scripted backend with delete_checkpoints on/off and the removal callback, every order of results inside a "
        "poll; (hb) the real promotion-type HyperbandScheduler: a trial that received STOP is never resumed; (sync) the real "
        "synchronous scheduler: a trial reported by trials_checkpoints_can_be_removed is never resumed. distinct by sha256 of "
        "the spec; non-trivial iff at least one resume or warm start happened")


def gen_cases(rng, tier):
    n = 40 if tier == "quick" else 600
    k = 0
    while k < n:
        spec = loop.gen_spec(rng, tier)
        if spec["backend"] != "script":
            continue
        sp = spec["scheduler"]
        pr = (sp["kind"] == "hb" and sp.get("type") in ("promotion", "pasha", "cost_promotion", "rush_promotion")) or \
            sp["kind"] in ("sync", "dehb", "pbt", "script")
        if not pr and rng.random() < 0.8:
            continue
        spec["delete_checkpoints"] = rng.random() < 0.8
        spec["kind"] = "loop"
        k += 1
        yield spec
    # PBT warm starts: a population that keeps exploiting until max_t, which sits at the end of a perturbation interval
    # in most cases, checkpoints deleted at STOP, few other ways for the run to end
    k = 0
    while k < (40 if tier == "quick" else 400):
        spec = loop.gen_spec(rng, tier)
        if spec["backend"] != "script":
            continue
        iv = rng.choice([1, 2, 2, 3])
        spec["scheduler"] = {"kind": "pbt", "mode": rng.choice(["min", "max"]), "perturbation_interval": iv,
                             "population_size": rng.choice([2, 3, 4]), "quantile_fraction": rng.choice([0.25, 0.34, 0.5])}
        spec["max_t"] = iv * rng.choice([2, 3]) if rng.random() < 0.7 else rng.choice([3, 4, 5, 6, 9])
        spec["n_workers"] = rng.randint(2, 5)
        spec["delete_checkpoints"] = True
        spec["inject"] = None
        spec["criterion"] = {"max_num_trials_started": rng.randint(6, 14)}
        bp = spec.get("backend_params") or {}
        bp.update({"p_fail": 0.0, "p_extstop": 0.0, "short_runs": None})
        spec["backend_params"] = bp
        spec["kind"] = "loop"
        k += 1
        yield spec
    for _ in range(20 if tier == "quick" else 300):
        typ = rng.choice(["promotion", "promotion", "pasha", "cost_promotion", "rush_promotion"])
        c = gen_ctor(rng, typ)
        c["max_resource_attr"] = rng.random() < 0.6
        if typ == "cost_promotion":
            c["cost"] = True
        if typ == "rush_promotion":
            c["num_threshold_candidates"] = rng.choice([0, 1, 2])
        if typ == "pasha":
            c["brackets"] = 1
        try:
            hb.make_scheduler(c)
        except AssertionError:
            continue
        yield {"kind": "hb", "ctor": c, "seed": rng.randrange(10 ** 9), "n_workers": rng.randint(1, 5),
               "max_events": rng.choice([60, 120]) if tier == "quick" else rng.choice([120, 300]),
               "style": rng.choice(["general", "grid", "noisy"]), "checkpointing": rng.random() < 0.7, "p_fail": 0}
    for _ in range(20 if tier == "quick" else 300):
        spec = c05.gen_scheduler_case(rng, tier)
        spec["p_fail"] = rng.choice([0, 0, 0.1])
        spec["kind"] = "sync"
        yield spec


def corpus():
    return [dict(s, kind="loop") for s in loop.witness_specs(LOOP) if "pbt" in str(s.get("witness", ""))]


def run_impl(spec):
    kind = spec["kind"]
    if kind == "loop":
        t = loop.run_loop(spec)
        try:
            lines = loop.to_lines(t)
            mon = loop.monitor_c20_loop(t) + loop.monitor_witness(t)
            hist = loop.histogram(t)
            hist["kind:loop"] = 1
            kinds = loop.call_kinds(t)
            nt = any(k in kinds for k in ("be.resume", "be.copy"))
            return {"lines": lines, "driver": LOOP, "monitor": mon, "meta": {"hist": hist, "nontrivial": nt}}
        finally:
            loop.cleanup(t)
    if kind == "hb":
        t = hb.run_scenario(spec)
        t.pop("sched")
        mon = []
        stopped = set()
        resumes = 0
        for e in t["events"]:
            if e["ev"] == "result" and e["decision"] == "STOP" and not e.get("late"):
                stopped.add(e["trial"])   # with delete_checkpoints the loop deletes this trial's checkpoint now
            if e["ev"] == "resume":
                resumes += 1
                if e["trial"] in stopped:
                    mon.append({"signature": "c20:hb-stopped-trial-resumed",
                                "what": f"trial {e['trial']} received STOP (checkpoint deleted with delete_checkpoints) and is resumed "
                                        f"later from rung {e['from']}", "detail": {k: v for k, v in e.items() if k not in ("before", "after")}})
        return {"lines": t["lines"], "driver": HB, "monitor": mon,
                "meta": {"hist": {"kind:hb": 1, "hb_resumes": resumes, "hb_stops": len(stopped)}, "nontrivial": resumes > 0}}
    if kind == "sync":
        t = sync.run_scheduler(spec)
        mon = sync.monitor_c20_sync(t)
        resumes = sum(1 for e in t["events"] if e["ev"] == "resume")
        return {"lines": t["lines"], "driver": SYNC, "monitor": mon,
                "meta": {"hist": {"kind:sync": 1, "sync_resumes": resumes}, "nontrivial": resumes > 0}}
    raise ValueError(kind)


def nontrivial(trace):
    return bool(trace.get("meta", {}).get("nontrivial"))
