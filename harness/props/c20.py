"""C20 — a checkpoint exists whenever a trial is resumed or warm-started from it (assembled: loop, hb, sync)."""
import random

from streams import hb, sync, loop, pbt, early
from props import c05, c20pbt, c20early
from props.c03 import gen_ctor

PID = "C20"
LEVEL = "proof"
HB, SYNC, LOOP = "SyneTune/Drivers/Hb.lean", "SyneTune/Drivers/Sync.lean", "SyneTune/Drivers/Loop.lean"
PBT = "SyneTune/Drivers/Pbt.lean"
EARLY = early.DRIVER
DRIVER = LOOP
COMPARE = {HB: hb.compare, SYNC: sync.compare, LOOP: loop.compare, PBT: pbt.compare, EARLY: early.compare}
LEAN_TARGETS = ["SyneTune.Props.C20Loop", "SyneTune.Props.C20Hb", "SyneTune.Props.C20Sync", "SyneTune.Props.C04K", "SyneTune.Props.C04",
                "SyneTune.Props.C20Pbt", "SyneTune.Props.C20Early"]
THEOREMS = [
    "SyneTune.C20Loop.delete_only_when",
    "SyneTune.C20Loop.deleted_only_stopped_or_named",
    "SyneTune.C20Loop.removal_callback_deletes_named",
    "SyneTune.C20Loop.resume_has_ckpt",
    "SyneTune.C20Loop.pbt_partial",
    "SyneTune.C20Loop.pbt_counterexample",
    "SyneTune.C20Hb.dead_stays_dead",
    "SyneTune.C20Hb.stopped_never_resumed",
    "SyneTune.C20Hb.stop_at_max_makes_dead",
    "SyneTune.C04K.resume_only_not_running",
    "SyneTune.C04.promoted_once",
    "SyneTune.C20Sync.removable_not_promoted",
    "SyneTune.C20Sync.not_promoted_stable",
    "SyneTune.C20Sync.not_promoted_never_resumed",
    "SyneTune.C20Sync.resume_has_ckpt_sync",
] + list(c20pbt.THEOREMS) + list(c20early.THEOREMS)
# (c20pbt: scheduler-level model of PopulationBasedTraining, Props/C20Pbt.lean, stream pbt; c20early: bookkeeping of the speculative
#  early-removal callbacks, Props/C20Early.lean, stream early)
TRUSTED = [
    "loop model (Model/Tuner.lean: stop/pause/delete/copy commands, removal callback), asynchronous Hyperband model "
    "(Model/HB.lean) and synchronous Hyperband model (Model/Sync*.lean), each tied to /repo by its correspondence stream",
    "the backend's checkpoint set: copy requires the source present, delete idempotent, stop deletes iff delete_checkpoints, "
    "pause never deletes (scripted in-memory backend recording copy / delete / resume)",
    "(early) the BOOKKEEPING of the speculative removal callbacks is modelled (Model/EarlyRemoval.lean, theorems Props/C20Early.lean, "
    "model lines through Drivers/Early.lean); which paused trials are picked depends on estimated probabilities, a clock or a random "
    "draw and is an oracle input whose admissibility (distinct members of the filtered paused list, the right number) is checked. "
    "The monitor of the cases of kind 'early' keeps judging the recorded dialogue of the real Tuner and the scripted backend's own "
    "record of every deletion (status of the trial and presence of the checkpoint at that moment); the callback's clock "
    "(time.perf_counter in its module) is replaced by a deterministic counter so that runs are reproducible",
] + ["(pbt) " + x for x in c20pbt.TRUSTED] + ["(early) " + x for x in c20early.TRUSTED]
ASSUMPTIONS = [
    "speculative early checkpoint removal (HyperbandRemoveCheckpointsCallback and its baseline variants) is exercised in both "
    "settings. OFF (cases loop / hb / sync; the scheduler has no early_checkpoint_removal_kwargs): proved on the models, and on the "
    "traces every deletion must follow a STOP, a trial named removable, or the end of tuning, and every resume must find its "
    "checkpoint. ON (cases early; explicitly requested via early_checkpoint_removal_kwargs, delete_checkpoints=True): monitor only; "
    "a deletion is legitimate after STOP, at the end of tuning, or - the requested speculation - for a trial that is not running "
    "(paused at a rung level, or already failed / completed / stopped); a deletion while the trial runs is a violation; a resume "
    "after a speculative removal is the documented price of the speculation and only counted; the promise on the number of kept "
    "checkpoints is: after on_loop_end, (#running trials + #paused trials whose checkpoint is kept) <= max_num_checkpoints, or "
    "no paused trial keeps a checkpoint (checkpoints of completed / failed trials are outside the callback's count)",
    "DEHB and PBT have no scheduler model: their resume / warm-start behaviour is decided on the real Tuner traces only",
] + ["(pbt) " + x for x in c20pbt.ASSUMPTIONS] + ["(early) " + x for x in c20early.ASSUMPTIONS]
RULE = ("cases: (loop) real Tuner runs with pause-and-resume schedulers (promotion Hyperband, PASHA, synchronous Hyperband, DEHB, "
        "PBT) on the scripted backend with delete_checkpoints on/off and the removal callback, every order of results inside a "
        "poll (with deletion off any deletion is a finding); (hb) the real promotion-type HyperbandScheduler: a trial that received STOP is never resumed; (sync) the real "
        "synchronous scheduler: a trial reported by trials_checkpoints_can_be_removed is never resumed; (early) real Tuner runs "
        "with promotion-type HyperbandScheduler (promotion, pasha, cost_promotion, rush_promotion) constructed with "
        "early_checkpoint_removal_kwargs (max_num_checkpoints 2..6, estimator-based callback with varied prior_beta_mean / "
        "prior_beta_size / min_data_at_rung / approx_steps and the baselines 'random' / 'by_level' / None, max_wallclock_time from "
        "the kwargs or the criterion) on the scripted backend with delete_checkpoints=True, 1..5 workers, 1..3 brackets, results of "
        "several trials inside a poll in a random interleaving, failures and external stops; monitor on the dialogue plus model lines "
        "for the callback's books. "
        "distinct by sha256 of the spec; non-trivial iff at least one resume or warm start happened (early: at least one "
        "speculative removal and at least one promotion after it); (pbt) " + c20pbt.RULE + "; (early, model lines) " + c20early.RULE)


def gen_cases(rng, tier):
    n = 40 if tier == "quick" else 600
    k = 0
    while k < n:
        spec = loop.gen_spec(rng, tier)
        if spec["backend"] != "script":
            continue
        sp = spec["scheduler"]
        pr = (sp["kind"] == "hb" and sp.get("type") in ("promotion", "pasha", "cost_promotion", "rush_promotion")) or \
            sp["kind"] in ("sync", "dehb", "pbt", "script")
        if not pr and rng.random() < 0.8:
            continue
        spec["delete_checkpoints"] = rng.random() < 0.8
        spec["kind"] = "loop"
        k += 1
        yield spec
    # PBT warm starts: a population that keeps exploiting until max_t, which sits at the end of a perturbation interval
    # in most cases, checkpoints deleted at STOP, few other ways for the run to end
    k = 0
    while k < (40 if tier == "quick" else 400):
        spec = loop.gen_spec(rng, tier)
        if spec["backend"] != "script":
            continue
        iv = rng.choice([1, 2, 2, 3])
        spec["scheduler"] = {"kind": "pbt", "mode": rng.choice(["min", "max"]), "perturbation_interval": iv,
                             "population_size": rng.choice([2, 3, 4]), "quantile_fraction": rng.choice([0.25, 0.34, 0.5])}
        spec["max_t"] = iv * rng.choice([2, 3]) if rng.random() < 0.7 else rng.choice([3, 4, 5, 6, 9])
        spec["n_workers"] = rng.randint(2, 5)
        spec["delete_checkpoints"] = True
        spec["inject"] = None
        spec["criterion"] = {"max_num_trials_started": rng.randint(6, 14)}
        bp = spec.get("backend_params") or {}
        bp.update({"p_fail": 0.0, "p_extstop": 0.0, "short_runs": None})
        spec["backend_params"] = bp
        spec["kind"] = "loop"
        k += 1
        yield spec
    # synchronous schedulers run until their first bracket hands out jobs of its higher rungs, checkpoints deleted at STOP;
    # DEHB also with the non-default option under which nothing is ever resumed (every trial gets STOP)
    k = 0
    while k < (8 if tier == "quick" else 100):
        spec = loop.gen_spec(rng, tier)
        if spec["backend"] != "script":
            continue
        kind = "dehb" if k < 3 else rng.choice(["dehb", "dehb", "sync"])
        spec["scheduler"] = {"kind": kind, "modes": rng.choice(["min", "max"]), "reduction_factor": rng.choice([2, 3]),
                             "brackets": rng.choice([None, 1, 2]), "max_resource_attr": rng.random() < 0.4}
        if kind == "dehb" and (k < 3 or rng.random() < 0.6):
            spec["scheduler"]["support_pause_resume"] = False
        spec["max_t"] = 4 if spec["scheduler"]["reduction_factor"] == 2 else 9   # rungs of 4/2/1 or 9/3/1 jobs
        spec["n_workers"] = rng.randint(2, 4)
        spec["delete_checkpoints"] = True
        spec["criterion"] = {"max_num_trials_started": rng.randint(24, 40)}
        spec["inject"] = None
        bp = spec.get("backend_params") or {}
        bp.update({"p_fail": 0.0, "p_extstop": 0.0, "short_runs": None})
        spec["backend_params"] = bp
        spec["kind"] = "loop"
        k += 1
        yield spec
    # ... and the same schedulers (their removal callback comes with the scheduler) on a back-end created with
    # delete_checkpoints=False: nothing is deleted at all
    k = 0
    while k < (8 if tier == "quick" else 80):
        spec = loop.gen_spec(rng, tier)
        if spec["backend"] != "script":
            continue
        spec["scheduler"] = {"kind": rng.choice(["sync", "sync", "dehb"]), "modes": rng.choice(["min", "max"]),
                             "reduction_factor": rng.choice([2, 3]), "brackets": rng.choice([None, 1, 2]),
                             "max_resource_attr": rng.random() < 0.4}
        spec["max_t"] = 4 if spec["scheduler"]["reduction_factor"] == 2 else 9
        spec["n_workers"] = rng.randint(2, 4)
        spec["delete_checkpoints"] = False
        spec["criterion"] = {"max_num_trials_started": rng.randint(24, 40)}
        spec["inject"] = None
        bp = spec.get("backend_params") or {}
        bp.update({"p_fail": 0.0, "p_extstop": 0.0, "short_runs": None})
        spec["backend_params"] = bp
        spec["kind"] = "loop"
        k += 1
        yield spec
    for _ in range(20 if tier == "quick" else 300):
        typ = rng.choice(["promotion", "promotion", "pasha", "cost_promotion", "rush_promotion"])
        c = gen_ctor(rng, typ)
        c["max_resource_attr"] = rng.random() < 0.6
        if typ == "cost_promotion":
            c["cost"] = True
        if typ == "rush_promotion":
            c["num_threshold_candidates"] = rng.choice([0, 1, 2])
        if typ == "pasha":
            c["brackets"] = 1
        try:
            hb.make_scheduler(c)
        except AssertionError:
            continue
        yield {"kind": "hb", "ctor": c, "seed": rng.randrange(10 ** 9), "n_workers": rng.randint(1, 5),
               "max_events": rng.choice([60, 120]) if tier == "quick" else rng.choice([120, 300]),
               "style": rng.choice(["general", "grid", "noisy"]), "checkpointing": rng.random() < 0.7, "p_fail": 0}
    for _ in range(20 if tier == "quick" else 300):
        spec = c05.gen_scheduler_case(rng, tier)
        spec["p_fail"] = rng.choice([0, 0, 0.1])
        spec["kind"] = "sync"
        yield spec
    for _ in range(20 if tier == "quick" else 300):
        yield gen_early_spec(rng, tier)
    # the real PopulationBasedTraining scheduler against its model (appended last: the cases above stay the same for a seed)
    for _ in range(40 if tier == "quick" else 500):
        yield dict(pbt.gen_case(rng, tier), kind="pbt")
    # the early-removal callback classes driven directly (also operation orders the Tuner never produces)
    for _ in range(40 if tier == "quick" else 600):
        yield early.gen_direct(rng, tier)


def corpus():
    return [dict(s, kind="loop") for s in loop.witness_specs(LOOP) if "pbt" in str(s.get("witness", ""))]


def run_impl(spec):
    kind = spec["kind"]
    if kind == "loop":
        t = loop.run_loop(spec)
        try:
            lines = loop.to_lines(t)
            mon = loop.monitor_c20_loop(t) + loop.monitor_witness(t)
            hist = loop.histogram(t)
            hist["kind:loop"] = 1
            kinds = loop.call_kinds(t)
            nt = any(k in kinds for k in ("be.resume", "be.copy"))
            return {"lines": lines, "driver": LOOP, "monitor": mon, "meta": {"hist": hist, "nontrivial": nt}}
        finally:
            loop.cleanup(t)
    if kind in ("early", "early-direct"):
        # the recorded run of `run_early` (monitor as before) plus model lines for the callback's bookkeeping (streams/early.py);
        # early-direct: the callback classes on stub scheduler / backend
        r = early.run_impl(spec)
        r["driver"] = EARLY
        r["meta"]["hist"]["kind:" + kind] = 1
        return r
    if kind == "pbt":
        r = pbt.run_impl(spec)
        r["driver"] = PBT
        r["meta"]["hist"] = {"pbt:" + k: v for k, v in r["meta"]["hist"].items()}
        r["meta"]["hist"]["kind:pbt"] = 1
        r["meta"]["nontrivial"] = pbt.nontrivial(r)
        return r
    if kind == "hb":
        t = hb.run_scenario(spec)
        t.pop("sched")
        mon = []
        stopped = set()
        resumes = 0
        for e in t["events"]:
            if e["ev"] == "result" and e["decision"] == "STOP" and not e.get("late"):
                stopped.add(e["trial"])   # with delete_checkpoints the loop deletes this trial's checkpoint now
            if e["ev"] == "resume":
                resumes += 1
                if e["trial"] in stopped:
                    mon.append({"signature": "c20:hb-stopped-trial-resumed",
                                "what": f"trial {e['trial']} received STOP (checkpoint deleted with delete_checkpoints) and is resumed "
                                        f"later from rung {e['from']}", "detail": {k: v for k, v in e.items() if k not in ("before", "after")}})
        return {"lines": t["lines"], "driver": HB, "monitor": mon,
                "meta": {"hist": {"kind:hb": 1, "hb_resumes": resumes, "hb_stops": len(stopped)}, "nontrivial": resumes > 0}}
    if kind == "sync":
        t = sync.run_scheduler(spec)
        mon = sync.monitor_c20_sync(t)
        resumes = sum(1 for e in t["events"] if e["ev"] == "resume")
        return {"lines": t["lines"], "driver": SYNC, "monitor": mon,
                "meta": {"hist": {"kind:sync": 1, "sync_resumes": resumes}, "nontrivial": resumes > 0}}
    raise ValueError(kind)


def nontrivial(trace):
    return bool(trace.get("meta", {}).get("nontrivial"))


def extra(ctx):
    """the Lean witnesses of the PBT counterexample theorems replayed on the real scheduler"""
    c20pbt.extra(ctx)


def post_case(trace, model_outputs):
    if trace.get("driver") == EARLY:
        return early.post_case(trace, model_outputs) or []
    return []


# ---------------------------------------------------------------------------------
# case kind "early": speculative early checkpoint removal switched ON (monitor only)
#
# HyperbandScheduler(type=<promotion type>, early_checkpoint_removal_kwargs={...}).callback_for_checkpoint_removal() hands the
# Tuner a HyperbandRemoveCheckpointsCallback (or its baseline variant) when trial_backend.delete_checkpoints is set.  The
# callback estimates probabilities of getting resumed and reads a clock, so there is no model of its picks: the real
# Tuner.run() is executed on the scripted backend of streams/loop.py and the recorded dialogue is judged directly.

EARLY_CB_MODULE = "syne_tune.callbacks.hyperband_remove_checkpoints_callback"
EARLY_CB_CLASSES = ("HyperbandRemoveCheckpointsCallback", "HyperbandRemoveCheckpointsBaselineCallback")


class _CounterClock:
    """deterministic stand-in for module `time` inside the removal callback's module (it reads time.perf_counter() to
    relate the time spent to max_wallclock_time): every reading advances by `step`"""

    def __init__(self, step):
        self.now, self.step = 0.0, step

    def perf_counter(self):
        self.now += self.step
        return self.now

    def __getattr__(self, name):
        import time as _time
        return getattr(_time, name)


def gen_early_spec(rng, tier):
    typ = rng.choice(["promotion"] * 4 + ["pasha", "pasha", "cost_promotion", "rush_promotion"])
    rf = rng.choice([2, 2, 3])
    max_t = rng.choice([4, 8, 9, 9, 16] if rf == 2 else [4, 9, 9, 10, 27])   # 2..4 rung levels below max_t
    approach = rng.choice(["estimator", "estimator", "estimator", "random", "by_level", "none"])
    early = {"max_num_checkpoints": rng.randint(2, 6)}
    if approach == "estimator":
        if rng.random() < 0.8:
            early["prior_beta_mean"] = rng.choice([0.1, 0.33, 0.45, 0.6])
        if rng.random() < 0.8:
            early["prior_beta_size"] = rng.choice([0.5, 1, 2, 8])
        if rng.random() < 0.8:
            early["min_data_at_rung"] = rng.choice([0, 1, 3, 5])
        if rng.random() < 0.7:
            early["approx_steps"] = rng.choice([3, 5, 10, 25])
    else:
        early["baseline"] = None if approach == "none" else approach
    n_workers = rng.randint(1, 5)
    calm = approach == "estimator" and rng.random() < 0.7
    if calm:
        # the estimator-based callback raises in on_loop_end (zip of an empty list) as soon as more trials count as holding a
        # checkpoint than max_num_checkpoints while no paused trial is left to choose from; its count never forgets a failed
        # trial.  Most estimator cases stay clear of that: at least as many checkpoints as workers, no failing trials
        early["max_num_checkpoints"] = max(early["max_num_checkpoints"], min(6, n_workers + rng.choice([0, 0, 1])))
    crit = {"max_num_trials_started": rng.randint(8, 22 if tier == "quick" else 40)}
    if rng.random() < 0.5:
        # the callback takes max_wallclock_time from the criterion (overriding the kwargs); mostly generous (the loop's clock
        # is the scripted ClockStub), sometimes it is what ends the run
        crit["max_wallclock_time"] = loop.frac_str(rng.choice([10, 40, 400, 400, 4000]))
        if rng.random() < 0.3:
            early["max_wallclock_time"] = rng.choice([5, 50])
    else:
        early["max_wallclock_time"] = rng.choice([5, 20, 100, 3600])
    if rng.random() < 0.3:
        crit["max_num_evaluations"] = rng.randint(30, 120)
    swd = rng.random() < 0.75
    spec = {
        "kind": "early",
        "seed": rng.randrange(10 ** 9),
        "backend": "script",
        "scheduler": {"kind": "hb", "type": typ, "mode": rng.choice(["min", "max"]), "reduction_factor": rf,
                      "grace_period": rng.choice([1, 1, 1, 2]), "brackets": rng.choice([1, 1, 1, 2, 3]) if typ != "pasha" else 1,
                      "max_resource_attr": typ != "pasha" and rng.random() < 0.4, "early": early},
        "n_workers": n_workers,
        "max_t": max_t,
        "flags": {"async": rng.random() < 0.9, "wait": rng.random() < 0.3, "swd": swd},
        "criterion": crit,
        "max_failures": rng.choice([2, 5, 100, 100]),
        "delete_checkpoints": True,
        "cb_store": rng.random() < 0.5,
        "store_every": False,
        "inject": rng.randrange(40, 400) if rng.random() < 0.08 else None,
        "clock_step": rng.choice([0.25, 0.5, 1.0]),
        "cb_clock_step": rng.choice([0.001, 0.05, 0.5, 2.0]),
        "backend_params": {
            "p_fail": 0.0 if calm else rng.choice([0.0, 0.0, 0.1, 0.2]),
            "p_extstop": 0.0 if calm else rng.choice([0.0, 0.0, 0.0, 0.08]),
            "max_batch": rng.randint(1, 3),
            "p_end_same_poll": rng.choice([0.0, 0.5, 1.0]),
            "stop_delay": 0 if swd else rng.choice([0, 0, 1]),
            "p_finish_at_busy": 0.0 if swd else rng.choice([0.0, 0.0, 0.3]),
            "style": "cost" if typ == "cost_promotion" else rng.choice(["plain", "plain", "cost"]),
            "nan_metric": False,
            "short_runs": None,
            "shuffle_poll": rng.random() < 0.85,
        },
    }
    if spec["scheduler"]["grace_period"] >= max_t:
        spec["scheduler"]["grace_period"] = 1
    return spec


def run_early(spec):
    import importlib
    mod = importlib.import_module(EARLY_CB_MODULE)
    old_time = mod.time
    mod.time = _CounterClock(spec.get("cb_clock_step", 0.05))
    try:
        t = loop.run_loop(spec)
    finally:
        mod.time = old_time
    try:
        mon, hist, nt = monitor_c20_early(t)
        h = loop.histogram(t)
        h = {k: v for k, v in h.items() if not k.startswith("call:") or k in ("call:be.delete", "call:be.resume", "call:be.pause",
                                                                               "call:be.stop", "call:sched.error")}
        h.update(hist)
        h["kind:early"] = 1
        return {"lines": [], "driver": LOOP, "monitor": mon, "meta": {"hist": h, "nontrivial": nt}}
    finally:
        loop.cleanup(t)


def monitor_c20_early(t):
    """direct reading of C20 with speculative early removal ON, on the recorded dialogue of the real Tuner and the scripted
    backend's own record.  Returns (findings, histogram, non-trivial)

    The loop's view of a trial (from the dialogue only): RUNNING from the return of `be start` / `be resume` until `be pause`,
    `be stop`, or a poll (`be fetch`) that reports it completed / failed / stopped; PAUSED after `be pause`.
    A deletion (`be delete`) is
      * a STOP deletion if the preceding backend call is `be stop` of the same trial (stop_trial with delete_checkpoints),
      * a final deletion if `stop_all` is under way (tuning has ended),
      * otherwise speculative (issued by a callback)."""
    from syne_tune.backend.trial_status import Status
    hist = {}

    def bump(k, n=1):
        hist[k] = hist.get(k, 0) + n

    sp = t["spec"]["scheduler"]
    early = sp.get("early") or {}
    max_ckpt = early.get("max_num_checkpoints")
    approach = ("baseline:" + str(early["baseline"])) if "baseline" in early else "estimator"
    bump("early:approach=" + approach)
    bump("early:max_num_checkpoints=%s" % max_ckpt)
    cb_names = [type(c).__name__ for c in t["tuner"].callbacks]
    installed = [c for c in cb_names if c in EARLY_CB_CLASSES]
    bump("early:callback=" + (installed[0] if installed else "none"))
    if t.get("skipped"):
        return [], hist, False
    out = []
    if not installed:
        out.append(loop.F("c20:early-removal-callback-missing", "early_checkpoint_removal_kwargs given and delete_checkpoints=True, but the "
                          "Tuner did not install the removal callback", {"callbacks": cb_names}))
    DEAD = (Status.completed, Status.failed, Status.stopped)
    calls = loop._calls(t)
    be = t["backend"]
    truth_at = {pos: (tid, st, had) for pos, tid, st, had in getattr(be, "delete_log", [])}
    state, ended = {}, {}        # tid -> "running" | "paused" | "stopped" | <polled end status>;  tid -> polled end status of the current run
    spec_deleted, hard_deleted = set(), set()   # checkpoint removed (speculatively | by STOP) and the trial has not run since
    removable = set()
    in_final = False
    prev = None
    after_loop_end = False       # the recorder's `cb loop_end` returned and only deletions / clock readings followed
    iteration = 0
    paused_in_iter = {}
    n_spec = n_resume_after_any_spec = 0
    expected_missing = []
    raised = t["final"].get("raised")

    def check_promise(i, where):
        run = sorted(k for k, v in state.items() if v == "running")
        kept = sorted(k for k, v in state.items() if v == "paused" and k not in ended and k not in spec_deleted and k not in hard_deleted)
        bump("early:promise-checked")
        if len(run) + len(kept) > max_ckpt:
            if kept:
                out.append(loop.F("c20:early-removal-too-many-checkpoints",
                                  f"after on_loop_end ({where}) {len(run)} running + {len(kept)} paused trials keep a checkpoint, more than "
                                  f"max_num_checkpoints={max_ckpt}, although paused trials with a checkpoint are left to choose from",
                                  {"call": i, "running": run, "paused_with_checkpoint": kept}))
            else:
                bump("early:promise-by-exhaustion")   # more running trials than max_num_checkpoints, no paused checkpoint left
        elif kept:
            bump("early:paused-checkpoints-kept-at-loop-end", len(kept))

    for i, c, a in calls:
        ok = a == {"ret": True}
        if c == ["be", "all_results"]:
            in_final = True
        if c[:2] == ["sched", "removable"] and isinstance(a, dict) and "ids" in a:
            removable |= set(a["ids"])
        if c[0] == "cb" and c[1] == "loop_start":
            if after_loop_end and max_ckpt is not None:
                check_promise(i, "next loop_start")
            iteration += 1
        if c[0] == "cb" and c[1] == "tuning_end" and after_loop_end and raised is None and max_ckpt is not None:
            check_promise(i, "tuning_end")
        if c[:2] == ["cb", "loop_end"]:
            after_loop_end = ok
        elif not (c[:2] == ["be", "delete"] and ok) and c != ["clock"]:
            after_loop_end = False
        if c[:2] == ["be", "fetch"] and isinstance(a, dict) and "status" in a:
            for tid, st in a["status"]:
                if st in DEAD:
                    ended[tid] = st
                    if state.get(tid) == "running":
                        state[tid] = st
                        bump("early:polled-end:" + st)
        if c[:2] == ["be", "pause"]:
            state[c[2]] = "paused"
            paused_in_iter[c[2]] = iteration
            if c[2] in ended:
                bump("early:paused-and-" + ended[c[2]] + "-in-one-poll")
        if c[:2] == ["be", "stop"]:
            state[c[2]] = "stopped"
        if c[:2] == ["be", "delete"]:
            tid = c[2]
            tr = truth_at.get(i)
            if prev == ["be", "stop", tid]:
                bump("early:delete-after-stop")
                if ok:
                    hard_deleted.add(tid)
            elif in_final:
                bump("early:delete-at-end-of-tuning")
                if ok:
                    hard_deleted.add(tid)
            else:
                st = state.get(tid)
                n_spec += 1
                cat = "never-started" if st is None else st if tid not in ended or st in ("running", "stopped") else st + "+" + ended[tid]
                bump("early:speculative-delete:" + cat)
                if after_loop_end:
                    bump("early:speculative-delete-in-on_loop_end")
                detail = {"call": i, "trial": tid, "loop_view": st, "backend_status": tr[1] if tr else None,
                          "checkpoint_present": tr[2] if tr else None, "iteration": iteration,
                          "paused_in_iteration": paused_in_iter.get(tid)}
                if st == "running":
                    out.append(loop.F("c20:early-removal-deletes-running-trial",
                                      f"checkpoint of trial {tid} removed while the trial is running (started / resumed and neither paused, "
                                      f"stopped, completed nor failed since; backend status {detail['backend_status']})", detail))
                elif st is None and tid not in removable:
                    out.append(loop.F("c20:early-removal-unexpected-delete",
                                      f"checkpoint of trial {tid} deleted, which is neither paused, stopped by the scheduler, completed / "
                                      f"failed, named removable, nor is tuning at its end (the trial was never started)", detail))
                if ok:
                    spec_deleted.add(tid)
                    if tr is not None and tr[2]:
                        bump("early:speculative-delete-removed-a-checkpoint")
        if c[:2] in (["be", "start"], ["be", "resume"]) and ok:
            tid = c[2]
            if c[1] == "resume":
                bump("early:resume")
                if paused_in_iter.get(tid) == iteration:
                    bump("early:promoted-in-the-iteration-it-paused")
                if n_spec:
                    n_resume_after_any_spec += 1
                if tid in hard_deleted:
                    out.append(loop.F("c20:resume-without-checkpoint", f"trial {tid} resumed after its checkpoint was deleted at STOP", {"call": i}))
                    expected_missing.append(tid)
                elif tid in spec_deleted:
                    bump("early:resumed-after-speculative-removal")   # the documented price of the speculation: not a finding
                    expected_missing.append(tid)
            state[tid] = "running"
            ended.pop(tid, None)
            spec_deleted.discard(tid)   # a running trial writes a checkpoint again
            hard_deleted.discard(tid)
        if c[:2] == ["be", "copy"] and (c[2] in spec_deleted or c[2] in hard_deleted):
            out.append(loop.F("c20:copy-from-deleted-checkpoint", f"new trial {c[3]} is warm-started from trial {c[2]} whose checkpoint was "
                              f"deleted before (copy_checkpoint answered {a})", {"call": i}))
        prev = c
    # the backend's truth: every resume that found no checkpoint is explained by a deletion seen in the dialogue
    missing = list(getattr(be, "resume_missing", []))
    for tid in expected_missing:
        if tid in missing:
            missing.remove(tid)
    for tid in missing:
        out.append(loop.F("c20:resume-without-checkpoint", f"the backend resumed trial {tid} without a checkpoint, and no deletion recorded in "
                          f"the dialogue since its pause explains it", {"trial": tid}))
    raised_obj = t.get("raised_obj")
    if raised_obj is not None and id(raised_obj) not in t["dlg"]._attributed:
        import traceback
        frames = traceback.extract_tb(raised_obj.__traceback__)
        if any("hyperband_remove_checkpoints" in (f.filename or "") for f in frames):
            bump("early:callback-raised:" + type(raised_obj).__name__)
    bump("early:speculative-removals", n_spec)
    bump("early:promotions-after-a-speculative-removal", n_resume_after_any_spec)
    return out, hist, n_spec > 0 and n_resume_after_any_spec > 0
