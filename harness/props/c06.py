"""C06 — suggestions are valid, typed configurations; initial points first; no repeats."""
import math
import contextlib
import io
import os
import random

import numpy as np

from streams import searcher as S
from streams.searcher import compare  # noqa: F401
from syne_tune.config_space import (
    Categorical, Domain, FiniteRange, Float, Integer, Ordinal, OrdinalNearestNeighbor, Quantized, is_log_space,
)

PID = "C06"
LEVEL = "proof"
LEAN_TARGETS = ["SyneTune.Props.C06", "SyneTune.Props.C06Restrict"]
DRIVER = "SyneTune/Drivers/Searcher.lean"
THEOREMS = [
    "SyneTune.C06.keys_types_members",
    "SyneTune.C06.keys_types_members_random",
    "SyneTune.C06.keys_types_members_grid",
    "SyneTune.C06.cast_member",
    "SyneTune.C06.explore_members",
    "SyneTune.C06.initial_first_in_order",
    "SyneTune.C06.initial_first_in_order_grid",
    "SyneTune.C06.impute",
    "SyneTune.C06.impute_members",
    "SyneTune.C06.midpoint_rule",
    "SyneTune.C06.no_repeat",
    "SyneTune.C06.no_repeat_failed",
    "SyneTune.C06.no_repeat_bo",
    "SyneTune.C06.pyeq_same_match_string",
    "SyneTune.C06.grid_once",
    "SyneTune.C06.grid_points_nodup",
    "SyneTune.C06.grid_values_nodup",
    "SyneTune.C06.shuffle_is_permutation",
    "SyneTune.C06.none_random_partial",
    "SyneTune.C06.none_only_if_exhausted_counterexample",
    # random searcher with restrict_configurations (Props/C06Restrict.lean)
    "SyneTune.C06R.in_list_iff",
    "SyneTune.C06R.constructor",
    "SyneTune.C06R.suggestions_from_list",
    "SyneTune.C06R.keys_types_members_restricted",
    "SyneTune.C06R.returned_pos_empty_between_calls",
    "SyneTune.C06R.no_repeat",
    "SyneTune.C06R.list_accounting",
    "SyneTune.C06R.none_restricted_partial",
    "SyneTune.C06R.none_when_all_excluded",
    "SyneTune.C06R.none_only_if_used_up_counterexample",
    "SyneTune.C06R.none_iff_list_used_up",
    "SyneTune.C06R.caller_list_unchanged",
    "SyneTune.C06R.caller_list_mutated_counterexample",
    "SyneTune.C06R.unrestricted_agrees",
]
TRUSTED = [
    "hand-written models lean/SyneTune/Model/{Searcher,InitialPoints,Exclusion,RandomSearcher,RandomRestrict,Grid}.lean tied to /repo by the searcher stream",
    "Python harness harness/streams/searcher.py (recording wrappers of hp_ranges.random_config, of the grid shuffle, of PBT's "
    "random_state / Domain.sample, of bo_algorithm._pick_from_locally_optimized; for restrict_configurations a per-instance proxy "
    "of the searcher's random_state recording randint, and the list object passed by the harness observed after every call)",
    "numpy RandomState.randint(low=0, high=n) returns a position below n (a recorded position outside the list is the model error 'tape')",
    "restrict_configurations: sharing of list objects is modelled by one flag (the searcher's list is / is not the caller's object); "
    "the only mutation of that list in the code is list.pop in get_config",
    "libm exp/log: the geometric mid-point of log-scaled domains and the internal grid of log-scaled finite ranges are inputs",
    "numpy RandomState: every draw is an input tape; nothing is assumed about its distribution",
    "IEEE-754 rounding: nearest-value ties within 2^-40 are free (implementation's choice adopted); PBT's float product compared up to 2^-40 relative",
]
ASSUMPTIONS = [
    "draws of the samplers are members of their domains (C07)",
    "restrict_configurations is modelled for RandomSearcher (constructor filter, retry loop over positions, _rc_returned_pos, pop, "
    "get_state / clone): Props/C06Restrict.lean; the GP searchers' use of the option (their internal random searcher and "
    "_get_random_config called outside get_config) is not modelled",
    "restrict_configurations: the entries of the caller's list are configurations of the space (hypothesis of "
    "keys_types_members_restricted); 'None exactly when the list is used up' is proved for lists with pairwise different match "
    "strings and allow_duplicates=False, otherwise the retry bound MAX_RETRIES makes it false (counterexample; known finding F8)",
    "GP searchers: the optimiser's proposals are arbitrary inputs; only the final exclusion filter and the bookkeeping are modelled",
    "the scheduler's config_space equals the searcher's up to constants",
]
RULE = ("(dehb, monitor only: no Lean model of DEHB) real GeometricDifferentialEvolutionHyperbandScheduler on small discrete / mixed "
        "spaces, own sampler and explicit searchers, 1-4 workers, driven past the first bracket: configurations of new trials valid and "
        "pairwise different; cases: (a) real RandomSearcher / GridSearcher at searcher level and inside FIFOScheduler / HyperbandScheduler "
        "(stopping, promotion, with and without max_resource_attr) on spaces generated from all public domain constructors "
        "incl. constants and single-value domains, points_to_evaluate None/[]/partial/duplicate/invalid, histories of "
        "suggest/result/fail/pending, half of the finite spaces driven to exhaustion; (a') RandomSearcher with "
        "restrict_configurations at searcher level and inside FIFOScheduler: lists of length 1, lists that are exactly the initial "
        "configurations (empty remainder from the start), lists sampled from the space with copies of initial configurations, lists with "
        "repeated entries (at most half of the list), allow_duplicates both ways, every case driven until 'None' twice or 4 rounds "
        "through the list — the model replays the recorded randint positions and is compared on output, remaining list, "
        "_rc_returned_pos and the caller's list object after every call; (b) PopulationBasedTraining histories "
        "with every _explore call replayed in the model; (c) FIFO/Hyperband with GPFIFOSearcher/GPMultiFidelitySearcher: "
        "every call of the BO loop's final exclusion filter replayed with its real proposals, state codec on live states; "
        "distinct by sha256 of the spec; non-trivial iff at least one initial and one non-initial suggestion, or exhaustion "
        "('None') reached, or an explore/bo_pick line")

INCLUDE_MISALIGNED_Q = True


# ---------------------------------------------------------------------------------
# generators


def gen_searcher_case(rng, tier):
    finite = rng.random() < 0.55
    small = finite and rng.random() < 0.7
    misaligned = INCLUDE_MISALIGNED_Q and rng.random() < 0.04
    space = S.gen_space(rng, finite=finite, small=small, misaligned=misaligned)
    cs = S.build_space(space)
    kind = rng.choice(["random", "random", "grid"])
    exhaust = finite and rng.random() < 0.7
    big = tier != "quick"
    n_ops = rng.choice([300, 600] if big else [120, 250]) if exhaust else rng.choice([10, 30, 80] if not big else [30, 80, 200])
    num_samples = {}
    for k, ctor, args, kw in space:
        if ctor in ("uniform", "loguniform", "randint", "lograndint", "quniform", "qloguniform", "reverseloguniform") and rng.random() < 0.5:
            num_samples[k] = rng.randint(1, 4)
    return {"scenario": "searcher", "space": space, "kind": kind, "p2e": S.gen_p2e(rng, cs),
            "ctor": {"allow_duplicates": rng.random() < 0.2, "random_seed": rng.randrange(1000),
                     "shuffle": rng.random() < 0.6, "num_samples": num_samples, "debug_log": False},
            "n_ops": n_ops, "seed": rng.randrange(10 ** 9), "p_fail": rng.choice([0, 0.15, 0.3]), "p_clone": 0.0,
            "sched": rng.choice([None, None, "fifo", "fifo", "hb-stopping", "hb-promotion"]),
            "max_resource_attr": rng.random() < 0.5}


def gen_pbt_case(rng, tier):
    return {"scenario": "pbt", "space": S.gen_space(rng, finite=rng.random() < 0.3), "seed": rng.randrange(10 ** 9),
            "n_events": 80 if tier == "quick" else 200, "population_size": rng.choice([2, 3, 4]),
            "resample_probability": rng.choice([0.25, 0.5, 0.0, 1.0]), "quantile_fraction": rng.choice([0.25, 0.5]),
            "p2e": None}


def gen_gp_case(rng, tier):
    finite = rng.random() < 0.6
    space = S.gen_space(rng, finite=finite, small=finite, consts=True)
    sched = rng.choice(["fifo", "fifo", "hb-stopping", "hb-promotion"])
    return {"scenario": "gp", "space": space, "seed": rng.randrange(10 ** 9),
            "sched": sched,
            "n_suggest": 10 if tier == "quick" else 16, "num_init_random": rng.choice([2, 3]),
            "num_init_candidates": rng.choice([4, 12]), "p2e": None, "p_fail": rng.choice([0, 0.15]),
            "p_nan": rng.choice([0, 0, 0.2]) if sched == "fifo" else 0, "allow_duplicates": rng.random() < 0.25}


def gen_gp_exhaust_case(rng, tier):
    """single-fidelity BO on a small finite space driven until nothing is left, with diverged (NaN / inf) and failed
    trials in between: a configuration the searcher forgets is certain to come back before 'None'"""
    from syne_tune.config_space import config_space_size
    while True:
        space = S.gen_space(rng, finite=True, small=True)
        n = config_space_size(S.build_space(space))
        if n is not None and 4 <= n <= 18:
            break
    return {"scenario": "gp", "space": space, "seed": rng.randrange(10 ** 9), "sched": "fifo",
            "n_suggest": n + 4, "num_init_random": 2, "num_init_candidates": 6, "p2e": None,
            "p_fail": rng.choice([0, 0.1]), "p_nan": rng.choice([0.15, 0.3]), "allow_duplicates": False}


def gen_cases(rng, tier):
    n_s, n_p, n_g = (260, 40, 24) if tier == "quick" else (3000, 400, 160)
    for _ in range(n_g // 2):
        yield gen_gp_exhaust_case(rng, tier)
    for _ in range(n_s):
        yield gen_searcher_case(rng, tier)
    for _ in range(n_p):
        yield gen_pbt_case(rng, tier)
    for _ in range(n_g):
        yield gen_gp_case(rng, tier)
    # (after all the others: the cases above are the same as before for a given seed)
    for i in range(36 if tier == "quick" else 400):
        yield S.gen_restricted_case(rng, i)
    # multi-fidelity BO on small finite spaces driven until nothing is left: trials move between pending and observed while
    # other trials are pending (a trial that has observations already reaches its next rung level)
    for _ in range(10 if tier == "quick" else 100):
        spec = gen_gp_exhaust_case(rng, tier)
        spec.update({"sched": rng.choice(["hb-promotion", "hb-stopping"]), "p_nan": 0, "p_burst": rng.choice([0.5, 0.8])})
        yield spec
    # DEHB on small discrete spaces, past its first bracket (configurations from mutation and crossover), with its own sampler and
    # with explicit searchers
    for i in range(9 if tier == "quick" else 90):
        yield {"scenario": "dehb", "sched_seed": rng.randrange(10 ** 6), "seed": rng.randrange(10 ** 9),
               "cs_kind": rng.choice(["finite", "finite", "finite2", "mixed"]), "max_t": 9, "n_workers": rng.randint(1, 4),
               "max_events": 260, "style": "distinct", "p_fail": 0,
               "extra": {"brackets": rng.choice([None, 2, 3]), "searcher": [None, "random", "random"][i % 3]}}
    # BO with more initial configurations than num_init_random and results arriving while they are handed out: all of them
    # come first, in order, also once the searcher has data and would otherwise switch to its model
    for _ in range(8 if tier == "quick" else 80):
        space = S.gen_space(rng, finite=False, small=False, consts=False)
        cs = S.build_space(space)
        s0 = S.RandomSearcher(dict(cs), metric=S.METRIC, points_to_evaluate=[], random_seed=rng.randrange(1000), allow_duplicates=True)
        p2e = [S._plain(s0.get_config()) for _ in range(rng.randint(4, 7))]
        yield {"scenario": "gp", "space": space, "seed": rng.randrange(10 ** 9), "sched": rng.choice(["fifo", "fifo", "hb-promotion"]),
               "n_suggest": len(p2e) + 4, "num_init_random": 2, "num_init_candidates": 4, "p2e": p2e, "p_fail": 0, "p_nan": 0,
               "allow_duplicates": False}
    # BO on continuous spaces whose optimiser proposals lie on the faces of the unit cube (where expected improvement often has
    # its maximum): bounds of log-scaled / linear domains that exp(log(.)) / the affine map do not reproduce exactly
    bad = [["loguniform", [1e-4, 1e-1]], ["loguniform", [1e-5, 0.1]], ["loguniform", [1e-6, 1e-2]], ["loguniform", [1e-3, 10.0]],
           ["uniform", [0.1, 0.3]], ["reverseloguniform", [0.5, 0.99]], ["loguniform", [0.001, 0.25]], ["uniform", [-1.1, 2.3]]]
    for _ in range(8 if tier == "quick" else 80):
        names = ["lr", "wd", "mom"]
        space = [[names[j], k, list(a), {}] for j, (k, a) in enumerate(rng.sample(bad, rng.randint(1, 3)))]
        yield {"scenario": "gp", "space": space, "seed": rng.randrange(10 ** 9), "sched": rng.choice(["fifo", "hb-promotion"]),
               "n_suggest": 10, "num_init_random": 2, "num_init_candidates": 4, "p2e": None, "p_fail": 0, "p_nan": 0,
               "allow_duplicates": False, "p_face": 0.8}


def corpus():
    import json
    p = os.path.join(os.path.dirname(__file__), "..", "corpus", "c06.json")
    cases = json.load(open(p)) if os.path.exists(p) else []
    # F8: the real RandomSearcher on randint(0, 49) says "nothing left" after 49 of 50 configurations
    for seed in (9, 11):
        cases.append({"scenario": "searcher", "space": [["x", "randint", [0, 49], {}]], "kind": "random", "p2e": [],
                      "ctor": {"allow_duplicates": False, "random_seed": seed, "shuffle": False, "num_samples": {}, "debug_log": False},
                      "n_ops": 120, "seed": 1, "p_fail": 0, "p_clone": 0.0, "sched": None, "max_resource_attr": False})
    # C06R.none_only_if_used_up_counterexample on the real code: 40 copies of x=0 and one x=1 in the list; after x=0 has been
    # suggested the 39 remaining copies are excluded and 100 draws miss x=1 ('None' although x=1 was never suggested)
    for seed in (6, 9):
        cases.append({"scenario": "searcher", "space": [["x", "randint", [0, 3], {}]], "kind": "random", "p2e": [],
                      "ctor": {"allow_duplicates": False, "random_seed": seed, "shuffle": False, "num_samples": {}, "debug_log": False,
                               "restrict": [{"x": 0}] * 40 + [{"x": 1}]},
                      "n_ops": 8, "seed": 1, "p_fail": 0, "p_clone": 0.0, "sched": None, "max_resource_attr": False})
    # initial configurations outside / inside the list, the only list entry is an initial configuration (remainder empty at once)
    cases.append({"scenario": "searcher", "space": [["x", "randint", [0, 9], {}], ["y", "choice", [["a", "b"]], {}]], "kind": "random",
                  "p2e": [{"x": 3, "y": "a"}, {"x": 4, "y": "b"}],
                  "ctor": {"allow_duplicates": False, "random_seed": 3, "shuffle": False, "num_samples": {}, "debug_log": False,
                           "restrict": [{"x": 4, "y": "b"}]},
                  "n_ops": 8, "seed": 2, "p_fail": 0, "p_clone": 0.0, "sched": None, "max_resource_attr": False})
    return cases


# ---------------------------------------------------------------------------------
# monitor: direct reading of C06 on the implementation trace


def _is_quantized(dom):
    return isinstance(getattr(dom, "sampler", None), Quantized)


def check_config(cs, cfg, level, exempt=()):
    """all keys, constants unchanged, every value of the domain's type and inside the domain"""
    out = []
    for k, dom in cs.items():
        if k not in cfg:
            if isinstance(dom, Domain) or level == "scheduler":
                out.append(("c06:missing-key", f"suggested configuration lacks key {k!r}"))
            continue
        v = cfg[k]
        if isinstance(dom, Domain):
            tp = dom.value_type
            if level == "scheduler":
                if type(v) is not tp:
                    out.append(("c06:wrong-type", f"{k}={v!r} has type {type(v).__name__}, domain type is {tp.__name__}"))
                    continue
            elif not isinstance(v, (tp, np.generic)) and not (tp is float and isinstance(v, int)):
                out.append(("c06:wrong-type", f"{k}={v!r} has type {type(v).__name__}, domain type is {tp.__name__}"))
                continue
            if not S.is_valid(dom, v):
                sig = "c06:quantized-sample-outside-domain" if _is_quantized(dom) else "c06:value-outside-domain"
                out.append((sig, f"{k}={v!r} is not a member of {dom!r}"))
        elif k not in exempt and level == "scheduler":
            if type(v) is not type(dom) or v != dom:
                out.append(("c06:constant-changed", f"constant {k}={dom!r} suggested as {v!r}"))
    return out


def _near(a, b):
    return abs(a - b) <= 1e-9 * max(1.0, abs(a), abs(b))


def default_set(dom, impl_choice=None):
    """values the mid-point rule allows for a missing entry.  Where the rule's nearest-value
    step is a tie up to round-off both neighbours are allowed, and the implementation's own
    (deterministic) choice among them is taken."""
    if isinstance(dom, Categorical) and not isinstance(dom, Ordinal):
        return [dom.categories[0]]
    if isinstance(dom, Ordinal) and not isinstance(dom, OrdinalNearestNeighbor):
        return [dom.categories[len(dom.categories) // 2]]
    if isinstance(dom, OrdinalNearestNeighbor):
        lower, upper = float(dom.categories[0]), float(dom.categories[-1])
    else:
        lower, upper = float(dom.lower), float(dom.upper)
    log = is_log_space(dom)
    mid = math.exp(0.5 * (math.log(upper) + math.log(lower))) if log else 0.5 * (upper + lower)
    if isinstance(dom, Float):
        return ("float", min(max(mid, lower), upper))
    if isinstance(dom, Integer):
        return [min(max(int(round(mid)), dom.lower), dom.upper)]
    if isinstance(dom, FiniteRange):
        n = len(dom)
        if n == 1:
            return [dom.values[0]]
        # equally spaced internal grid (before any rounding to int)
        if log:
            grid = [math.log(lower) + k * (math.log(upper) - math.log(lower)) / (n - 1) for k in range(n)]
            m = math.log(mid)
        else:
            grid = [lower + k * (upper - lower) / (n - 1) for k in range(n)]
            m = mid
        cand = list(dom.values)
    else:
        cand = list(dom.categories)
        grid = [math.log(c) for c in cand] if log else [float(c) for c in cand]
        m = math.log(mid) if log else mid
    best = min(abs(g - m) for g in grid)
    allowed = [c for c, g in zip(cand, grid) if abs(g - m) <= best + 1e-9 * max(1.0, abs(m))]
    if len(set(allowed)) > 1 and impl_choice is not None and any(impl_choice == a for a in allowed):
        return [impl_choice]
    return allowed


def expected_initial(cs, p2e):
    """[{key: acceptable values}] per point after mid-point imputation (duplicates not yet removed)"""
    pts = [dict()] if p2e is None else p2e
    out = []
    try:
        impl_dflt = S.impute_points_to_evaluate([dict()], cs)[0]
    except Exception:
        impl_dflt = {}
    for p in pts:
        exp = {}
        for k, dom in cs.items():
            if isinstance(dom, Domain):
                exp[k] = [p[k]] if k in p else default_set(dom, impl_dflt.get(k))
        out.append(exp)
    return out


def _matches(exp, cfg):
    for k, allowed in exp.items():
        if k not in cfg:
            return False
        v = cfg[k]
        if isinstance(allowed, tuple):
            if not _near(float(v), allowed[1]):
                return False
        elif not any(v == a for a in allowed):
            return False
    return True


def monitor(spec, t):
    out = []
    events = t["events"]
    cs = t["cs"]          # configuration space of the scheduler (or of the searcher)
    hp_cs = t.get("hp_cs", cs)
    allow_dup = (spec.get("ctor") or {}).get("allow_duplicates", spec.get("allow_duplicates", False))
    exempt = (S.MAXATTR,) if (spec.get("max_resource_attr") and spec.get("sched") == "hb-promotion") else ()

    def add(sig, what, detail=None):
        out.append({"signature": sig, "what": what, "detail": detail})

    sugg = [e for e in events if e["ev"] == "suggest"]
    restrict = (spec.get("ctor") or {}).get("restrict") if spec["scenario"] == "searcher" else None
    hp_only = [k for k, d in hp_cs.items() if isinstance(d, Domain)]

    def on_hp(c):
        return {k: c[k] for k in hp_only if k in c}

    # 0. restrict_configurations: only configurations of the caller's list are suggested, and the list object the
    #    caller passed is never changed
    if restrict is not None:
        allowed = [on_hp(c) for c in restrict]
        for i, e in enumerate(sugg):
            if on_hp(e["config"]) not in allowed:
                add("c06:restricted-suggestion-outside-list",
                    f"suggestion #{i} {on_hp(e['config'])!r} is not in restrict_configurations", {"list": repr(restrict)})
                break
        for e in events:
            if e["ev"] == "caller-list" and e["list"] != restrict:
                add("c06:restrict-configurations-caller-list-mutated",
                    f"after {e['when']} the list object passed as restrict_configurations holds {len(e['list'])} entries "
                    f"{e['list']!r}; the caller passed {len(restrict)}: {restrict!r}")
                break
    # 1. validity / types / constants
    for e in sugg:
        for sig, what in check_config(cs if e["level"] == "scheduler" else hp_cs, e["config"], e["level"], exempt):
            add(sig, f"trial {e['trial']}: {what}", {"config": repr(e["config"])})
    # ... also the configuration a scheduler attaches to the resume of a paused trial (promotion with max_resource_attr)
    for e in events:
        if e["ev"] == "resume" and e.get("config") is not None:
            for sig, what in check_config(cs, dict(e["config"]), "scheduler", exempt):
                add(sig, f"resume of trial {e['trial']}: {what}", {"config": repr(e["config"])})
    for e in events:
        if e["ev"] == "explore":
            for k, dom in hp_cs.items():
                if isinstance(dom, Domain) and not S.is_valid(dom, e["new"][k]):
                    sig = "c06:quantized-sample-outside-domain" if _is_quantized(dom) else "c06:pbt-explore-outside-domain"
                    add(sig, f"PBT _explore produced {k}={e['new'][k]!r} outside {dom!r}", {"old": repr(e["old"])})
        if e["ev"] == "bo_pick":
            for c in e["result"]:
                for sig, what in check_config(hp_cs, c, "searcher"):
                    add(sig, "BO loop returned " + what, {"config": repr(c)})
    # 2. initial configurations first, in order
    if (spec["scenario"] == "searcher" or (spec["scenario"] == "gp" and spec.get("p2e"))) and not any(e["ev"] == "ctor-error" for e in events):
        try:
            exp = expected_initial(hp_cs, spec["p2e"])
        except Exception:  # a value the rule cannot be read on (invalid point rejected by the constructor)
            exp = None
        n_init = 0
        if exp is not None and restrict is not None:
            # initial configurations that are not in the list are dropped
            exp = [ex for ex in exp if any(_matches(ex, c) for c in restrict)]
        if exp is not None:
            # a point whose imputed configuration equals an earlier one is dropped; the others
            # are the first suggestions, in the given order
            for ex in exp:
                if any(_matches(ex, sugg[j]["config"]) for j in range(min(n_init, len(sugg)))):
                    continue
                if n_init >= len(sugg):
                    break
                if not _matches(ex, sugg[n_init]["config"]):
                    add("c06:initial-points-not-first",
                        f"suggestion #{n_init} is {sugg[n_init]['config']!r}, expected initial configuration {ex!r}")
                    break
                n_init += 1
    else:
        n_init = 0
    # 3a'. the exclusion list handed to the final pick holds every configuration suggested so far (each is pending, observed or
    #      failed): it never has fewer entries than there are distinct suggestions (no repeats promised)
    if spec["scenario"] == "gp" and not spec.get("allow_duplicates"):
        hp_keys_x = [k for k, d in hp_cs.items() if isinstance(d, Domain)]
        distinct_sugg = []
        for e in events:
            if e["ev"] == "suggest":
                c = {k: e["config"][k] for k in hp_keys_x}
                if c not in distinct_sugg:
                    distinct_sugg.append(c)
            elif e["ev"] == "bo_pick" and len(set(e["excl"])) < len(distinct_sugg):
                add("c06:exclusion-list-misses-suggested-config",
                    f"the exclusion list of a model-based get_config has {len(set(e['excl']))} entries although {len(distinct_sugg)} different "
                    f"configurations have been suggested (each of them is pending, observed or failed)", {"excl": e["excl"]})
                break
    # 3a. the model-based searchers exclude failed configurations whether or not duplicates are allowed
    #     ("even if allow_duplicates == True, we exclude configs which are pending or failed")
    if spec["scenario"] == "gp":
        hp_keys_f = [k for k, d in hp_cs.items() if isinstance(d, Domain)]
        cfg_of, failed_cfgs = {}, []
        for e in events:
            if e["ev"] == "suggest":
                c = {k: e["config"][k] for k in hp_keys_f}
                hit = next((tid for tid, fc in failed_cfgs if fc == c), None)
                if hit is not None:
                    add("c06:failed-config-suggested-again",
                        f"trial {e['trial']} is given the configuration {c!r} of trial {hit}, which had failed before "
                        f"(allow_duplicates={allow_dup})")
                    break
                cfg_of[e["trial"]] = c
            elif e["ev"] == "failed" and e["trial"] in cfg_of:
                failed_cfgs.append((e["trial"], cfg_of[e["trial"]]))
    # 3. non-repetition
    if not allow_dup and spec["scenario"] in ("searcher", "gp"):
        hp_keys = [k for k, d in hp_cs.items() if isinstance(d, Domain)]
        ms_of = None
        sr = t.get("searcher") or (t["sched"].searcher if t.get("sched") is not None else None)
        hpr = getattr(sr, "_hp_ranges", None) or getattr(sr, "hp_ranges", None)
        seen_cfg, seen_ms = [], set()
        dup_values = any(isinstance(d, FiniteRange) and len(set(d.values)) < len(d.values) for d in hp_cs.values())
        grid_dup = spec.get("kind") == "grid" and dup_values
        for i, e in enumerate(sugg):
            c = {k: e["config"][k] for k in hp_keys}
            ms = hpr.config_to_match_string(c) if hpr is not None else None
            for j, (c0, ms0) in enumerate(seen_cfg):
                if c0 == c:
                    if ms0 != ms:
                        add("c06:negative-zero-repeat", f"suggestion #{i} {c!r} equals suggestion #{j} {c0!r} (match strings {ms0!r} / {ms!r} differ)")
                    elif grid_dup:
                        add("c06:grid-repeats-duplicate-finrange-values",
                            f"grid suggestion #{i} {c!r} equals suggestion #{j}: a FiniteRange(cast_int) domain lists a value twice")
                    else:
                        add("c06:repeated-suggestion", f"suggestion #{i} {c!r} equals earlier suggestion #{j}")
                    break
            else:
                if i >= n_init and ms is not None and ms in seen_ms:
                    add("c06:repeated-match-string", f"suggestion #{i} {c!r} has the match string of an earlier suggestion")
            seen_cfg.append((c, ms))
            seen_ms.add(ms)
        # 4. 'None' only when a finite space is used up; grid: every grid point exactly once
        if any(e["ev"] == "none" for e in events):
            distinct = []
            for c, _ in seen_cfg:
                if c not in distinct:
                    distinct.append(c)
            init_ev = next((e for e in events if e["ev"] == "init"), None)
            if spec.get("kind") == "grid" and init_ev is not None:
                keys = init_ev["hp_keys"]
                want = [dict(c) for c in init_ev["init"]]
                init_ms = {hpr.config_to_match_string(c) for c in want}
                for tpl in init_ev["grid"]:
                    g = {k: v for k, v in zip(keys, tpl) if k in hp_keys}
                    # a grid point (approximately) equal to an initial configuration is not due again
                    if hpr.config_to_match_string(g) not in init_ms and g not in want:
                        want.append(g)
                got = [c for c, _ in seen_cfg]
                missing = [g for g in want if g not in got]
                if missing:
                    add("c06:grid-point-skipped", f"grid searcher said 'nothing left' without suggesting {missing[0]!r}")
                if len(got) != len(distinct) and not grid_dup:
                    add("c06:grid-point-twice", "grid searcher suggested a configuration twice")
                full = S.true_space_size(hp_cs)
                if full is not None and all(not isinstance(d, (Integer, Float)) or len(d) == 1 for d in hp_cs.values() if isinstance(d, Domain)):
                    if len(distinct) != full:
                        add("c06:grid-none-before-exhaustion", f"discrete space has {full} configurations, grid search stopped after {len(distinct)}")
            elif restrict is not None:
                # 'nothing left' only when every configuration of the list has been suggested
                n_before, n_draws = 0, 0
                for e in events:
                    if e["ev"] == "suggest":
                        n_before += 1
                    elif e["ev"] == "none":
                        n_draws = e.get("n_draws", 0)
                        break
                got = [c for c, _ in seen_cfg[:n_before]]
                missing = [c for c in (on_hp(c) for c in restrict) if c not in got]
                if missing:
                    # the retry loop giving up after MAX_RETRIES excluded draws is the known F8 (same loop bound as the
                    # unrestricted searcher: C06R.none_only_if_used_up_counterexample); anything else is new
                    gave_up = n_draws >= S.MAX_RETRIES
                    add("c06:random-none-before-exhaustion" if gave_up else "c06:restricted-none-before-list-used-up",
                        f"restrict_configurations: 'nothing left' after {n_before} suggestions ({n_draws} draws) although "
                        f"{missing[0]!r} of the list was never suggested")
            else:
                # configurations suggested BEFORE the first 'nothing left' (a later call may still find one)
                n_before = 0
                for e in events:
                    if e["ev"] == "suggest":
                        n_before += 1
                    elif e["ev"] == "none":
                        break
                distinct = []
                for c, _ in seen_cfg[:n_before]:
                    if c not in distinct:
                        distinct.append(c)
                full = S.true_space_size(hp_cs)
                if full is not None and len(distinct) < full:
                    who = "random" if spec["scenario"] == "searcher" else "bo"
                    add(f"c06:{who}-none-before-exhaustion",
                        f"'nothing left' after {len(distinct)} of {full} configurations of a finite space")
    return out


# ---------------------------------------------------------------------------------


def run_dehb(spec):
    """DEHB (monitor only, no model): every configuration of a NEW trial is valid and differs from the configuration of every
    earlier new trial - DEHB keeps its own exclusion list for the configurations it draws and for the offspring of mutation and
    crossover, whichever searcher provides the initial population"""
    import json as _json
    from streams import generic as g
    cs = g.config_space(spec["cs_kind"], spec["max_t"])
    with contextlib.redirect_stdout(io.StringIO()):
        sch = g.make_scheduler("dehb", "min", spec["sched_seed"], spec["cs_kind"], spec["max_t"], spec["extra"])
        ev = g.drive(sch, dict(spec, name="dehb"))
    mon, seen, n_new = [], {}, 0
    hp_keys = [k for k, d in cs.items() if isinstance(d, Domain)]
    for e in ev:
        if e[:2] == ["suggest", "start"]:
            n_new += 1
            cfg = {k: v for k, v in (e[4] or {}).items() if k in hp_keys}
            key = _json.dumps(cfg, sort_keys=True, default=str)
            if key in seen and not mon:
                mon.append({"signature": "c06:dehb-repeated-configuration",
                            "what": f"DEHB (searcher={spec['extra'].get('searcher') or 'own sampler'}): new trial {e[2]} is given the configuration "
                                    f"{cfg!r} of trial {seen[key]}", "detail": {"config": cfg}})
            seen.setdefault(key, e[2])
    brackets_reached = len([1 for e in ev if e[:2] == ["suggest", "resume"]]) > 0
    return {"lines": [], "monitor": mon, "meta": {"hist": {"scenario:dehb": 1, "dehb:new-trials": n_new,
                                                           "dehb:searcher=" + str(spec["extra"].get("searcher") or "own"): 1},
                                                    "nontrivial": n_new >= 8 and brackets_reached}}


def run_impl(spec):
    sc = spec["scenario"]
    if sc == "dehb":
        return run_dehb(spec)
    if sc == "searcher":
        t = S.run_searcher_scenario(spec)
    elif sc == "pbt":
        t = S.run_pbt_scenario(spec)
    else:
        t = S.run_gp_scenario(spec)
    mon = monitor(spec, t)
    ev = t["events"]
    sugg = [e for e in ev if e["ev"] == "suggest"]
    hist = {"scenario:" + sc + (":" + str(spec.get("kind")) if sc == "searcher" else ""): 1,
            "suggestions": len(sugg), "none": sum(1 for e in ev if e["ev"] == "none"),
            "failed": sum(1 for e in ev if e["ev"] == "failed"),
            "ctor-error": sum(1 for e in ev if e["ev"] == "ctor-error"),
            "explore": sum(1 for e in ev if e["ev"] == "explore"),
            "bo_pick": sum(1 for e in ev if e["ev"] == "bo_pick"),
            "bo_pick:fallback-or-skip": sum(1 for e in ev if e["ev"] == "bo_pick" and e["pairs"] and e["result"] != [e["pairs"][0][1]]),
            "codec": sum(1 for e in ev if e["ev"] == "codec"),
            "retry-draws": sum(max(0, len(l[0].get("draws", [])) - 1) for l in t["lines"] if isinstance(l[0].get("draws"), list)),
            "sched:" + str(spec.get("sched")): 1}
    rst = (spec.get("ctor") or {}).get("restrict") if sc == "searcher" else None
    if rst is not None:
        init_ev = next((e for e in ev if e["ev"] == "init"), None)
        cl = [e for e in ev if e["ev"] == "caller-list"]
        idr = [l[0]["idraws"] for l in t["lines"] if isinstance(l[0].get("idraws"), list)]
        hist.update({"restricted": 1, "restricted:allow_duplicates=" + str(bool(spec["ctor"].get("allow_duplicates"))): 1,
                     "restricted:list-of-length-1": int(len(rst) == 1),
                     "restricted:list-with-duplicates": int(any(rst[i] == rst[j] for i in range(len(rst)) for j in range(i))),
                     "restricted:initial-configs-in-list": len(init_ev["init"]) if init_ev else 0,
                     "restricted:remainder-empty-at-start": int(bool(cl) and cl[0]["remaining"] == []),
                     "restricted:remainder-emptied": int(any(e["remaining"] == [] for e in cl)),
                     "restricted:driven-past-exhaustion": int(hist["none"] > 0),
                     "restricted:index-draws": sum(len(d) for d in idr),
                     "restricted:retry-index-draws": sum(max(0, len(d) - 1) for d in idr)})
    n_init = len(next((e["init"] for e in ev if e["ev"] == "init"), []))
    nontriv = bool((n_init >= 1 and len(sugg) > n_init) or hist["none"] or hist["explore"] or hist["bo_pick"])
    return {"lines": t["lines"], "monitor": mon, "meta": {"hist": hist, "nontrivial": nontriv}}


def nontrivial(trace):
    return bool(trace.get("meta", {}).get("nontrivial"))
