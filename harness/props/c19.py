"""C19 — Multi-objective ranking is Pareto-consistent and MOASHA follows it."""
import json
import os
from fractions import Fraction

from streams import pareto as ps
from framework import default_compare

PID = "C19"
LEVEL = "proof"
LEAN_TARGETS = ["SyneTune.Props.C19"]
DRIVER = "SyneTune/Drivers/Pareto.lean"
THEOREMS = [
    "SyneTune.C19.dominates_irrefl",
    "SyneTune.C19.dominates_trans",
    "SyneTune.C19.pareto",
    "SyneTune.C19.pareto_front_nonempty",
    "SyneTune.C19.sort_total",
    "SyneTune.C19.sort_index_error",
    "SyneTune.C19.sort_perm",
    "SyneTune.C19.sort_prefix",
    "SyneTune.C19.layers",
    "SyneTune.C19.layers_order",
    "SyneTune.C19.dominated_later",
    "SyneTune.C19.tape_oracle_contract",
    "SyneTune.C19.priority_is_position",
    "SyneTune.C19.priority_layers",
    "SyneTune.C19.priority_dominates",
    "SyneTune.C19.searchsorted_counts_smaller",
    "SyneTune.C19.rank_cmp_forced",
    "SyneTune.C19.moasha_rule",
    "SyneTune.C19.moasha_first_continues",
    "SyneTune.C19.moasha_off_milestone",
    "SyneTune.C19.moasha_once_per_rung",
    "SyneTune.C19.moasha_stop_at_max",
    "SyneTune.C19.moasha_result_uses_bracket",
    "SyneTune.C19.moasha_nds_layers",
    "SyneTune.C19.moasha_nds_rank_bounds",
]
TRUSTED = [
    "hand-written models lean/SyneTune/Model/{Pareto,Moasha}.lean tied to /repo by the pareto / moasha correspondence streams",
    "Python harness harness/streams/pareto.py (recording wrapper of compute_epsilon_net, recording subclass of the priority, scripted trials)",
    "compute_epsilon_net is an oracle of the model (its return value is an input; contract: a permutation of range(len(front)), checked on every recorded value)",
    "IEEE-754 division is correctly rounded: count/n and 1/rf with equal exact values are equal doubles; a difference below 2^-40 relative is 'free'",
]
ASSUMPTIONS = [
    "objective values are finite floats (no NaN/inf); 2-d arrays are rectangular",
    "max_items / max_num_samples is None or >= 0; dim is None or a valid column index",
    "time_attr values are non-negative integers; every reported result contains all metrics",
    "the bracket index drawn in on_trial_add from numpy's global generator is an input of the model",
    "rung milestones of each bracket are read from the real _Bracket objects (float log/pow in the constructor)",
]
RULE = ("point-set cases: N in 0..14 (thorough 0..40) points of dimension 1..5 on small integer grids, duplicate pools, "
        "constant sets, chains, antichains, negative values and general-position doubles; every case runs "
        "pareto_efficient, nondominated_sort for several (dim, max_items, flatten) incl. dim=None and max_items=0, "
        "NonDominatedPriority and FixedObjectivePriority; non-trivial iff the mask has both values. "
        "MOASHA cases: real MOASHA with reduction factor 2,3,4 (int), 2.0,2.5,1.5,1.1 (float), 1-4 brackets (draw recorded), "
        "1-3 metrics with per-metric modes, priorities NonDominated(dim 0/1/None, max_num_samples)/Fixed/LinearScalarization, "
        "1-6 concurrent scripted trials, metrics on grids (ties) or general, optional skipped iterations, early "
        "completion and late reports; non-trivial iff at least one STOP below max_t at a rung holding >= 2 entries")


# ---------------------------------------------------------------------------------
# generators


def gen_points_spec(rng, tier):
    big = tier == "thorough"
    d = rng.choice([1, 2, 2, 2, 3, 3, 4, 5])
    n = rng.choice([0, 1, 2, 3, 4, 5, 6, 6, 7, 8, 8, 9, 10, 12, 12, 14]) if not big else rng.choice([0, 1, 2, 3, 5, 6, 8, 10, 12, 16, 20, 30, 40])
    combos = []
    dims = [None] + list(range(d)) + [-1]
    for _ in range(rng.choice([2, 3, 4])):
        mx = rng.choice([None, None, None, None, 0, 1, 1, 2, 3, max(1, n // 2), n, n + 2])
        combos.append([rng.choice(dims), mx, rng.random() < 0.6])
    return {"kind": "points", "seed": rng.randrange(10 ** 9), "n": n, "d": d, "style": rng.choice(ps.STYLES), "combos": combos}


def gen_moasha_spec(rng, tier):
    big = tier == "thorough"
    k = rng.choice([1, 2, 2, 2, 3])
    mode = rng.choice(["min", "max", "list", "list"])
    if mode == "list":
        mode = [rng.choice(["min", "max"]) for _ in range(k)]
    pk = rng.choice(["nds"] * 5 + ["fixed", "linear"])
    if pk == "nds":
        pr = {"kind": "nds", "dim": rng.choice([0, 0, 0, k - 1, None]),
              "max_num_samples": rng.choice([None, None, None, None, 1, 2, 4])}
    elif pk == "fixed":
        pr = {"kind": "fixed", "dim": rng.choice([None, 0, k - 1])}
    else:
        pr = {"kind": "linear", "weights": rng.choice([None, [rng.choice([0.25, 0.5, 1.0, 2.0]) for _ in range(k)]])}
    rf, rf_int = rng.choice([("2", True), ("3", True), ("3", True), ("4", True), ("2", False), ("5/2", False),
                             ("3/2", False), (str(Fraction(1.1)), False)])
    grace = rng.choice([1, 1, 1, 2, 3])
    max_t = rng.choice([grace, grace + 2, 9, 10, 16, 27])
    return {"kind": "moasha", "seed": rng.randrange(10 ** 9), "max_t": max_t, "grace_period": grace, "rf": rf,
            "rf_int": rf_int, "brackets": rng.choice([1, 1, 2, 3, 4]), "mode": mode, "k": k, "priority": pr,
            "n_workers": rng.randint(1, 6), "max_events": rng.choice([40, 80, 150]) if not big else rng.choice([80, 200, 400]),
            "style": rng.choice(["grid", "grid", "general", "general", "tradeoff", "const"]),
            "p_jump": rng.choice([0, 0, 0, 0.3]), "p_late": rng.choice([0, 0, 0.1]), "p_short": rng.choice([0, 0, 0.3])}


def gen_cases(rng, tier):
    n_pts, n_mo = (240, 100) if tier == "quick" else (2500, 700)
    for _ in range(n_pts):
        yield gen_points_spec(rng, tier)
    for _ in range(n_mo):
        yield gen_moasha_spec(rng, tier)


def corpus():
    p = os.path.join(os.path.dirname(__file__), "..", "corpus", "c19.json")
    base = json.load(open(p)) if os.path.exists(p) else []
    # the F13 witness (3,3),(1,1),(4,4),(2,2) with rf=3 and a rung where count/n == 1/rf exactly
    return base + [
        {"kind": "f13"},
        {"kind": "moasha", "seed": 5, "max_t": 9, "grace_period": 1, "rf": "3", "rf_int": True, "brackets": 1, "mode": "min",
         "k": 2, "priority": {"kind": "nds", "dim": 0, "max_num_samples": None}, "n_workers": 6, "max_events": 60,
         "style": "tradeoff", "p_jump": 0, "p_late": 0, "p_short": 0},
        {"kind": "moasha", "seed": 11, "max_t": 10, "grace_period": 1, "rf": str(Fraction(1.1)), "rf_int": False, "brackets": 1,
         "mode": ["max", "min"], "k": 2, "priority": {"kind": "fixed", "dim": 0}, "n_workers": 6, "max_events": 150,
         "style": "general", "p_jump": 0, "p_late": 0, "p_short": 0},
        # rf = 1.1 (a double): the 11th entry with 10 better ones has 10/11 > 1/1.1 exactly but not in
        # floating point -> a 'free' comparison (the model follows the implementation)
        {"kind": "moasha", "seed": 3, "max_t": 4, "grace_period": 1, "rf": str(Fraction(1.1)), "rf_int": False, "brackets": 1,
         "mode": "min", "k": 2, "priority": {"kind": "nds", "dim": 0, "max_num_samples": None}, "n_workers": 1, "max_events": 120,
         "style": "worsening", "p_jump": 0, "p_late": 0, "p_short": 0},
    ]


# ---------------------------------------------------------------------------------
# monitors: direct reading of the property on the real outputs


def F(s):
    return Fraction(s)


def monitor_points(events):
    out = []
    for ev in events:
        P = ev.get("P")
        if ev["ev"] == "pareto":
            want = ps.brute_mask(P)
            if want != ev["mask"]:
                out.append({"signature": "c19:pareto-mask", "what": f"pareto_efficient marks {ev['mask']} but the non-dominated points are {want}", "detail": ev})
        elif ev["ev"] == "pareto-error":
            out.append({"signature": "c19:pareto-raised", "what": f"pareto_efficient raised {ev['err']}", "detail": ev})
        elif ev["ev"] in ("nds-error", "priority-error"):
            mx = ev.get("max_items", ev.get("max_num_samples"))
            # the only documented-by-code failure: indices[-1] on an empty list (max_items given, nothing sorted)
            if not (mx is not None and (mx == 0 or len(P) == 0) and ev["err"] == "index-error"):
                out.append({"signature": "c19:sort-raised", "what":
                            f"{ev['ev']}: {ev['err']} for {len(P)} points, dim={ev['dim']}, max_items={mx}", "detail": ev})
        elif ev["ev"] == "nds":
            n = len(P)
            lay = ps.brute_layers(P)
            res, mx = ev["result"], ev["max_items"]
            flat = res if ev["flatten"] else [i for l in res for i in l]
            if len(set(flat)) != len(flat) or any(not (0 <= i < n) for i in flat):
                out.append({"signature": "c19:sort-not-permutation", "what": f"nondominated_sort returned {flat}: repeated or invalid index", "detail": ev})
                continue
            if mx is None and sorted(flat) != list(range(n)):
                out.append({"signature": "c19:sort-not-permutation", "what": f"nondominated_sort returned {flat}, not every index of {n} once", "detail": ev})
            if mx is not None and len(flat) != min(mx, n):
                out.append({"signature": "c19:sort-not-prefix", "what": f"max_items={mx}, n={n}: {len(flat)} items returned", "detail": ev})
            ls = [lay[i] for i in flat]
            if any(a > b for a, b in zip(ls, ls[1:])):
                out.append({"signature": "c19:layer-order", "what": f"sort {flat} has Pareto layers {ls}: a later layer precedes an earlier one", "detail": ev})
            # a prefix: all of the earlier layers are present before the last (possibly cut) layer
            if flat:
                last = ls[-1]
                missing = [i for i in range(n) if lay[i] < last and i not in flat]
                if missing:
                    out.append({"signature": "c19:sort-not-prefix", "what": f"indices {missing} of earlier layers missing from {flat}", "detail": ev})
            if not ev["flatten"]:
                for t, l in enumerate(res):
                    if any(lay[i] != t for i in l):
                        out.append({"signature": "c19:layer-content", "what": f"list {t} of the unflattened sort is {l}, layers {[lay[i] for i in l]}", "detail": ev})
                        break
        elif ev["ev"] == "priority":
            n = len(P)
            lay = ps.brute_layers(P)
            p, mx = ev["priorities"], ev["max_num_samples"]
            if len(p) != n:
                out.append({"signature": sort_order_signature(p, lay) if len(p) == n else "c19:priority-not-position",
                            "what": f"{len(p)} priorities returned for {n} samples: {p}", "detail": ev})
                continue
            listed =[i for i in range(n) if p[i] < (n if mx is None else min(mx, n))]
            m = len(listed)
            if sorted(p[i] for i in listed) != list(range(m)) or (mx is None and m != n) or any(p[i] != m for i in range(n) if i not in listed):
                out.append({"signature": "c19:priority-not-position", "what": f"priorities {p} are not positions 0..{m - 1} (+ {m} for unlisted)", "detail": ev})
                continue
            bad = [(a, b) for a in listed for b in range(n) if lay[a] < lay[b] and not p[a] < p[b]]
            bad += [(a, b) for a in range(n) for b in listed if lay[a] < lay[b] and not p[a] < p[b]]
            if bad:
                out.append({"signature": sort_order_signature(p, lay), "what": f"priorities {p} vs Pareto layers {lay}: pairs {bad[:3]} out of order", "detail": ev})
    return out


def sort_order_signature(p, lay):
    """F13 fingerprint: the vector read as an ORDER (list of indices) walks the layers in order"""
    try:
        ls = [lay[int(i)] for i in p]
        if sorted(int(i) for i in p) == list(range(len(p))) and all(a <= b for a, b in zip(ls, ls[1:])):
            return "c19:moasha-priority-is-sort-order"
    except Exception:  # noqa
        pass
    return "c19:priority-not-pareto-consistent"


TOL = Fraction(1, 2 ** 40)


def rank_verdict(count, n, rf):
    """'stop' / 'continue' / None (within round-off) for the rule rank/n > 1/rf"""
    a, b = Fraction(count, n), 1 / rf
    if a == b:
        return "continue"
    if abs(a - b) <= TOL * max(1, a, b):
        return None
    return "stop" if a > b else "continue"


def monitor_moasha(spec, t):
    out = []
    rf, max_t = t["rf"], t["max_t"]
    # the rung levels of bracket s are grace_period * rf^(k+s) for k = 0 .. floor(log(max_t / grace_period) / log(rf) - s + 1) - 1
    # (the documented rule, evaluated here in floating point as the constructor does; compared up to round-off)
    import math as _m
    g_, rf_f = spec["grace_period"], float(rf)
    for s_, ms in enumerate(t["milestones"]):
        n_r = int(_m.log(max_t / g_) / _m.log(rf_f) - s_ + 1)
        want = [g_ * rf_f ** (k_ + s_) for k_ in reversed(range(max(n_r, 0)))]
        got = [float(m_) for m_ in ms]
        if len(got) != len(want) or any(abs(a_ - b_) > 1e-9 * max(1.0, abs(b_)) for a_, b_ in zip(got, want)):
            out.append({"signature": "c19:moasha-bracket-rung-levels", "what":
                        f"bracket {s_} of MOASHA(grace_period={g_}, reduction_factor={rf_f}, max_t={max_t}) has rung levels {got}, "
                        f"the rule gives {want}", "detail": None})
            break
    nds = spec["priority"]["kind"] == "nds"
    mxs = spec["priority"].get("max_num_samples") if nds else None
    for ev in t["events"]:
        if ev["ev"] in ("result-error", "complete-error") and not (ev["err"] == "key-error" and ev.get("untracked")):
            out.append({"signature": "c19:moasha-raised", "what":
                        f"on_trial_{ev['ev'][:-6]} raised {ev['err']} for trial {ev['trial']} iter {ev['iter']}", "detail": ev})
        if ev["ev"] in ("add", "remove") and ev.get("rungs_changed"):
            out.append({"signature": "c19:moasha-rung-corrupted", "what": f"rungs changed by on_trial_{ev['ev']}", "detail": ev})
        if ev["ev"] not in ("result", "complete"):
            continue
        tid, r, d = ev["trial"], ev["iter"], ev["decision"]
        before, after = ev["before"], ev["after"]
        if ev["ev"] == "result" and r >= max_t:
            if d != "STOP":
                out.append({"signature": "c19:not-stopped-at-max", "what": f"trial {tid} reported iter {r} >= max_t {max_t} and got {d}", "detail": ev})
            if before["rungs"] != after["rungs"]:
                out.append({"signature": "c19:moasha-rung-corrupted", "what": "rungs changed by a report at max_t", "detail": ev})
            continue
        b = dict((x, y) for x, y in before["trial_info"])[tid]
        rb, ra = before["rungs"][b], after["rungs"][b]
        # other brackets untouched
        if any(before["rungs"][i] != after["rungs"][i] for i in range(len(before["rungs"])) if i != b):
            out.append({"signature": "c19:moasha-rung-corrupted", "what": "a bracket the trial does not belong to changed", "detail": ev})
        # the rung that has to take the result: largest milestone <= iter not yet holding the trial
        target = None
        for i, (ms, rec) in enumerate(rb):
            if r >= F(ms) and tid not in [e[0] for e in rec]:
                target = i
                break
        signed = None
        for i, ((ms, rec0), (_, rec1)) in enumerate(zip(rb, ra)):
            if i != target:
                if rec0 != rec1:
                    out.append({"signature": "c19:decision-off-rung", "what": f"rung {ms} changed although it is not the rung taking iter {r}", "detail": ev})
            else:
                if rec1[:-1] != rec0 or len(rec1) != len(rec0) + 1 or rec1[-1][0] != tid:
                    out.append({"signature": "c19:not-recorded-once", "what": f"rung {ms}: trial {tid} not recorded exactly once", "detail": ev})
                else:
                    signed = rec1[-1][1]
        for ms, rec1 in ra:
            ids = [e[0] for e in rec1]
            if len(ids) != len(set(ids)):
                out.append({"signature": "c19:not-recorded-once", "what": f"rung {ms} holds a trial twice", "detail": ev})
        if ev["ev"] != "result":
            continue
        if target is None:
            if d != "CONTINUE":
                out.append({"signature": "c19:decision-off-rung", "what": f"trial {tid} iter {r}: no rung to enter but got {d}", "detail": ev})
            continue
        if signed is None:
            continue
        rec0 = rb[target][1]
        if not rec0:
            if d != "CONTINUE":
                out.append({"signature": "c19:first-entry-stopped", "what": f"trial {tid} is the first at rung {rb[target][0]} but got {d}", "detail": ev})
            continue
        pts = [[F(v) for v in e[1]] for e in rec0] + [[F(v) for v in signed]]
        n = len(pts)
        calls = ev["prio_calls"]
        if len(calls) != 1:
            out.append({"signature": "c19:priority-not-consulted", "what": f"priority called {len(calls)} times for one rung decision", "detail": ev})
            continue
        if len(calls[0][1]) != n:
            out.append({"signature": "c19:priority-not-position", "what": f"{len(calls[0][1])} priorities returned for {n} rung entries", "detail": ev})
            continue
        p = calls[0][1]
        count = sum(1 for v in p[:-1] if v < p[-1])
        want = rank_verdict(count, n, rf)
        if want is not None and (d == "STOP") != (want == "stop"):
            out.append({"signature": "c19:moasha-rank-rule", "what":
                        f"trial {tid} at rung {rb[target][0]}: {count} of {n} priorities strictly smaller, 1/rf={1 / rf}, got {d}", "detail": ev})
        if nds:
            lay = ps.brute_layers(pts)
            if mxs is None:
                bad = [(a, c) for a in range(n) for c in range(n) if lay[a] < lay[c] and not p[a] < p[c]]
                if bad:
                    out.append({"signature": sort_order_signature(p, lay), "what":
                                f"NonDominatedPriority gave {p} for Pareto layers {lay}: pairs {bad[:3]} out of order", "detail": ev})
                # decision against what the layers alone force
                lo = sum(1 for i in range(n - 1) if lay[i] < lay[-1])
                hi = sum(1 for i in range(n - 1) if lay[i] <= lay[-1])
                vlo, vhi = rank_verdict(lo, n, rf), rank_verdict(hi, n, rf)
                if vlo == "stop" and d != "STOP":
                    out.append({"signature": "c19:moasha-decision-against-pareto-layers", "what":
                                f"{lo} of {n} entries lie in strictly earlier Pareto layers (> n/rf) but trial {tid} got {d}", "detail": ev})
                if vhi == "continue" and d != "CONTINUE":
                    out.append({"signature": "c19:moasha-decision-against-pareto-layers", "what":
                                f"only {hi} of {n} entries lie in the same or earlier Pareto layers (<= n/rf) but trial {tid} got {d}", "detail": ev})
    return out


# ---------------------------------------------------------------------------------


def run_f13():
    """the F13 witness on the real code (replayed every run)"""
    import numpy as np
    from syne_tune.optimizer.schedulers.multiobjective.moasha import _Bracket
    from syne_tune.optimizer.schedulers.multiobjective.multiobjective_priority import NonDominatedPriority

    P = [[3.0, 3.0], [1.0, 1.0], [4.0, 4.0], [2.0, 2.0]]
    try:
        with ps.EpsRecorder() as rec:
            p = [int(v) for v in NonDominatedPriority()(np.array(P))]
            tape = rec.take()
            b = _Bracket(1, 9, 3, 0, NonDominatedPriority())
            acts = [b.on_result(i, 1, {"a": P[i][0], "b": P[i][1]}) for i in range(4)]
    except Exception as e:  # noqa
        return {"lines": [], "monitor": [{"signature": "c19:sort-raised", "what": f"F13 witness raised {type(e).__name__}: {e}", "detail": None}],
                "meta": {"hist": {"f13_witness": 1}, "nontrivial": True}}
    lines = [({"stream": "pareto"}, None),
             ({"op": "priority", "X": ps.rows(P), "max_num_samples": None, "eps": tape}, {"priorities": p, "contract": True})]
    mon = monitor_points([{"ev": "priority", "P": P, "dim": 0, "max_num_samples": None, "priorities": p}])
    if acts[3] != "CONTINUE":
        mon.append({"signature": "c19:moasha-priority-is-sort-order", "what":
                    f"(2,2) among (3,3),(1,1),(4,4),(2,2) with rf=3 ranks 1/4 <= 1/3 but got {acts[3]} (priorities {p})", "detail": acts})
    return {"lines": lines, "monitor": mon, "meta": {"hist": {"f13_witness": 1}, "nontrivial": True}}


def run_impl(spec):
    if spec["kind"] == "f13":
        return run_f13()
    if spec["kind"] == "points":
        t = ps.run_points(spec)
        mon = monitor_points(t["events"])
        masks = [e["mask"] for e in t["events"] if e["ev"] == "pareto"]
        hist = {"points:" + spec["style"]: 1, "points:d=%d" % spec["d"]: 1}
        for e in t["events"]:
            hist["ev:" + e["ev"]] = hist.get("ev:" + e["ev"], 0) + 1
            if e["ev"] == "nds":
                hist["nds:dim=None" if e["dim"] is None else "nds:dim=int"] = hist.get("nds:dim=None" if e["dim"] is None else "nds:dim=int", 0) + 1
                hist["nds:max_items" if e["max_items"] is not None else "nds:all"] = hist.get("nds:max_items" if e["max_items"] is not None else "nds:all", 0) + 1
        if masks and len(set(masks[0])) == 1 and len(masks[0]) > 1:
            hist["points:mask-uniform"] = 1
        nt = bool(masks) and (True in masks[0]) and (False in masks[0])
        if masks:
            P = t["events"][0]["P"]
            if len(P) != len(set(map(tuple, P))):
                hist["points:with-duplicates"] = 1
            hist["points:layers=%d" % min(5, (max(ps.brute_layers(P)) + 1) if P else 0)] = 1
        return {"lines": t["lines"], "monitor": mon, "meta": {"hist": hist, "nontrivial": nt}}
    t = ps.run_moasha(spec)
    mon = monitor_moasha(spec, t)
    hist = {"moasha:prio=" + spec["priority"]["kind"]: 1, "moasha:rf=" + str(float(Fraction(spec["rf"]))): 1,
            "moasha:mode=" + ("list" if isinstance(spec["mode"], list) else spec["mode"]): 1}
    stops = 0
    for e in t["events"]:
        hist["ev:" + e["ev"]] = hist.get("ev:" + e["ev"], 0) + 1
        if e["ev"] == "result":
            hist["decision:" + e["decision"]] = hist.get("decision:" + e["decision"], 0) + 1
            if e["decision"] == "STOP" and e["iter"] < t["max_t"]:
                stops += 1
            if e["prio_calls"]:
                hist["rank-decisions"] = hist.get("rank-decisions", 0) + 1
    hist["stop-below-max"] = stops
    return {"lines": t["lines"], "monitor": mon, "meta": {"hist": hist, "nontrivial": stops >= 1}}


def compare(inp, impl, model):
    if impl is None:
        return None
    return default_compare(inp, impl, model)


def nontrivial(trace):
    return bool(trace.get("meta", {}).get("nontrivial"))
