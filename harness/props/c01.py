"""C01 — worker budget and legal trial life cycle in every tuning run (+ loop-side parts of C13 / C20)."""
import json
import os

from streams import loop
from streams.loop import compare  # noqa: F401

PID = "C01"
LEVEL = "proof"
LEAN_TARGETS = ["SyneTune.Props.C01", "SyneTune.Props.C13Loop", "SyneTune.Props.C20Loop"]
DRIVER = "SyneTune/Drivers/Loop.lean"
THEOREMS = []
TRUSTED = [
    "hand-written model lean/SyneTune/Model/{Tuner,TuningStatus,StoppingCriterion}.lean tied to /repo by the loop correspondence stream",
    "Python harness harness/streams/loop.py (recorder callback, per-instance wrappers, scripted backend, clock stub)",
]
ASSUMPTIONS = [
    "contract B (backend) and contract K (scheduler) as stated in Props/C01.lean; K is monitored on every trace",
    "save_tuner=False; status printer period longer than the run",
]
RULE = ("cases: the real Tuner.run() against the scripted in-memory backend or the real UserBlackboxBackend, with every "
        "scheduler that imports here or the K-abiding PRNG scheduler, n_workers 1..5, all loop flags, random stopping "
        "criteria, max_failures, delete_checkpoints, failures / external stops / injected exceptions; distinct by sha256 "
        "of the spec; non-trivial iff at least 3 distinct call kinds beyond start/result occur")


def gen_cases(rng, tier):
    n = 120 if tier == "quick" else 2500
    for _ in range(n):
        yield loop.gen_spec(rng, tier)


def corpus():
    p = os.path.join(os.path.dirname(__file__), "..", "corpus", "c01.json")
    return json.load(open(p)) if os.path.exists(p) else []


def run_impl(spec):
    t = loop.run_loop(spec)
    try:
        lines = loop.to_lines(t)
        mon = loop.monitor_k(t) + loop.monitor_c01(t) + loop.monitor_c13_loop(t) + loop.monitor_c20_loop(t)
        hist = loop.histogram(t)
        return {"lines": lines, "monitor": mon, "meta": {"hist": hist, "kinds": loop.call_kinds(t)}}
    finally:
        loop.cleanup(t)


def nontrivial(trace):
    return len(set(trace.get("meta", {}).get("kinds", [])) & loop.INTERESTING) >= 3
