"""C01 — worker budget and legal trial life cycle in every tuning run (+ loop-side parts of C13 / C20)."""
import json
import os

from streams import loop
from streams.loop import compare  # noqa: F401

PID = "C01"
LEVEL = "proof"
LEAN_TARGETS = ["SyneTune.Props.C01", "SyneTune.Props.C13Loop", "SyneTune.Props.C20Loop", "SyneTune.Props.C01b"]
DRIVER = "SyneTune/Drivers/Loop.lean"
THEOREMS = [
    "SyneTune.C01.budget",
    "SyneTune.C01.ids",
    "SyneTune.C01.ids_next",
    "SyneTune.C01.lifecycle",
    "SyneTune.C01.resume_only_paused",
    "SyneTune.C01.notify_partial",
    "SyneTune.C01.notify_polled_partial",
    "SyneTune.C01.notify_polled_swd",
    "SyneTune.C01.notify_polled_counterexample",
    "SyneTune.C01.notify_end_clash_counterexample",
    "SyneTune.C13Loop.notified_failed",
    "SyneTune.C13Loop.notified_external_stop",
    "SyneTune.C13Loop.notified_once",
    "SyneTune.C13Loop.continues",
    "SyneTune.C13Loop.abort_names_failed",
    "SyneTune.C20Loop.delete_only_when",
    "SyneTune.C20Loop.deleted_only_stopped_or_named",
    "SyneTune.C20Loop.removal_callback_deletes_named",
    "SyneTune.C20Loop.resume_has_ckpt",
    "SyneTune.C20Loop.pbt_partial",
    "SyneTune.C20Loop.pbt_counterexample",
    "SyneTune.C01b.counters_partition",
    "SyneTune.C01b.started_keys",
    "SyneTune.C01b.started_distinct",
    "SyneTune.C01b.started_count",
    "SyneTune.C01b.started_at_boundary",
    "SyneTune.C01b.started_fin",
    "SyneTune.C01b.started_end",
    "SyneTune.C01b.started_not_recorded_counterexample",
    "SyneTune.C01b.running_count_partial",
    "SyneTune.C01b.running_count_eq",
    "SyneTune.C01b.running_count_swd",
    "SyneTune.C01b.in_progress_running",
    "SyneTune.C01b.running_count_counterexample",
]
TRUSTED = [
    "hand-written model lean/SyneTune/Model/{Tuner,TuningStatus,StoppingCriterion}.lean tied to /repo by the loop correspondence stream",
    "Python harness harness/streams/loop.py (recorder callback, per-instance wrappers, scripted backend, clock stub)",
]
ASSUMPTIONS = [
    "contract B (backend) and contract K (scheduler) as stated in Props/C01.lean; K is monitored on every trace",
    "save_tuner=False; status printer period longer than the run",
]
RULE = ("cases: the real Tuner.run() against the scripted in-memory backend or the real UserBlackboxBackend, with every "
        "scheduler that imports here or the K-abiding PRNG scheduler, n_workers 1..5, all loop flags, random stopping "
        "criteria, max_failures, delete_checkpoints, failures / external stops / injected exceptions; distinct by sha256 "
        "of the spec; non-trivial iff at least 3 distinct call kinds beyond start/result occur")


def gen_cases(rng, tier):
    n = 120 if tier == "quick" else 2500
    for _ in range(n):
        yield loop.gen_spec(rng, tier)
    # synchronous schedulers run long enough for their first bracket to hand out jobs of its higher rungs, with the
    # non-default DEHB option under which every job is a new trial (nothing is ever resumed)
    for j in range(8 if tier == "quick" else 120):
        while True:
            spec = loop.gen_spec(rng, tier)
            if spec["backend"] == "script":
                break
        k = "dehb" if j < 3 else rng.choice(["dehb", "dehb", "sync"])
        spec["scheduler"] = {"kind": k, "modes": rng.choice(["min", "max"]), "reduction_factor": rng.choice([2, 3]),
                             "brackets": rng.choice([None, 1, 2]), "max_resource_attr": rng.random() < 0.4}
        if k == "dehb" and (j < 3 or rng.random() < 0.6):
            spec["scheduler"]["support_pause_resume"] = False
        spec["max_t"] = 4 if spec["scheduler"]["reduction_factor"] == 2 else 9   # rungs of 4/2/1 or 9/3/1 jobs
        spec["n_workers"] = rng.randint(2, 4)
        spec["criterion"] = {"max_num_trials_started": rng.randint(24, 40)}
        spec["inject"] = None
        bp = spec.get("backend_params") or {}
        bp.update({"p_fail": 0.0, "p_extstop": 0.0, "short_runs": None})
        spec["backend_params"] = bp
        yield spec


def corpus():
    """fixed cases + the witnesses of the `_counterexample` theorems (handed out by the model driver itself,
    replayed on the real Tuner by the scripted environment)"""
    p = os.path.join(os.path.dirname(__file__), "..", "corpus", "c01.json")
    fixed = json.load(open(p)) if os.path.exists(p) else []
    return fixed + loop.witness_specs(DRIVER)


def run_impl(spec):
    t = loop.run_loop(spec)
    try:
        lines = loop.to_lines(t)
        mon = (loop.monitor_k(t) + loop.monitor_c01(t) + loop.monitor_c13_loop(t) + loop.monitor_c20_loop(t)
               + loop.monitor_counters_backend(t) + loop.monitor_witness(t))
        hist = loop.histogram(t)
        hist.update(loop.witness_hist(t))
        return {"lines": lines, "monitor": mon, "meta": {"hist": hist, "kinds": loop.call_kinds(t)}}
    finally:
        loop.cleanup(t)


def nontrivial(trace):
    return len(set(trace.get("meta", {}).get("kinds", [])) & loop.INTERESTING) >= 3


def extra(ctx):
    """the witnesses of the `_counterexample` theorems are corpus cases (handed out by the model driver, replayed
    call by call on the real Tuner); record whether the real code still shows each of them"""
    ctx.notes["counterexamples_replayed_on_real_code"] = loop.witness_report(ctx, THEOREMS)
