"""C15 — minimising f and maximising -f are the same experiment."""
import contextlib
import io

from streams import generic as g
from streams import hb, pbt

PID = "C15"
LEVEL = "proof"
LEAN_TARGETS = ["SyneTune.Props.C15", "SyneTune.Props.C15Sched", "SyneTune.Props.C20Pbt"]
DRIVER = "SyneTune/Drivers/Hb.lean"
PBT_DRIVER = "SyneTune/Drivers/Pbt.lean"
COMPARE = {DRIVER: hb.compare, PBT_DRIVER: pbt.compare}
THEOREMS = [
    "SyneTune.C15.rung_add_symm",
    "SyneTune.C15.cutoff_symm",
    "SyneTune.C15.taskContinues_symm",
    "SyneTune.C15.stopScan_symm",
    "SyneTune.C15.stopping_symm",
    "SyneTune.C15.plainPick_symm",
    "SyneTune.C15.markPromoted_symm",
    "SyneTune.C15.promoScan_symm",
    "SyneTune.C15.promoReport_symm",
    "SyneTune.C15.rush_symm",
    "SyneTune.C15.cost_symm",
    "SyneTune.quantileAsc_neg_reverse",
    # whole scheduler, all six types, both modes, every history (Props/C15Sched.lean)
    "SyneTune.C15Sched.step_WF",
    "SyneTune.C15Sched.run_WF",
    "SyneTune.C15Sched.neg_WF",
    "SyneTune.C15Sched.init_WF",
    "SyneTune.C15Sched.suggest_symm",
    "SyneTune.C15Sched.result_symm",
    "SyneTune.C15Sched.remove_symm",
    "SyneTune.C15Sched.error_symm",
    "SyneTune.C15Sched.complete_symm",
    "SyneTune.C15Sched.step_symm",
    "SyneTune.C15Sched.run_symm",
    "SyneTune.C15Sched.out_symm",
    "SyneTune.C15Sched.call_symm",
    "SyneTune.C15Sched.outs_symm",
    "SyneTune.C15Sched.calls_symm",
    "SyneTune.C15Sched.run_outs_symm",
    "SyneTune.C15Sched.neg_involutive",
    "SyneTune.C15Sched.neg_mode",
    # rung systems / bracket manager (Lemmas/Symmetry2.lean)
    "SyneTune.C15Sched.findPromotable_symm",
    "SyneTune.C15Sched.promoSchedule_symm",
    "SyneTune.C15Sched.rushStopReport_symm",
    "SyneTune.C15Sched.softGroups_symm",
    "SyneTune.C15Sched.pashaIncrease_symm",
    "SyneTune.C15Sched.pashaReport_symm",
    "SyneTune.C15Sched.taskReport_symm",
    "SyneTune.C15Sched.taskSchedule_symm",
    # population-based training, whole scheduler, every history (Props/C20Pbt.lean)
    "SyneTune.C20Pbt.step_symm",
    "SyneTune.C20Pbt.run_symm",
    "SyneTune.C20Pbt.outs_symm",
]
TRUSTED = [
    "hand-written models lean/SyneTune/Model/{Rung,HB}.lean tied to /repo by the hb correspondence stream (both runs of every pair)",
    "schedulers without a Lean model (synchronous Hyperband, DEHB, median rule, MOASHA, regularized evolution, random/grid) "
    "are decided by the paired runs only (differential execution of the real code)",
    "PBT: model lean/SyneTune/Model/PBT.lean tied to /repo by the pbt stream (harness/streams/pbt.py; both runs of a pair, the "
    "min run carries the model lines), in addition to the paired runs of the generic stream",
]
ASSUMPTIONS = [
    "metric tables in general position on a 1/1024 grid (negation is exact in floating point); a separate tie stream",
    "MOASHA draws from the global generators: both runs of a pair are started from the same global seed",
]
RULE = ("cases: for each scheduler (FIFO random/grid/regularized evolution, the six Hyperband types, synchronous Hyperband, DEHB, "
        "PBT, median rule, MOASHA with per-metric modes) a pair of real runs — mode min on f, mode max on -f — with equal seeds "
        "and the same scripted workers; the pair must produce identical suggestions and decisions; for the Hyperband types both "
        "runs are additionally compared with the Lean model; MOASHA also with scripts that end by themselves / report every second "
        "level only; TuningStatus, ExperimentResult.best_config and Tuner.best_config (per-metric modes, by name and by index) in "
        "pairs. distinct by sha256 of the spec; non-trivial iff the run contains "
        "at least one non-CONTINUE decision or one resume (decisions that depend on metric values)")


def gen_cases(rng, tier):
    n = 40 if tier == "quick" else 600
    # Hyperband types are paired below through the hb stream (their thresholds are float
    # interpolations, so the model's round-off classification is needed to judge a pair)
    names = [x for x in g.SCHEDULERS if not x.startswith("hb-")]
    for i in range(n):
        name = names[i % len(names)]
        spec = {
            "name": name,
            "sched_seed": rng.randrange(10 ** 6),
            "seed": rng.randrange(10 ** 9),
            "cs_kind": "finite" if name == "fifo-grid" else rng.choice(["mixed", "cont", "finite"]),
            "n_workers": rng.randint(1, 5),
            "max_events": rng.choice([60, 120]) if tier == "quick" else rng.choice([120, 300]),
            "style": "distinct",
            "p_fail": rng.choice([0, 0, 0.03]),
            "max_t": rng.choice([1, 2, 3]) if name.startswith("fifo-") else rng.choice([9, 27]),
            "extra": {"brackets": rng.choice([1, 1, 2, 3]), "reduction_factor": rng.choice([2, 3])},
        }
        if name == "fifo-rea" and rng.random() < 0.5:
            spec["extra"]["searcher_without_mode"] = True   # the searcher object is told its mode by the scheduler only
        if name == "median":
            spec["extra"]["running_average"] = rng.random() < 0.5
            spec["extra"]["grace_population"] = rng.choice([1, 2, 3])
        if name == "moasha":
            spec["modes"] = [rng.choice(["min", "max"]), rng.choice(["min", "max"])]
        if name in ("moasha", "median", "hb-stopping", "hb-rush_stopping"):
            spec["p_early"] = rng.choice([0, 0.05, 0.1])   # scripts that end by themselves before max_t
        if name in ("sync-hb", "dehb"):
            spec["extra"]["brackets"] = rng.choice([None, 1, 2])
        if name == "sync-hb":
            spec["p_fail"] = rng.choice([0, 0.05, 0.15])   # failed jobs rank last in either mode
        if name == "hb-pasha":
            spec["extra"]["brackets"] = 1
        yield spec
    # MOASHA with per-metric modes, scripts that often end by themselves (their last result then arrives through
    # on_trial_complete and is recorded at its rung like any other)
    for _ in range(8 if tier == "quick" else 80):
        yield {"name": "moasha", "sched_seed": rng.randrange(10 ** 6), "seed": rng.randrange(10 ** 9),
               "cs_kind": rng.choice(["mixed", "cont", "finite"]), "n_workers": rng.randint(2, 5),
               "max_events": 120 if tier == "quick" else 250, "style": "distinct", "p_fail": 0, "p_early": rng.choice([0.1, 0.2]),
               "max_t": rng.choice([9, 27]), "extra": {"brackets": rng.choice([1, 1, 2]), "reduction_factor": rng.choice([2, 3])},
               "modes": [rng.choice(["min", "max"]), rng.choice(["min", "max", "max"])]}
    # ... and scripts that report every second level only: a rung level the script has passed without a report receives its
    # entry from a later report or from the final result
    for _ in range(8 if tier == "quick" else 80):
        yield {"name": "moasha", "sched_seed": rng.randrange(10 ** 6), "seed": rng.randrange(10 ** 9),
               "cs_kind": rng.choice(["mixed", "cont", "finite"]), "n_workers": rng.randint(2, 5),
               "max_events": 120 if tier == "quick" else 250, "style": "distinct", "p_fail": 0, "p_early": rng.choice([0.2, 0.4]),
               "stride": 2, "max_t": rng.choice([8, 16]), "extra": {"brackets": 1, "reduction_factor": 2},
               "modes": [rng.choice(["min", "max"]), rng.choice(["min", "max", "max"])]}
    # best-configuration reporting: TuningStatus / print_best_metric_found and ExperimentResult.best_config
    for _ in range(12 if tier == "quick" else 150):
        yield {"status": True, "seed": rng.randrange(10 ** 9), "n_trials": rng.randint(1, 8),
               "n_results": rng.randint(0, 30), "p_silent": rng.choice([0, 0.3, 0.6]), "nan": rng.random() < 0.3}
    # Hyperband family against the model, in pairs
    m = 30 if tier == "quick" else 400
    from props.c03 import gen_ctor
    for _ in range(m):
        typ = rng.choice(["stopping", "promotion", "rush_stopping", "rush_promotion", "cost_promotion", "pasha"])
        c = gen_ctor(rng, typ)
        c["mode"] = "min"
        c["max_resource_attr"] = rng.random() < 0.5
        if typ.startswith("rush"):
            c["num_threshold_candidates"] = rng.choice([1, 2])
        if typ == "cost_promotion":
            c["cost"] = True
        if typ == "pasha":
            c["brackets"] = 1
        try:
            hb.make_scheduler(c)
        except AssertionError:
            continue
        yield {"hb": True, "ctor": c, "seed": rng.randrange(10 ** 9), "n_workers": rng.randint(1, 5),
               "max_events": 80 if tier == "quick" else 200, "style": rng.choice(["grid", "grid", "ties"]),
               "checkpointing": rng.random() < 0.5, "p_fail": rng.choice([0, 0.03])}
    # RUSH with offline evaluations of earlier tasks (transfer learning): the hurdle configurations it starts from
    for _ in range(10 if tier == "quick" else 120):
        yield {"rush_tl": True, "seed": rng.randrange(10 ** 9), "n_tasks": rng.randint(1, 3), "n_hp": rng.randint(2, 7),
               "n_seeds": rng.randint(1, 3), "n_fid": rng.choice([1, 2, 3, 5]), "k": rng.randint(1, 3),
               "type": rng.choice(["stopping", "promotion"]), "sched_seed": rng.randrange(1000)}
    # PBT pairs with model lines (appended last: the cases above stay the same for a seed)
    for _ in range(25 if tier == "quick" else 300):
        yield dict(pbt.gen_case(rng, tier), pbt=True, twin=True)
    # PASHA pairs long enough for its soft ranking to matter: several trials in the top rung, crossing learning curves (the
    # automatic epsilon becomes positive), exact promotion quantiles (reduction factor 2 or 4)
    for _ in range(10 if tier == "quick" else 120):
        c = {"type": "pasha", "mode": "min", "grace_period": 1, "reduction_factor": rng.choice(["2", "2", "4"]),
             "max_t": rng.choice([16, 32, 64]), "brackets": 1, "rung_system_per_bracket": False, "searcher_data": "rungs",
             "register_pending_myopic": False, "random_seed": rng.randrange(1000), "max_resource_attr": rng.random() < 0.5}
        yield {"hb": True, "ctor": c, "seed": rng.randrange(10 ** 9), "n_workers": rng.randint(2, 5),
               "max_events": 200 if tier == "quick" else 300, "style": rng.choice(["general", "general", "grid"]),
               "checkpointing": rng.random() < 0.5, "p_fail": 0}


def corpus():
    return []


def flip(m):
    return "max" if m == "min" else "min"


def run_status(spec):
    """TuningStatus best trial and ExperimentResult.best_config: mode min on f vs mode max on -f"""
    import random, datetime
    import pandas as pd
    from syne_tune.backend.trial_status import Trial
    from syne_tune.tuning_status import TuningStatus, print_best_metric_found
    from syne_tune.experiments.experiment_result import ExperimentResult
    rng = random.Random(spec["seed"])
    n = spec["n_trials"]
    silent = [rng.random() < spec["p_silent"] for _ in range(n)]       # trials that never report
    rows = []
    for _ in range(spec["n_results"]):
        t = rng.randrange(n)
        if silent[t]:
            continue
        v = (rng.randrange(1, 1024) * 64 + len(rows)) / 65536.0       # pairwise distinct, negation exact
        rows.append((t, v))
    out, tuner_best = [], []
    for mode, sign in (("min", 1.0), ("max", -1.0)):
        st = TuningStatus(["loss"])
        trials = {t: Trial(t, {"x": t}, datetime.datetime(2020, 1, 1)) for t in range(n)}
        st.update({t: (trials[t], "in_progress") for t in range(n)}, [])
        for t, v in rows:
            st.update({t: (trials[t], "in_progress")}, [(t, {"loss": sign * v, "epoch": 1})])
        with contextlib.redirect_stdout(io.StringIO()):
            best = print_best_metric_found(st, ["loss"], mode)
        res = None if best is None else (int(best[0]), float(sign * best[1]))
        er_best = None
        if rows:
            df = pd.DataFrame({"trial_id": [t for t, _ in rows], "loss": [sign * v for _, v in rows], "x": [t for t, _ in rows]})
            if spec.get("nan") and len(rows) > 2:
                df.loc[1, "loss"] = float("nan")
            er = ExperimentResult(name="e", results=df, metadata={"metric_names": ["loss"], "metric_mode": mode}, tuner=None, path=None)
            er_best = [int(er.best_config()["trial_id"])]
            # ... and on a table whose row labels are not 0..n-1 (rows filtered or re-ordered by the user): whatever row the lookup
            # names, it names the same one for either mode
            df2 = df.copy()
            df2.index = list(range(len(df2)))[::-1]
            er2 = ExperimentResult(name="e", results=df2, metadata={"metric_names": ["loss"], "metric_mode": mode}, tuner=None, path=None)
            er_best.append(int(er2.best_config()["trial_id"]))
        # Tuner.best_config on a scheduler with per-metric modes (MOASHA): the mode of the metric asked for decides
        tb = None
        if rows:
            from syne_tune import Tuner
            from syne_tune.optimizer.schedulers.multiobjective import MOASHA
            from syne_tune.config_space import randint
            import types
            other = ["min", "max"][spec["seed"] % 2]
            sch = MOASHA({"x": randint(0, 100)}, metrics=["aux", "loss"], mode=[other, mode], time_attr="epoch", max_t=9)
            st2 = TuningStatus(["aux", "loss"])
            st2.update({t: (trials[t], "in_progress") for t in range(n)}, [])
            for t, v in rows:
                st2.update({t: (trials[t], "in_progress")}, [(t, {"loss": sign * v, "aux": float(t), "epoch": 1})])
            tun = Tuner.__new__(Tuner)
            tun.scheduler, tun.tuning_status = sch, st2
            tun.trial_backend = types.SimpleNamespace(_trial_dict=trials)
            with contextlib.redirect_stdout(io.StringIO()):
                tb = (int(tun.best_config(metric="loss")[0]), int(tun.best_config(metric=1)[0]))
        tuner_best.append(tb)
        out.append((res, er_best))
    mon = []
    if tuner_best[0] != tuner_best[1] or (tuner_best[0] is not None and tuner_best[0][0] != tuner_best[0][1]):
        mon.append({"signature": "c15:pair-diverges:tuner-best-config",
                    "what": f"Tuner.best_config (MOASHA, per-metric modes; by name, by index): mode=min on f gives trials {tuner_best[0]}, "
                            f"mode=max on -f gives {tuner_best[1]}", "detail": {"rows": rows[:20]}})
    elif rows and tuner_best[0] is not None and tuner_best[0][0] != min(rows, key=lambda x: x[1])[0]:
        mon.append({"signature": "c15:tuner-best-config-not-optimum",
                    "what": f"Tuner.best_config reports trial {tuner_best[0][0]}, the minimum is attained by trial "
                            f"{min(rows, key=lambda x: x[1])[0]}", "detail": {"rows": rows[:20]}})
    if out[0][0] != out[1][0]:
        mon.append({"signature": "c15:pair-diverges:tuning-status-best",
                    "what": f"TuningStatus best trial: mode=min on f gives {out[0][0]}, mode=max on -f gives {out[1][0]} "
                            f"({sum(silent)} of {n} trials without a result)", "detail": {"rows": rows[:20], "silent": silent}})
    if out[0][1] != out[1][1]:
        mon.append({"signature": "c15:pair-diverges:experiment-best-config",
                    "what": f"ExperimentResult.best_config: mode=min on f gives trial {out[0][1]}, mode=max on -f gives {out[1][1]}",
                    "detail": {"rows": rows[:20]}})
    # the reported trial attains the optimum
    if rows and out[0][0] is not None:
        bt, bv = min(rows, key=lambda x: x[1])
        if out[0][0] != (bt, bv):
            mon.append({"signature": "c15:tuning-status-best-not-optimum",
                        "what": f"TuningStatus reports {out[0][0]} but the minimum is trial {bt} value {bv}", "detail": {"rows": rows[:20]}})
    return {"lines": [], "monitor": mon, "meta": {"hist": {"pair:tuning-status": 1}, "nontrivial": len(rows) >= 2}}


def run_rush_tl(spec):
    """RUSHScheduler built from offline evaluations of earlier tasks: mode min on f versus mode max on -f (offline evaluations
    negated as well) start from the same hurdle configurations and give the same first suggestions"""
    import random
    import numpy as np
    import pandas as pd
    from syne_tune.config_space import randint, uniform
    from syne_tune.optimizer.schedulers.transfer_learning import TransferLearningTaskEvaluations
    from syne_tune.optimizer.schedulers.transfer_learning.rush import RUSHScheduler
    rng = random.Random(spec["seed"])
    cs = {"a": randint(0, 50), "b": uniform(0.0, 1.0)}
    hp_cs = dict(cs)
    tasks = []
    for _ in range(spec["n_tasks"]):
        # distinct values on a 1/4096 grid (general position: the average over seeds of every configuration differs at every
        # fidelity and between fidelities), learning curves that cross
        hps = pd.DataFrame([{"a": rng.randint(0, 50), "b": rng.randrange(0, 1024) / 1024.0} for _ in range(spec["n_hp"])])
        shape = (spec["n_hp"], spec["n_seeds"], spec["n_fid"], 1)
        vals = rng.sample(range(1, 4096 * 4), shape[0] * shape[1] * shape[2])
        tasks.append((hps, np.array(vals, dtype=float).reshape(shape) / 4096.0))
    outs = []
    for mode, sign in (("min", 1.0), ("max", -1.0)):
        tl = {f"t{i}": TransferLearningTaskEvaluations(configuration_space=dict(hp_cs), hyperparameters=h.copy(),
                                                       objectives_names=[g.METRIC], objectives_evaluations=sign * v)
              for i, (h, v) in enumerate(tasks)}
        topk = {t: e.top_k_hyperparameter_configurations(spec["k"], mode, g.METRIC) for t, e in tl.items()}
        with contextlib.redirect_stdout(io.StringIO()):
            sch = RUSHScheduler(dict(cs), transfer_learning_evaluations=tl, metric=g.METRIC, type=spec["type"], mode=mode,
                                resource_attr=g.RES, max_t=9, num_hyperparameters_per_task=spec["k"],
                                random_seed=spec["sched_seed"], search_options={"debug_log": False})
            first = []
            for i in range(spec["n_tasks"] * spec["k"] + 2):
                sg = sch.suggest(i)
                first.append(None if sg is None or sg.config is None else {k: sg.config[k] for k in ("a", "b")})
        outs.append({"topk": topk, "first": first})
    mon = []
    if outs[0] != outs[1]:
        key = "topk" if outs[0]["topk"] != outs[1]["topk"] else "first"
        mon.append({"signature": "c15:pair-diverges:rush-transfer-learning",
                    "what": f"RUSHScheduler(type={spec['type']}) from offline evaluations, mode=min on f vs mode=max on -f: {key} "
                            f"{str(outs[0][key])[:200]} vs {str(outs[1][key])[:200]}", "detail": None})
    return {"lines": [], "monitor": mon, "meta": {"hist": {"pair:rush-transfer-learning": 1, "rush_tl:fidelities=%d" % spec["n_fid"]: 1},
                                                    "nontrivial": spec["n_hp"] >= 2}}


def run_impl(spec):
    if spec.get("status"):
        return run_status(spec)
    if spec.get("rush_tl"):
        return run_rush_tl(spec)
    if spec.get("pbt"):
        r = pbt.run_impl(spec)
        r["driver"] = PBT_DRIVER
        r["meta"]["hist"] = {"pbt:" + k: v for k, v in r["meta"]["hist"].items()}
        r["meta"]["hist"]["pair:pbt-model"] = 1
        r["meta"]["nontrivial"] = pbt.nontrivial(r)
        return r
    if spec.get("hb"):
        # two model-checked runs; the pair is compared on decisions / suggestions / rung order
        a = hb.run_scenario(dict(spec, negate=False))
        c2 = dict(spec["ctor"], mode="max")
        b = hb.run_scenario(dict(spec, ctor=c2, negate=True))
        a.pop("sched"), b.pop("sched")
        ea = [_proj(e) for e in a["events"]]
        eb = [_proj(e) for e in b["events"]]
        nt = any(e["ev"] == "resume" or (e["ev"] == "result" and e["decision"] != "CONTINUE") for e in a["events"])
        # PASHA estimates its epsilon from pairs of trials by `p1 > p2` on their values at the same level: two trials with the
        # SAME value at the same level are a table that is not in general position (the property's own exclusion)
        first_tie, seen_vals = None, {}
        for i, e in enumerate(a["events"]):
            if e["ev"] == "result":
                key = (e["resource"], e["metric"])
                if seen_vals.setdefault(key, e["trial"]) != e["trial"]:
                    first_tie = i
                    break
        # the pair is judged in post_case, where the model's forced/free classification is known
        return {"lines": a["lines"] + b["lines"], "monitor": [],
                "meta": {"hist": {"pair:hb-" + spec["ctor"]["type"]: 1}, "nontrivial": nt,
                         "pair": [ea, eb], "nlines": [len(a["lines"]), len(b["lines"])], "first_tie": first_tie}}
    name = spec["name"]
    runs = []
    for which in ((0, 1, 2) if name == "moasha" else (0, 1)):
        if name == "moasha":
            # per-metric modes: all flipped (run 1), and only the last one flipped (run 2) - each is the same experiment
            modes = spec["modes"] if which == 0 else ([flip(x) for x in spec["modes"]] if which == 1 else
                                                      spec["modes"][:-1] + [flip(spec["modes"][-1])])
            sign = tuple((1.0 if m == "min" else -1.0) for m in modes)
            mode = modes
        else:
            mode = "min" if which == 0 else "max"
            sign = (1.0, 1.0) if which == 0 else (-1.0, -1.0)
        with contextlib.redirect_stdout(io.StringIO()):
            s = g.make_scheduler(name, mode, spec["sched_seed"], spec["cs_kind"], spec["max_t"], spec["extra"])
            runs.append(g.drive(s, spec, sign))
    mon = []
    if len(runs) > 2 and runs[0] == runs[1] and runs[0] != runs[2]:
        runs[1] = runs[2]   # (reported below as the diverging twin)
    if runs[0] != runs[1]:
        k = next(i for i, (x, y) in enumerate(zip(runs[0] + [None], runs[1] + [None])) if x != y)
        mon.append({"signature": f"c15:pair-diverges:{name}",
                    "what": f"{name}: mode=min on f and mode=max on -f diverge at event {k}: "
                            f"{str(runs[0][k] if k < len(runs[0]) else None)[:160]} vs {str(runs[1][k] if k < len(runs[1]) else None)[:160]}",
                    "detail": {"event": k}})
    nt = any((e[0] == "result" and e[3] != "CONTINUE") or (e[0] == "suggest" and e[1] == "resume") or
             (e[0] == "suggest" and e[1] == "start" and e[3] is not None) for e in runs[0])
    if name in ("fifo-rea",):
        nt = len(runs[0]) > 20
    return {"lines": [], "monitor": mon, "meta": {"hist": {"pair:" + name: 1, "events": len(runs[0])}, "nontrivial": nt}}


def post_case(trace, mo):
    """hb pairs: the two runs must agree up to the first decision the model classifies as
    within round-off (`free`) — the property's own exclusion."""
    meta = trace.get("meta", {})
    if "pair" not in meta:
        return []
    ea, eb = meta["pair"]
    na, nb = meta["nlines"]
    if ea == eb:
        return []
    k = next(i for i, (x, y) in enumerate(zip(ea + [None], eb + [None])) if x != y)
    # events i corresponds to line i+1 of its run
    def free_upto(offset, n):
        return any(isinstance(m.get("out"), dict) and m["out"].get("free") for m in mo[offset + 1: offset + min(k + 2, n)])
    if free_upto(0, na) or free_upto(na, nb):
        return []          # divergence after a decision within round-off: allowed by the property
    typ = trace["spec"]["ctor"]["type"]
    if typ == "pasha" and meta.get("first_tie") is not None and meta["first_tie"] < k:
        return []          # two trials reported the same value at the same level before: not in general position
    return [{"signature": f"c15:pair-diverges:hb-{typ}",
             "what": f"mode=min on f and mode=max on -f diverge at event {k} with no round-off decision before: "
                     f"{ea[k] if k < len(ea) else None} vs {eb[k] if k < len(eb) else None}", "detail": {"event": k}}]


def _proj(e):
    k = e["ev"]
    if k == "result":
        return (k, e["trial"], e["resource"], e["decision"])
    if k in ("start", "resume"):
        return (k, e["trial"], e.get("from"), e.get("milestone"), e.get("bracket"))
    return (k, e.get("trial"))


from streams.hb import compare  # noqa: E402,F401


def nontrivial(trace):
    return bool(trace.get("meta", {}).get("nontrivial"))
