"""C08 — GP posterior, likelihood and incremental updates equal the dense definition (PARTIAL proof)."""
from streams import gp
from streams.gp import compare  # noqa: F401

PID = "C08"
LEVEL = "proof"
LEAN_TARGETS = ["SyneTune.Props.C08"]
DRIVER = "SyneTune/Drivers/Gp.lean"
THEOREMS = [
    "SyneTune.C08.state_of_factor",
    "SyneTune.C08.add_jitter",
    "SyneTune.C08.mean",
    "SyneTune.C08.var",
    "SyneTune.C08.joint_cov",
    "SyneTune.C08.nll",
    "SyneTune.C08.update",
    "SyneTune.C08.update_state",
    "SyneTune.C08.update_eq_recompute",
    "SyneTune.C08.sample_update",
    "SyneTune.C08.fantasies",
    "SyneTune.GP.solveLower_spec",
    "SyneTune.GP.solveLowerT_spec",
]
TRUSTED = [
    "PARTIAL proof: what is proved is that the formulas the code evaluates (model lean/SyneTune/Model/GPExec.lean, "
    "nll in Lemmas/GP.lean) are the textbook dense-matrix quantities over any ordered field; NOT modelled: LAPACK "
    "potrf/trsm, sqrt/log, IEEE round-off, the jitter search of AddJitterOp, kernel function values",
    "model tied to /repo by the gp correspondence stream: real IncrementalUpdateGPPosteriorState (predict, "
    "neg_log_likelihood, sample_joint, update, sample_and_update) on stub kernel/mean tables of dyadic rationals vs the "
    "Rat twin, agreement within 2^-53*64*(1+cond(L))^k (k = chained triangular solves), capped at 1e-6 relative",
    "square roots enter the twin as hints checked by squaring (free) unless the argument is a perfect square (forced)",
    "Python harness harness/streams/gp.py (stubs, exact Fraction dense reference for the end-to-end monitors)",
]
ASSUMPTIONS = [
    "chol_fact is lower triangular with non-zero diagonal and L L^T = K + s2 I, L P = Y - m(X) (the invariant "
    "IsPosteriorState; established by state_of_factor from a correct Cholesky factor, preserved by update_state)",
    "end-to-end monitors: deviation from the exact dense expression <= (512 n 2^-53 cond(K + s2 I) + 1e-13) * magnitude "
    "(capped at 1e-3); update-vs-recompute additionally allows the perturbation 4 cond |k.diagonal(x) - k(x,x)| / |A| "
    "caused by NUMERICAL_JITTER in Matern52.forward",
]
RULE = ("cases: (a) exact twin: random lower-triangular dyadic factor (n<=6 quick, <=10 thorough; power-of-two or general "
        "diagonal, rarely negative diagonal / garbage above the diagonal / a zero pivot), dyadic P with 1-5 fantasy columns, "
        "dyadic kernel / mean tables, covariance scale as tuple or not, clamped and unclamped variances and update pivots, "
        "mean-impute masks; ops predict, nll, joint (incl. the AddJitterOp outcome), add_jitter (pd / psd / indefinite / negative / hopeless matrices), update, sample_update, predict-after-update. (b) end to end: "
        "Matern-5/2 +-ARD, warping, product, exponential-decay kernels, (kernel, scale) tuples, scalar/zero mean, parameters "
        "random inside the box constraints, duplicate and near-duplicate inputs, 1-4 fantasy columns, against exact Fraction "
        "dense algebra. distinct by sha256 of the spec; non-trivial iff n >= 2 and the case is not degenerate")

_DEV = {}


def gen_cases(rng, tier):
    n_exact, n_e2e = (140, 110) if tier == "quick" else (2500, 2000)
    for _ in range(n_exact):
        yield gp.gen_exact08(rng, tier)
    for _ in range(n_e2e):
        yield gp.gen_e2e08(rng, tier)
    # the surrogate object through a life cycle (appended: the cases above stay the same for a seed)
    for _ in range(14 if tier == "quick" else 150):
        yield gp.gen_gpm08(rng, tier)


def corpus():
    base = {"kind": "exact08", "pow2diag": False, "neg_diag": False, "tuple_scale": True, "clamp_update": False,
            "clamp_var": False, "garbage_upper": False, "zero_mean": False, "singular": False, "mask": False}
    out = [
        dict(base, seed=1, n=1, m=1, t=1),
        dict(base, seed=2, n=3, m=2, t=2, pow2diag=True),
        dict(base, seed=3, n=4, m=1, t=3, clamp_update=True, clamp_var=True),
        dict(base, seed=4, n=3, m=3, t=2, singular=True),
        dict(base, seed=5, n=5, m=5, t=4, neg_diag=True, mask=True, tuple_scale=False),
        dict(base, seed=6, n=4, m=2, t=2, garbage_upper=True, zero_mean=True),
    ]
    for i, model in enumerate(gp.E2E_KINDS):
        out.append({"kind": "e2e08", "seed": 100 + i, "model": model, "d": 2, "n": 5, "m": 2, "t": 3,
                    "zero_mean": i % 2 == 0, "dups": ["none", "dup", "near"][i % 3], "small_noise": i == 1})
    return out


def run_impl(spec):
    if spec["kind"] == "exact08":
        return gp.run_exact08(spec)
    if spec["kind"] == "gpm08":
        return gp.run_gpm08(spec)
    return gp.run_e2e08(spec)


def nontrivial(trace):
    for k, v in trace.get("meta", {}).get("dev", {}).items():
        _DEV[k] = max(_DEV.get(k, 0.0), float(v))
    return bool(trace.get("meta", {}).get("nontrivial"))


def extra(ctx):
    ctx.notes["exact_twin_max_relative_deviation"] = gp.STATS.get("max_rel_dev")
    ctx.notes["exact_twin_relative_deviation_per_output"] = {k[4:]: v for k, v in sorted(gp.STATS.items()) if k.startswith("dev:")}
    ctx.notes["exact_twin_AddJitterOp_cases_with_jitter_added"] = gp.STATS.get("jitter_cases", 0)
    ctx.notes["exact_twin_AddJitterOp_upper_bound_assertions"] = gp.STATS.get("jitter_assertions", 0)
    ctx.notes["e2e_max_deviation_over_tolerance"] = dict(sorted(_DEV.items()))
