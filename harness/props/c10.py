"""C10 — Simulated experiments replay the benchmark table faithfully in values and time."""
from fractions import Fraction

from streams import sim
from streams.sim import compare  # noqa: F401

PID = "C10"
LEVEL = "proof"
LEAN_TARGETS = ["SyneTune.Props.C10"]
DRIVER = "SyneTune/Drivers/Sim.lean"
THEOREMS = [
    "SyneTune.C10.values",
    "SyneTune.C10.seed_stable",
    "SyneTune.C10.levels",
    "SyneTune.C10.levels_consecutive",
    "SyneTune.C10.timestamp",
    "SyneTune.C10.monotone_clock",
    "SyneTune.C10.stamp_after_start",
    "SyneTune.C10.fifo_ties",
    "SyneTune.C10.wait_once_sleep",
    "SyneTune.C10.wait_once_stop",
    "SyneTune.C10.stop_removes",
]
TRUSTED = [
    "hand-written models lean/SyneTune/Model/{Simulator,TabularBackend}.lean tied to /repo by the sim correspondence "
    "stream (every operation: clock, complete event heap with counters, queues, seen-index, busy set, statuses, seeds, "
    "paused levels, delivered rows and st_tuner_time compared exactly)",
    "Python harness harness/streams/sim.py (synthetic BlackboxTabular, harness clock replacing `time` inside time_keeper.py)",
    "IEEE-754 binary64 addition/subtraction = correctly rounded exact result (model `Arith.ieee`); the theorems are stated "
    "for an arbitrary arithmetic with `AddGe` (adding a non-negative number does not decrease) where needed",
    "heapq modelled as 'pop the minimum (time, counter)'; pandas index lookup of a configuration (position in the table is an input)",
    "literal constants 1e-3 (stop guards) and 0.01 (time repair) are read from the source of the real functions by ast and passed to the model",
]
ASSUMPTIONS = [
    "real time spent outside the backend is an input (harness clock); np.random.randint draws are a recorded tape",
    "`st_tuner_time` of a run is relative to the time of its StartEvent (`now + delay_start` at start_trial / resume_trial)",
    "theorems about delivered results are over histories in which no operation raised (a raising operation ends the history)",
]
RULE = ("cases: real UserBlackboxBackend over a synthetic BlackboxTabular (1-4 configs, 1-3 seeds, 1-6 fidelities incl. "
        "non-contiguous fidelity values, 1-3 objectives, time column cumulative / noisy / non-monotone / flat / arbitrary "
        "doubles), random delays (dyadic, zero, and the 0.05 defaults), sleep time, checkpointing on/off, max_resource_attr "
        "on/off, fixed or per-trial seed; history of start / sleep / fetch / pause(level) / stop / resume(new config) / "
        "tick (real time) / advance / busy / stop_all with decisions after delivered results; distinct by sha256 of the "
        "spec; non-trivial iff a resumed run delivered a result or an elapsed time was repaired or a stop/pause removed "
        "pending events")


def gen_cases(rng, tier):
    n = 120 if tier == "quick" else 2500
    for _ in range(n):
        yield {
            "ctor": sim.gen_ctor(rng),
            "np_seed": rng.randrange(2 ** 31),
            "seed": rng.randrange(10 ** 9),
            "steps": rng.choice([20, 40, 60]) if tier == "quick" else rng.choice([30, 60, 120, 250]),
            "n_workers": rng.randint(1, 4),
            "p": {"p_pause": rng.choice([0.1, 0.2, 0.35]), "p_stop": rng.choice([0.05, 0.1]),
                  "p_resume_now": rng.choice([0.0, 0.3, 0.6]), "odd_fetch": rng.choice([0.0, 0.1]),
                  "bad": rng.choice([0.0, 0.04])},
        }


def corpus():
    import json, os
    p = os.path.join(os.path.dirname(__file__), "..", "corpus", "c10.json")
    return json.load(open(p)) if os.path.exists(p) else []


def c10_monitor(spec, trace):
    """direct reading of C10 on the implementation trace"""
    out = []
    ctor = spec["ctor"]
    runs, deliveries, problems = sim.reconstruct(spec, trace)
    for pr in problems:
        if pr["kind"] == "values":
            out.append({"signature": "c10:values-or-level", "what":
                        f"trial {pr['trial']} delivered level {pr['level']} with values {pr['values']} that no run of the "
                        "trial can report according to the table (configuration, seed, level range)", "detail": pr})
        else:
            out.append({"signature": "c10:timestamp", "what":
                        f"trial {pr['trial']} level {pr['level']}: st_tuner_time {pr['time']} is not start + elapsed since "
                        f"resume point + delays (expected one of {pr['expected_stamps']})", "detail": pr})
    # a result is not stamped before the start of its run
    for d in deliveries:
        if d["run"] is not None and d["time"] < runs[d["trial"]][d["run"]]["start"]:
            out.append({"signature": "c10:stamp-before-start", "what": "result stamped before its run started", "detail": str(d)})
    sleep = Fraction(ctor["sleep"])
    g = Fraction(ctor["guard"])
    d_stop = Fraction(ctor["delays"]["delay_stop"])
    d_cs = Fraction(ctor["delays"]["delay_complete_after_stop"])
    for e in trace["events"]:
        op = e["op"]
        if "err" in e["out"]:
            continue
        nb, na = Fraction(e["now_before"]), Fraction(e["now"])
        if na < nb:
            out.append({"signature": "c10:clock-backwards", "what": f"{op['op']}: clock went from {nb} to {na}", "detail": op})
        if op["op"] == "sleep" and not sim.close(na, nb + sleep):
            out.append({"signature": "c10:sleep-not-charged-once", "what":
                        f"on_tuning_sleep moved the clock from {nb} to {na}, tuner_sleep_time = {sleep}", "detail": op})
        if op["op"] in ("pause", "stop"):
            t0 = nb + Fraction(op["_outside"])
            t1 = max(t0, t0 + d_stop + g)
            t2 = max(t1, t1 + d_cs + g)
            if not sim.close(na, t2):
                out.append({"signature": "c10:stop-delays-not-charged-once", "what":
                            f"{op['op']} at clock {t0} left the clock at {na}, expected {t2}", "detail": op})
            if op["trial"] in e["heap_trials"]:
                out.append({"signature": "c10:event-left-after-stop", "what":
                            f"events of trial {op['trial']} remain in the heap after {op['op']}", "detail": op})
    return out, runs, deliveries


def run_impl(spec):
    t = sim.run_scenario(spec)
    mon, runs, deliveries = c10_monitor(spec, t)
    resumed = sum(1 for d in deliveries if d["run"] is not None and d["run"] >= 1)
    repairs = 0
    tcol = spec["ctor"]["table"]["tcol"]
    for rs in runs.values():
        for r in rs:
            if r["expected"]:
                off = Fraction(0)
                repairs += sum(1 for i, (f, vals, el) in enumerate(r["expected"]) if r["paused"] is None and el != vals[tcol])
    hist = dict(t["hist"])
    hist["delivered"] = len(deliveries)
    hist["delivered-from-resumed-run"] = resumed
    hist["repaired-elapsed-times"] = repairs
    hist["checkpointing:" + str(spec["ctor"]["checkpointing"])] = 1
    hist["max_resource_attr:" + str(spec["ctor"]["max_resource_attr"])] = 1
    hist["time-column:" + spec["ctor"]["table"]["time"]] = 1
    return {"lines": t["lines"], "monitor": mon,
            "meta": {"hist": hist, "resumed": resumed, "repairs": repairs,
                     "stops": hist.get("op:pause", 0) + hist.get("op:stop", 0)}}


def nontrivial(trace):
    m = trace.get("meta", {})
    return m.get("resumed", 0) >= 1 or m.get("repairs", 0) >= 1 or m.get("stops", 0) >= 1
