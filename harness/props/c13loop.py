"""loop-side cases of C13 (failures contained): real Tuner runs with failing / externally stopped trials."""
from streams import loop

LOOP = "SyneTune/Drivers/Loop.lean"


def gen_cases(rng, tier):
    n = 30 if tier == "quick" else 500
    k = 0
    while k < n:
        spec = loop.gen_spec(rng, tier)
        if spec["backend"] != "script":
            continue
        spec["backend_params"]["p_fail"] = rng.choice([0.15, 0.3, 0.5])
        spec["backend_params"]["p_extstop"] = rng.choice([0.0, 0.1, 0.2])
        spec["backend_params"]["p_end_same_poll"] = rng.choice([0.0, 0.5, 1.0])
        spec["max_failures"] = rng.choice([0, 1, 2, 3, 10])
        spec["kind"] = "loop"
        k += 1
        yield spec
    # simulator back-end: training runs which fail before their first report (no result at all) or after a few reports
    n = 12 if tier == "quick" else 200
    k = 0
    while k < n:
        spec = loop.gen_spec(rng, tier)
        if spec["backend"] != "sim":
            continue
        spec["sim"]["p_fail0"] = rng.choice([0.15, 0.3, 0.5])
        spec["sim"]["p_failk"] = rng.choice([0.0, 0.15, 0.3])
        spec["max_failures"] = rng.choice([0, 1, 2, 3, 10])
        spec["inject"] = None
        spec["kind"] = "loop"
        k += 1
        yield spec


def run_impl(spec):
    t = loop.run_loop(spec)
    try:
        lines = loop.to_lines(t)
        mon = loop.monitor_c13_loop(t) + [f for f in loop.monitor_k(t) if "resume-after-failure" in f["signature"]]
        # the loop-side clause "the scheduler is notified once per failure" is also what c01:end-notified-twice violates
        mon += [f for f in loop.monitor_c01(t) if f["signature"] == "c01:end-notified-twice"]
        hist = loop.histogram(t)
        hist["kind:loop:" + spec["backend"]] = 1
        fails = hist.get("call:sched.error", 0) + hist.get("polled:Failed", 0)
        return {"lines": lines, "driver": LOOP, "monitor": mon,
                "meta": {"hist": hist, "nontrivial": fails > 0}}
    finally:
        loop.cleanup(t)
