"""C07 — Domains: samples and decoded vectors are members; encoding round-trips."""
from streams import domain
from streams.domain import compare  # noqa: F401

PID = "C07"
LEVEL = "proof"
LEAN_TARGETS = ["SyneTune.Props.C07"]
DRIVER = "SyneTune/Drivers/Domain.lean"
TRUSTED = [
    "hand-written models lean/SyneTune/Model/{Domains,Encoding}.lean tied to /repo by the domain correspondence stream",
    "Python harness harness/streams/domain.py (tape random_state stub with numpy's uniform formula, wire conversion by Fraction)",
    "exp/log: abstract scaling in the theorems (hypotheses: inverse on the range, monotone); the driver instantiates it "
    "with Lean Float.log/Float.exp (libm), compared with relative 1e-12 plus a conditioning allowance printed by the driver",
    "IEEE-754 rounding of the implementation is outside the model: rounding / nearest-neighbour decisions whose argument "
    "is within 2^-40 relative (plus the allowance) of the boundary are 'free' (the model lists both outcomes); continuous "
    "values up to 4 ulp (times the internal magnitude for log scales) beyond a bound are counted as ulp_excursions",
]
ASSUMPTIONS = [
    "random_state draws are inputs: uniform(a,b) = a + (b-a)*u with u in [0,1), randint/choice return an integer of the range",
    "numeric parameters are finite doubles / integers below 2^50; categories are str, int or float of one type",
    "cast is applied to members (and to numbers for numeric domains); Normal sampler, Grid sampler and function domains are not covered",
]
RULE = ("cases: 1-4 hyperparameters drawn from all 15 public constructors (bounds log-uniform over ~30 decades, negative, "
        "zero, tiny (few ulp) and degenerate lower==upper intervals, integer bounds up to 2^46, one category, size 1), "
        "optional active_config_space (sub-intervals, subsets, contiguous subsequences), name_last_pos/value_for_last_pos, "
        "prefix_keys; per domain: tape draws 0, 1-2^-53 and random interior, size=1 and size=3, cast and is_valid of all "
        "listed members; per space: encode/decode round trip of member configurations, every cube corner (ndarray_size<=6, "
        "else a covering sample), interior points, EPS-margin points, points outside, every corner of the get_ndarray_bounds box "
        "and interior points of it, JSON round trip; distinct by sha256 of the spec; non-trivial iff the case decoded a cube "
        "corner, used a boundary draw and has at least 20 compared lines")

THEOREMS = [
    "SyneTune.C07.decode_member",
    "SyneTune.C07.decode_wrong_length",
    "SyneTune.C07.decode_rejects_outside",
    "SyneTune.C07.encode_cube",
    "SyneTune.C07.bounds_in_cube",
    "SyneTune.C07.roundtrip_partial",
    "SyneTune.C07.scalingHyp_lin",
    "SyneTune.C07.roundtrip_linear",
    "SyneTune.C07.roundtrip_logfin_castint_counterexample",
    "SyneTune.C07.active_partial",
    "SyneTune.C07.active_onehot_partial",
    "SyneTune.C07.active_onehot_counterexample",
    "SyneTune.C07.sample_member_partial",
    "SyneTune.C07.qrandint_partial",
    "SyneTune.C07.qrandint_counterexample",
    "SyneTune.C07.sample_list_member_partial",
    "SyneTune.C07.sample_list_quantised_int_example",
    "SyneTune.C07.nn_single_sample_counterexample",
    "SyneTune.C07.nn_single_encoder_counterexample",
    "SyneTune.C07.cast_member",
    "SyneTune.C07.cast_member_id",
    "SyneTune.C07.json_roundtrip_partial",
    "SyneTune.C07.json_rlog_restored",
    "SyneTune.C07.json_quantized_counterexample",
]


def corpus():
    """fixed cases that always run first: witnesses of the `_counterexample` theorems and of the
    findings, replayed on the real code"""
    def one(dom, active=None, **kw):
        s = {"hps": [{"name": "x", "dom": dom, "active": active}], "seed": 1, "n_points": 6}
        s.update(kw)
        return s
    return [
        one({"k": "qrandint", "lo": 1, "hi": 10, "q": 4}),                                      # F6
        one({"k": "choice", "cats": ["a", "b", "c", "d"]}, {"k": "choice", "cats": ["b", "c"]}),  # F7
        one({"k": "reverseloguniform", "lo": 0.1, "hi": 0.9}),
        one({"k": "reverseloguniform", "lo": 0.0, "hi": 1e-10}),
        one({"k": "ordinal", "cats": [5], "kind": "nn"}),
        one({"k": "ordinal", "cats": [3.0], "kind": "nn-log"}),
        one({"k": "randint", "lo": 134250960, "hi": 134250962}, {"k": "randint", "lo": 134250960, "hi": 134250961}),
        one({"k": "lograndint", "lo": 140767653771162, "hi": 140767653771167}),
        one({"k": "lograndint", "lo": 81217153441673, "hi": 244198402052845}),
        one({"k": "logfinrange", "lo": 1.5, "hi": 150.0, "size": 10, "cast_int": True}),
        one({"k": "logfinrange", "lo": 0.6, "hi": 1.6, "size": 2, "cast_int": True}),
        # degenerate but legal: everything must hold
        one({"k": "uniform", "lo": 2.5, "hi": 2.5}),
        one({"k": "randint", "lo": 7, "hi": 7}),
        one({"k": "choice", "cats": ["only"]}),
        one({"k": "ordinal", "cats": [3], "kind": "equal"}),
        one({"k": "finrange", "lo": 0.5, "hi": 0.5, "size": 1, "cast_int": False}),
        one({"k": "logfinrange", "lo": 1.0, "hi": 100.0, "size": 5, "cast_int": True}),
        {"hps": [{"name": "lr", "dom": {"k": "loguniform", "lo": 1e-6, "hi": 1.0}, "active": {"k": "loguniform", "lo": 1e-4, "hi": 1e-2}},
                 {"name": "epochs", "dom": {"k": "randint", "lo": 1, "hi": 81}, "active": None},
                 {"name": "opt", "dom": {"k": "choice", "cats": ["sgd", "adam", "rms"]}, "active": None}],
         "seed": 2, "n_points": 6, "name_last_pos": "epochs", "fix_last": True},
    ]


def gen_cases(rng, tier):
    n = 160 if tier == "quick" else 4000
    for i in range(n):
        kinds = None
        if i % 8 == 0:  # a slice of cases concentrated on one kind each, so that every constructor is hit in every run
            kinds = [domain.KINDS[(i // 8) % len(domain.KINDS)]]
        yield domain.gen_case(rng, tier, kinds)


def run_impl(spec):
    return domain.run_case(spec)


def nontrivial(trace):
    h = trace.get("meta", {}).get("hist", {})
    return (h.get("decode:corner", 0) >= 1 and (h.get("draw:lo", 0) + h.get("draw:hi", 0)) >= 1
            and trace.get("meta", {}).get("n_lines", 0) >= 20)


COUNTEREXAMPLE_SIGNATURES = {
    # Lean `_counterexample` theorem -> signature the corpus replay must raise on the real code
    "SyneTune.C07.qrandint_counterexample": "c07:qrandint-sample-outside-bounds",
    "SyneTune.C07.active_onehot_counterexample": "c07:onehot-zero-corner-inactive-category",
    "SyneTune.C07.json_quantized_counterexample": "c07:json-quantized-not-serialisable",
    "SyneTune.C07.nn_single_sample_counterexample": "c07:ordinal-nn-single-category-sample-raises",
    "SyneTune.C07.nn_single_encoder_counterexample": "c07:ordinal-nn-single-category-not-encodable",
    "SyneTune.C07.roundtrip_logfin_castint_counterexample": "c07:logfinrange-castint-roundtrip-changes-value",
}


def extra(ctx):
    """the witnesses of the `_counterexample` theorems are corpus cases; record whether the real
    code still shows each of them (if not, the model has drifted from the code at that point and the
    correspondence lines of the same corpus case disagree)"""
    seen = {f["signature"] for f in ctx.findings}
    ctx.notes["counterexamples_replayed_on_real_code"] = {
        thm: (sig in seen) for thm, sig in COUNTEREXAMPLE_SIGNATURES.items() if thm in THEOREMS
    }
    ctx.notes["ulp_excursions"] = ctx.hist.get("ulp_excursions", 0)
    # generator targets (DESIGN appendix C, stream `domain`): every constructor, corners, interior
    # points and both boundary draws must have been exercised by a full run
    if ctx.evaluations >= 100:
        tags = [k if not k.startswith("ordinal") else k for k in domain.KINDS]
        missing = [t for t in tags if ctx.hist.get("kind:" + t, 0) == 0]
        for key in ("decode:corner", "decode:interior", "decode:box-corner", "decode:eps-margin", "draw:lo", "draw:hi",
                    "with-active", "with-fixed-last", "degenerate:lower==upper", "degenerate:one-category",
                    "degenerate:size-1", "roundtrip", "json"):
            if ctx.hist.get(key, 0) == 0:
                missing.append(key)
        ctx.notes["generator_targets_missing"] = missing
        if missing:
            raise RuntimeError("weak generator: never produced " + ", ".join(missing))
        lines = max(1, ctx.hist.get("lines", 1))
        ctx.notes["free_fraction"] = round(ctx.free / lines, 4)
