"""C13 — trial failures are contained (assembled from the hb, sync, loop and generic streams)."""
import contextlib
import io
import json
import os
import subprocess
import sys

from streams import hb, sync, generic as g
from props import c04, c05, c14
from props.c03 import gen_ctor

PID = "C13"
LEVEL = "proof"
HB, SYNC, LOOP = "SyneTune/Drivers/Hb.lean", "SyneTune/Drivers/Sync.lean", "SyneTune/Drivers/Loop.lean"
SEARCHER = "SyneTune/Drivers/Searcher.lean"
DRIVER = HB
from streams import loop as _loop
from streams import searcher as _searcher
COMPARE = {HB: hb.compare, SYNC: sync.compare, LOOP: _loop.compare, SEARCHER: _searcher.compare}
LEAN_TARGETS = ["SyneTune.Props.C13Hb", "SyneTune.Props.C13Sync", "SyneTune.Props.C13Loop", "SyneTune.Props.C14", "SyneTune.Props.C06", "SyneTune.Props.C04K"]
THEOREMS = [
    "SyneTune.C13Hb.error_contained",
    "SyneTune.C13Hb.failed_running_trial_not_resumed",
    "SyneTune.C13Sync.sync_total",
    "SyneTune.C13Sync.sync_no_wait",
    "SyneTune.C13Sync.no_orphan_slot",
    "SyneTune.C13Sync.occupied_slots_stable",
    "SyneTune.C13Sync.no_resume_failed_partial",
    "SyneTune.C13Sync.no_resume_failed_counterexample",
    "SyneTune.C13Loop.notified_failed",
    "SyneTune.C13Loop.notified_external_stop",
    "SyneTune.C13Loop.notified_once",
    "SyneTune.C13Loop.continues",
    "SyneTune.C13Loop.abort_names_failed",
    "SyneTune.C04K.resume_only_not_running",
    "SyneTune.C14.failed_spec",
    "SyneTune.C14.cleanup_spec",
    "SyneTune.C06.no_repeat_failed",
]
TRUSTED = [
    "models of the asynchronous Hyperband scheduler (Model/HB.lean), the synchronous Hyperband scheduler (Model/Sync*.lean), the "
    "searcher data bookkeeping (Model/SearcherState.lean), the exclusion list (Model/Exclusion.lean) and the tuning loop "
    "(Model/Tuner.lean), each tied to /repo by its correspondence stream with failures injected at arbitrary points",
    "schedulers without a Lean model (DEHB's DE operators, PBT, median rule, MOASHA, regularized evolution) are decided by the "
    "generic failure runs only (no exception, failed trial never resumed, run carries on)",
]
ASSUMPTIONS = ["a failed trial is one the loop reports through on_trial_error; workers of other trials obey their contracts"]
RULE = ("cases: (hb) real HyperbandScheduler of all types incl. model-based searchers with failures at random points of a trial's "
        "life, against the model; (sync) real synchronous Hyperband with failure subsets, against the model; (loop) real Tuner runs "
        "with failing trials and max_failures (scripted back-end; simulator back-end with runs that fail before their first report, "
        "judged against the simulator's own complete events), against the loop model; (generic) every scheduler the library ships driven with "
        "5-30% failures: no scheduler call may raise, a failed trial is never resumed, other trials keep getting decisions; (probe) "
        "DEHB with few brackets under a watchdog. distinct by sha256 of the spec; non-trivial iff at least one trial failed and "
        "at least one other trial got a decision afterwards")
HERE = os.path.dirname(os.path.dirname(os.path.abspath(__file__)))


def gen_cases(rng, tier):
    n = 30 if tier == "quick" else 400
    for _ in range(n):
        typ = rng.choice(["stopping", "promotion", "promotion", "rush_stopping", "rush_promotion", "cost_promotion", "pasha"])
        c = gen_ctor(rng, typ)
        c["max_resource_attr"] = rng.random() < 0.6
        if typ.startswith("rush"):
            c["num_threshold_candidates"] = rng.choice([0, 1, 2])
        if typ == "cost_promotion":
            c["cost"] = True
        if typ == "pasha":
            c["brackets"] = 1
        if typ in ("stopping", "promotion") and rng.random() < 0.4:
            c["searcher"] = rng.choice(["bayesopt", "hypertune"])
            if c["searcher"] == "hypertune" and c["brackets"] == 1:
                c["brackets"] = 2
        try:
            hb.make_scheduler(c)
        except AssertionError:
            continue
        yield {"kind": "hb", "ctor": c, "seed": rng.randrange(10 ** 9), "n_workers": rng.randint(2, 6),
               "max_events": rng.choice([40, 80]) if tier == "quick" else rng.choice([80, 250]),
               "style": "grid" if c.get("searcher") else rng.choice(["general", "grid", "ties"]),
               "checkpointing": rng.random() < 0.6, "p_fail": rng.choice([0.05, 0.1, 0.3])}
    m = 25 if tier == "quick" else 400
    for _ in range(m):
        spec = c05.gen_scheduler_case(rng, tier)
        spec["p_fail"] = rng.choice([0.05, 0.15, 0.4, 0.8])
        spec["kind"] = "sync"
        yield spec
    k = 28 if tier == "quick" else 420
    names = list(g.SCHEDULERS)
    for i in range(k):
        name = names[i % len(names)]
        yield {"kind": "generic", "name": name, "sched_seed": rng.randrange(10 ** 6), "seed": rng.randrange(10 ** 9),
               "cs_kind": "finite" if name == "fifo-grid" else rng.choice(["mixed", "cont"]),
               "n_workers": rng.randint(2, 5), "max_events": rng.choice([60, 120]) if tier == "quick" else rng.choice([120, 300]),
               "style": "distinct", "p_fail": rng.choice([0.05, 0.15, 0.3]), "max_t": rng.choice([1, 2, 3]) if name.startswith("fifo-") else rng.choice([9, 27]),
               "extra": {"brackets": 1 if name == "hb-pasha" else (None if name in ("dehb", "sync-hb") else rng.choice([1, 2, 3]))},
               "modes": ["min", "max"]}
    # DEHB with few brackets and failures (suggest() hangs / raises: known findings); short watchdog
    for sd in (0, 7):
        yield {"kind": "generic", "name": "dehb", "sched_seed": sd, "seed": sd, "cs_kind": "mixed", "n_workers": 3,
               "max_events": 150, "style": "distinct", "p_fail": 0.1, "max_t": 9, "extra": {"brackets": 1 if sd == 0 else 2},
               "modes": ["min", "max"], "call_timeout": 8.0}
    # model-based searchers on small finite spaces with many failures, duplicates allowed or not: a failed configuration
    # is never suggested again
    from props import c06
    for _ in range(16 if tier == "quick" else 160):
        spec = c06.gen_gp_case(rng, tier)
        while not any(k for k in spec["space"]):
            spec = c06.gen_gp_case(rng, tier)
        spec.update({"kind": "gp", "p_fail": rng.choice([0.2, 0.35]), "p_nan": 0, "allow_duplicates": rng.random() < 0.6,
                     "n_suggest": 14 if tier == "quick" else 20})
        yield spec
    for spec in _loop_cases(rng, tier):
        yield spec
    # random search restricted to a list of configurations, duplicates allowed or not, with failing trials: the searcher's
    # black list of failed configurations is the only thing that keeps them from being drawn from the list again
    # (appended: the cases above stay the same for a seed)
    for i in range(12 if tier == "quick" else 150):
        spec = _searcher.gen_restricted_case(rng, i)
        spec.update({"stream": "restricted", "p_fail": rng.choice([0.2, 0.4])})   # (`kind` is the searcher's kind here: random)
        yield spec


def _loop_cases(rng, tier):
    from props import c13loop
    return c13loop.gen_cases(rng, tier)


def corpus():
    return []


def run_impl(spec):
    kind = spec["kind"]
    if kind == "gp":
        from props import c06
        t = _searcher.run_gp_scenario(spec)
        mon = [dict(f, signature=f["signature"].replace("c06:", "c13:")) for f in c06.monitor(spec, t)
               if f["signature"] == "c06:failed-config-suggested-again"]
        ev = t["events"]
        fails = [i for i, e in enumerate(ev) if e["ev"] == "failed"]
        nt = bool(fails) and any(e["ev"] == "suggest" for e in ev[fails[0]:])
        return {"lines": t["lines"], "driver": SEARCHER, "monitor": mon,
                "meta": {"hist": {"kind:gp": 1, "failures": len(fails), "gp_allow_duplicates:" + str(bool(spec.get("allow_duplicates"))): 1},
                         "nontrivial": nt}}
    if spec.get("stream") == "restricted":
        t = _searcher.run_searcher_scenario(spec)
        ev = t["events"]
        mon, cfg_of, failed_cfgs = [], {}, []
        # a searcher driven without a scheduler learns the configuration of a trial through register_pending (schedulers
        # always call it; the scenario leaves it out for some trials): only then can it black-list it
        registered = {l[0]["trial"] for l in t["lines"] if l[0].get("op") == "register_pending"}
        for e in ev:
            if e["ev"] == "suggest":
                hit = next((tid for tid, fc in failed_cfgs if fc == e["config"]), None)
                if hit is not None and not mon:
                    mon.append({"signature": "c13:failed-config-suggested-again",
                                "what": f"restrict_configurations, allow_duplicates={spec['ctor']['allow_duplicates']}: trial {e['trial']} is given "
                                        f"the configuration {e['config']!r} of failed trial {hit}", "detail": {"config": repr(e["config"])}})
                cfg_of[e["trial"]] = e["config"]
            elif e["ev"] == "failed" and e["trial"] in cfg_of and (spec.get("sched") or e["trial"] in registered):
                failed_cfgs.append((e["trial"], cfg_of[e["trial"]]))
        fails = [i for i, e in enumerate(ev) if e["ev"] == "failed"]
        nt = bool(fails) and any(e["ev"] == "suggest" for e in ev[fails[0]:])
        return {"lines": t["lines"], "driver": SEARCHER, "monitor": mon,
                "meta": {"hist": {"kind:restricted": 1, "failures": len(fails),
                                  "restricted_allow_duplicates:" + str(bool(spec["ctor"]["allow_duplicates"])): 1}, "nontrivial": nt}}
    if kind == "hb":
        t = hb.run_scenario(spec)
        sched = t.pop("sched")
        mon = []
        for f in c04.promotion_monitor(spec, t["events"], sched) if sched.does_pause_resume() else []:
            if f["signature"] in ("c04:failed-trial-resumed",) or f["signature"].startswith("c04:scheduler-raises"):
                mon.append(dict(f, signature=f["signature"].replace("c04:", "c13:hb-")))
        for e in t["events"]:
            if e["ev"] == "error-raised":
                mon.append({"signature": "c13:hb-on-trial-error-raises", "what": f"on_trial_error raised {e['err']}", "detail": e})
        if spec["ctor"].get("searcher") and len(t["events"]) == len(t["lines"]) - 1:
            for f in c14.data_monitor(spec, t["lines"], t["events"]):
                mon.append(dict(f, signature=f["signature"].replace("c14:", "c13:searcher-")))
        fails = [i for i, e in enumerate(t["events"]) if e["ev"] == "error"]
        nt = bool(fails) and any(e["ev"] == "result" for e in t["events"][fails[0]:])
        # known PASHA crashes are C04 findings, not failure containment
        mon = [f for f in mon if ":pasha:index-error" not in f["signature"]]
        return {"lines": t["lines"], "driver": HB, "monitor": mon,
                "meta": {"hist": {"kind:hb": 1, "failures": len(fails)}, "nontrivial": nt}}
    if kind == "sync":
        t = sync.run_scheduler(spec)
        mon = sync.monitor_c13_sync(t)
        fails = sum(1 for e in t["events"] if e["ev"] == "error")
        return {"lines": t["lines"], "driver": SYNC, "monitor": mon,
                "meta": {"hist": {"kind:sync": 1, "failures": fails}, "nontrivial": fails > 0}}
    if kind == "generic":
        name = spec["name"]
        old_to = g.CALL_TIMEOUT
        g.CALL_TIMEOUT = spec.get("call_timeout", old_to)
        try:
            with contextlib.redirect_stdout(io.StringIO()):
                s = g.make_scheduler(name, spec["modes"] if name == "moasha" else "min", spec["sched_seed"], spec["cs_kind"],
                                     spec["max_t"], spec["extra"])
                ev = g.drive(s, spec)
        finally:
            g.CALL_TIMEOUT = old_to
        mon = []
        failed = set()
        seen_fail = False
        later = False
        for e in ev:
            if e[0] == "error":
                failed.add(e[1])
                seen_fail = True
            elif e[0] == "exception":
                if seen_fail:
                    mon.append({"signature": f"c13:scheduler-raises-after-failure:{name}:{e[1]}:{e[2]}",
                                "what": f"{name}: {e[1]} raised {e[2]} after {len(failed)} trial failure(s)", "detail": {"trace_tail": ev[-6:]}})
            elif e[0] == "suggest" and e[1] == "resume" and e[2] in failed:
                # synchronous brackets (also DEHB's) fill a short rung up with failed trials: the known finding of C05
                sig = "c05:failed-trial-promoted" if name in ("sync-hb", "dehb") else f"c13:failed-trial-resumed:{name}"
                mon.append({"signature": sig, "what": f"{name}: failed trial {e[2]} is resumed",
                            "detail": {"trace_tail": ev[-6:]}})
            elif e[0] == "result" and seen_fail:
                later = True
        return {"lines": [], "monitor": mon, "meta": {"hist": {"kind:generic:" + name: 1, "failures": len(failed)},
                                                        "nontrivial": seen_fail and later}}
    if kind == "loop":
        from props import c13loop
        return c13loop.run_impl(spec)
    raise ValueError(kind)


def nontrivial(trace):
    return bool(trace.get("meta", {}).get("nontrivial"))
