"""C04 — promotion-type Hyperband (ASHA, PASHA, cost-aware, RUSH) promotes only eligible trials."""
from fractions import Fraction

import numpy as np

from streams import hb
from streams.hb import compare  # noqa: F401
from props.c03 import gen_ctor

PID = "C04"
LEVEL = "proof"
LEAN_TARGETS = ["SyneTune.Props.C04", "SyneTune.Props.C04K"]
DRIVER = "SyneTune/Drivers/Hb.lean"
THEOREMS = [
    "SyneTune.C04.pause_exactly_at_milestone",
    "SyneTune.C04.milestone_is_next_level",
    "SyneTune.C04.eligible",
    "SyneTune.C04.else_new",
    "SyneTune.C04.not_promotable_means",
    "SyneTune.C04.history_invariant",
    "SyneTune.C04.promoted_once",
    "SyneTune.C04.promotion_recorded",
    "SyneTune.C04.pasha_cap_monotone",
    "SyneTune.C04.cost_rule",
    "SyneTune.C04.rush_rule",
    "SyneTune.C04.rush_stopping_stricter",
    "SyneTune.C04K.kinv_all_histories",
    "SyneTune.C04K.resume_only_not_running",
    "SyneTune.C04K.init_KInv",
]
TRUSTED = [
    "hand-written model lean/SyneTune/Model/{Rung,HB}.lean tied to /repo by the hb correspondence stream",
    "Python harness harness/streams/hb.py (scripted workers, stub searcher, recording RandomState proxy)",
    "sortedcontainers.SortedList modelled as stable insertion after equal keys",
    "IEEE-754 rounding of the cutoff / cost threshold: comparisons within 2^-40 relative are 'free'",
    "PASHA epsilon (numpy percentile over a set-ordered list) is an input of the model",
]
ASSUMPTIONS = [
    "workers report positive integer resources in increasing order within a run and stop when told to pause",
    "the searcher always returns a configuration; bracket draw is an input",
]
RULE = ("cases: real HyperbandScheduler(type in promotion, pasha, cost_promotion, rush_promotion) with random rung "
        "systems, 1-4 brackets shared or per-bracket, both modes, max_resource_attr on/off, checkpointing on/off, "
        "1-6 concurrent scripted workers, dyadic metrics and costs (plus tie / constant streams), failures; long PASHA runs with rung "
        "levels far apart (reports between rung levels, where epsilon moves); "
        "distinct by sha256 of the spec; non-trivial iff at least one promotion (resume) happened")
TYPES = ["promotion", "promotion", "pasha", "pasha", "cost_promotion", "rush_promotion"]


def gen_cases(rng, tier):
    n = 80 if tier == "quick" else 800
    for _ in range(n):
        typ = rng.choice(TYPES)
        c = gen_ctor(rng, typ)
        c["max_resource_attr"] = rng.random() < 0.6
        if typ == "cost_promotion" or (typ == "promotion" and rng.random() < 0.25):
            c["cost"] = True
        if typ == "rush_promotion":
            c["num_threshold_candidates"] = rng.choice([0, 1, 2, 4])
        if typ == "pasha" and rng.random() < 0.7:
            c["brackets"] = 1
        try:
            hb.make_scheduler(c)
        except AssertionError:
            continue   # constructor rejects the configuration (e.g. PASHA with an empty per-bracket rung system)
        yield {
            "ctor": c,
            "seed": rng.randrange(10 ** 9),
            "n_workers": rng.randint(1, 6),
            "max_events": rng.choice([40, 80, 160]) if tier == "quick" else rng.choice([80, 250, 600]),
            "style": (rng.choice(["noisy", "noisy", "general", "ties"]) if typ == "pasha" else
                      rng.choice(["general"] * 5 + ["ties", "const", "near4", "near6", "near8", "near10", "tiny", "huge", "neg"])),
            "checkpointing": rng.random() < 0.6,
            "p_fail": rng.choice([0, 0, 0.03]),
        }
    # PASHA, long runs with several workers and rung levels far apart: most reports lie between two rung levels, where the noise
    # estimate (epsilon) still moves and the rankings of the two top rungs are compared again
    k = 0
    while k < (36 if tier == "quick" else 120):
        c = gen_ctor(rng, "pasha")
        c["brackets"] = 1
        c["max_resource_attr"] = rng.random() < 0.6
        if "reduction_factor" in c:
            c.update({"grace_period": rng.choice([1, 2]), "reduction_factor": rng.choice(["3", "4", "7/2", "9/4"]),
                      "max_t": rng.choice([27, 30, 81])})
        try:
            hb.make_scheduler(c)
        except AssertionError:
            continue
        k += 1
        yield {"ctor": c, "seed": rng.randrange(10 ** 9), "n_workers": rng.randint(3, 6), "max_events": 300,
               "style": rng.choice(["noisy", "general", "general"]), "checkpointing": rng.random() < 0.5, "p_fail": 0}


def corpus():
    import json, os
    p = os.path.join(os.path.dirname(__file__), "..", "corpus", "c04.json")
    return json.load(open(p)) if os.path.exists(p) else []


def _f(x):
    return float(Fraction(x))


def _no_worse(mode, a, b):
    return a <= b if mode == "min" else a >= b


def promotion_monitor(spec, events, sched):
    out = []
    ctor = spec["ctor"]
    typ, mode, max_t = ctor["type"], ctor["mode"], ctor["max_t"]
    levels = list(sched.rung_levels)
    per = ctor.get("rung_system_per_bracket", False)
    promoted = set()          # (trial, level) promoted so far
    milestone = {}            # trial -> current milestone
    resume_from = {}
    paused = set()
    failed = set()
    caps = {}
    done_cost = {}
    nxt_level = lambda L: next((x for x in levels if x > L), max_t)

    def add(sig, what, ev):
        out.append({"signature": sig, "what": what, "detail": {k: v for k, v in ev.items() if k not in ("before", "after")}})

    for ev in events:
        k = ev["ev"]
        if k == "start":
            b = ev["bracket"]
            first = levels[b] if b < len(levels) else max_t
            milestone[ev["trial"]] = first
            if ev.get("milestone") is not None and ev["milestone"] != first:
                add("c04:first-milestone", f"new trial {ev['trial']} told to run to {ev['milestone']}, first rung of bracket {b} is {first}", ev)
            if first > max_t:
                add("c04:beyond-max", "milestone beyond max_t", ev)
            # nothing was eligible in the rung system of the drawn bracket (plain / pasha only)
            if typ in ("promotion", "pasha"):
                sysi = ev["drawn_bracket"] if per else 0
                cap = ev["before"]["pasha"][sysi][1] if typ == "pasha" else max_t
                for lv, data in ev["before"]["rungs"][sysi]:
                    if lv >= cap:
                        continue
                    el = _eligible(mode, lv, data, _q(levels[(sysi if per else 0):], max_t, lv), sure=True)
                    if el is not None:
                        add("c04:new-trial-although-eligible", f"trial {el} at rung {lv} was eligible for promotion but a new trial was started", ev)
                        break
        elif k == "resume":
            t, frm, ms = ev["trial"], ev["from"], ev["milestone"]
            sysi = ev["drawn_bracket"] if per else 0
            rungs = {lv: data for lv, data in ev["before"]["rungs"][sysi]}
            data = rungs.get(frm, [])
            ids = [e[0] for e in data]
            if t in failed:
                add("c04:failed-trial-resumed", f"trial {t} failed earlier and is resumed", ev)
            if ev.get("running"):
                add("c04:running-trial-resumed", f"trial {t} is still running and is resumed", ev)
            if t not in ids:
                add("c04:resumed-not-in-rung", f"trial {t} resumed from rung {frm} where it has no entry", ev)
                continue
            ent = data[ids.index(t)]
            if ent[2] or (t, frm) in promoted:
                add("c04:promoted-twice", f"trial {t} promoted from rung {frm} a second time", ev)
            promoted.add((t, frm))
            if ms != nxt_level(frm):
                add("c04:wrong-next-level", f"trial {t} resumed from {frm} told to run to {ms}, next rung level is {nxt_level(frm)}", ev)
            if ev.get("cfg_milestone") is not None and ev["cfg_milestone"] != ms:
                add("c04:config-milestone", f"resumed trial's config says run to {ev['cfg_milestone']} but milestone is {ms}", ev)
            cap = ev["before"]["pasha"][sysi][1] if typ == "pasha" else max_t
            if ms > max_t or frm >= cap:
                add("c04:beyond-cap", f"trial {t} promoted from {frm} to {ms} beyond the cap {cap} / max_t {max_t}", ev)
            sys_levels = levels[sysi:] if per else levels
            q = _q(sys_levels, max_t, frm)
            vals = [_f(e[1]) for e in data]
            v = _f(ent[1])
            if typ != "cost_promotion":
                if len(vals) < 2:
                    add("c04:promoted-with-fewer-than-two", f"trial {t} promoted from rung {frm} holding {len(vals)} entries", ev)
                else:
                    cutoff = float(np.quantile(np.array(vals), q if mode == "min" else 1 - q))
                    if abs(v - cutoff) > 1e-12 * max(abs(x) for x in vals) and not _no_worse(mode, v, cutoff):
                        add("c04:promoted-worse-than-quantile", f"trial {t} at rung {frm}: metric {v} worse than quantile {cutoff} (q={q}, mode={mode})", ev)
                if typ != "rush_promotion":
                    for e in data:
                        if not e[2] and e[0] != t and _f(e[1]) != v and _no_worse(mode, _f(e[1]), v):
                            add("c04:better-unpromoted-exists", f"trial {e[0]} unpromoted at rung {frm} is better than promoted trial {t}", ev)
                            break
                    for lv, d2 in ev["before"]["rungs"][sysi]:
                        if lv > frm and lv < cap:
                            el = _eligible(mode, lv, d2, _q(sys_levels, max_t, lv), sure=True)
                            if el is not None:
                                add("c04:higher-rung-eligible", f"trial {el} at higher rung {lv} was eligible but {t} promoted from {frm}", ev)
                                break
            milestone[t] = ms
            resume_from[t] = frm
            paused.discard(t)
        elif k == "result":
            t, r, d = ev["trial"], ev["resource"], ev["decision"]
            if typ == "cost_promotion" and spec.get("checkpointing", True) and ev.get("cost") is not None and ev["prev_decision"] == "CONTINUE":
                # scripts with checkpointing report the cost since the start of the current run: the cost of a trial up
                # to a level is the sum over its runs; that total is what the rung entry has to carry
                total = done_cost.get(t, 0.0) + ev["cost"]
                if d != "CONTINUE":
                    done_cost[t] = total
                if ev.get("rung_costs_after"):
                    sysi = ev["bracket"] if per else 0
                    for (lv, _), row in zip(ev["rungs_after"][sysi], ev["rung_costs_after"][sysi]):
                        if lv == r:
                            for tid_, c_ in row:
                                if tid_ == t and abs(_f(c_) - total) > 1e-9 * max(1.0, total):
                                    add("c04:cost-rule:entry-cost-not-total",
                                        f"cost-aware promotion: trial {t} recorded at rung {r} with cost {_f(c_)}, its runs so far cost {total} in total", ev)
            if typ == "pasha":
                for i, (a, b2) in enumerate(zip(ev["pasha_before"], ev["pasha_after"])):
                    if b2[1] < a[1]:
                        add("c04:pasha-cap-decreased", f"PASHA cap went from {a[1]} to {b2[1]}", ev)
                    if b2[1] not in levels and b2[1] != max_t:
                        add("c04:pasha-cap-not-a-level", f"PASHA cap {b2[1]} is neither a rung level nor max_t", ev)
            if ev["prev_decision"] != "CONTINUE":
                continue
            ms = milestone.get(t)
            if ms is None:
                continue
            if r < ms:
                if d != "CONTINUE":
                    add("c04:paused-before-milestone", f"trial {t} got {d} at {r} before its milestone {ms}", ev)
            elif r == ms:
                want = "STOP" if r >= max_t else "PAUSE"
                if d != want:
                    add("c04:not-paused-at-milestone", f"trial {t} reached milestone {ms} and got {d}, expected {want}", ev)
                else:
                    paused.add(t)
        elif k == "error":
            failed.add(ev["trial"])
        elif k in ("result-error", "suggest-error"):
            # the scripted workers obey the contract (consecutive levels, stop when paused), so no
            # exception is legitimate here
            cls = "other"
            if typ == "pasha" and ev["err"] == "index-error":
                cls = "single-rung" if len(levels) == 1 else ("multi-bracket" if sched.terminator.num_brackets > 1 else "other")
            add(f"c04:scheduler-raises:{typ}:{ev['err']}:{cls}",
                f"{typ} scheduler raised {ev['err']} in {k.split('-')[0]} (trial {ev.get('trial')}, resource {ev.get('resource')})", ev)
    return out


def _q(levels, max_t, lv):
    i = levels.index(lv)
    nxt = levels[i + 1] if i + 1 < len(levels) else max_t
    return lv / nxt


def _eligible(mode, lv, data, q, sure):
    """trial id of an entry of this rung that is certainly eligible (plain rule), else None"""
    if len(data) < 2:
        return None
    vals = [_f(e[1]) for e in data]
    cutoff = float(np.quantile(np.array(vals), q if mode == "min" else 1 - q))
    for e in data:
        if not e[2]:
            v = _f(e[1])
            if abs(v - cutoff) <= 1e-12 * max(abs(x) for x in vals):
                return None
            return e[0] if _no_worse(mode, v, cutoff) else None
    return None


def run_impl(spec):
    t = hb.run_scenario(spec)
    sched = t.pop("sched")
    mon = promotion_monitor(spec, t["events"], sched)
    promos = sum(1 for e in t["events"] if e["ev"] == "resume")
    hist = {"promotions": promos, "type:" + spec["ctor"]["type"]: 1, "mode:" + spec["ctor"]["mode"]: 1,
            "results": sum(1 for e in t["events"] if e["ev"] == "result"),
            "errors_raised": sum(1 for e in t["events"] if e["ev"].endswith("error") and "err" in e),
            "pasha_cap_increases": sum(1 for e in t["events"] if e["ev"] == "result" and e["pasha_after"] != e["pasha_before"]),
            "pasha_cap_reached_max_t": sum(1 for e in t["events"] if e["ev"] == "result" and e["pasha_after"] != e["pasha_before"]
                                            and any(x[1] == spec["ctor"]["max_t"] for x in e["pasha_after"]))}
    return {"lines": t["lines"], "monitor": mon, "meta": {"hist": hist, "promos": promos}}


def nontrivial(trace):
    return trace.get("meta", {}).get("promos", 0) >= 1
