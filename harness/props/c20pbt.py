"""C20 (population-based training part) — a clone source named by PBT has not been stopped when the decision is
taken; scheduler-level model of `PopulationBasedTraining`, also min/max symmetry (C15) of that scheduler.

Standalone property module in the shape of c03.py, meant to be merged into c20.py (stream `pbt`, driver
`SyneTune/Drivers/Pbt.lean`, theorems `SyneTune.C20Pbt.*`).  Run it with

    cd /verif && VERIF_SEED=0 ./check C20PBT --tier quick        (or --tier thorough)

(`framework.py` imports `props.<pid.lower()>`, hence the file name; evidence goes to evidence/C20PBT.json, with
`VERIF_REPO=<worktree>` to evidence/.scratch/.)
"""
from streams import pbt
from streams.pbt import compare, nontrivial, run_impl  # noqa: F401

PID = "C20PBT"
LEVEL = "proof"
LEAN_TARGETS = ["SyneTune.Props.C20Pbt"]
DRIVER = "SyneTune/Drivers/Pbt.lean"
THEOREMS = [
    "SyneTune.C20Pbt.run_wf",
    "SyneTune.C20Pbt.outs_append",
    "SyneTune.C20Pbt.push_spec",
    "SyneTune.C20Pbt.push_source_alive_before",
    "SyneTune.C20Pbt.stack_origin",
    "SyneTune.C20Pbt.clone_origin",
    "SyneTune.C20Pbt.quantiles_disjoint",
    "SyneTune.C20Pbt.quantiles_sizes",
    "SyneTune.C20Pbt.quantiles_equal_size",
    "SyneTune.C20Pbt.quantiles_short",
    "SyneTune.C20Pbt.quantiles_zero_fraction_counterexample",
    "SyneTune.C20Pbt.no_push_when_fraction_zero",
    "SyneTune.C20Pbt.quantiles_negative_fraction_counterexample",
    "SyneTune.C20Pbt.stop_marks_stopped",
    "SyneTune.C20Pbt.stopped_stays_stopped",
    "SyneTune.C20Pbt.stopped_never_pushed",
    "SyneTune.C20Pbt.never_pushed_after_stop",
    "SyneTune.C20Pbt.pbt_source_may_be_stopped_before_pop_counterexample",
    "SyneTune.C20Pbt.pbt_source_in_lower_quantile_before_pop_counterexample",
    "SyneTune.C20Pbt.source_alive_at_pop_partial",
    "SyneTune.C20Pbt.stop_at_max_t",
    "SyneTune.C20Pbt.continue_inside_interval",
    "SyneTune.C20Pbt.stop_below_max_t_only_from_lower_quantile",
    "SyneTune.C20Pbt.pick_only_names_the_source",
    "SyneTune.C20Pbt.pick_ignored_outside_lower_quantile",
    "SyneTune.C20Pbt.bookkeeping_ops_are_noops",
    "SyneTune.C20Pbt.step_symm",
    "SyneTune.C20Pbt.run_symm",
    "SyneTune.C20Pbt.outs_symm",
]
TRUSTED = [
    "hand-written model lean/SyneTune/Model/PBT.lean tied to /repo by the pbt correspondence stream",
    "Python harness harness/streams/pbt.py (scripted workers, recording proxy of the scheduler's RandomState, "
    "per-instance recorder of what _quantiles() returned)",
    "list.sort(key=...) modelled as a stable ascending insertion sort",
    "IEEE-754 rounding of len(trials) * quantile_fraction: when the exact product lies within 2^-40 (relative) above a "
    "non-zero integer the ceiling is 'free' (model adopts the implementation's value if it is the exact ceiling minus one)",
]
ASSUMPTIONS = [
    "metric values and costs are finite numbers (no NaN); the first call is suggest (the scheduler creates its time keeper there)",
    "the random searcher always returns a configuration (continuous configuration space)",
    "_explore (the perturbed configuration) is outside the model; random_state.choice(upper_quantile) is an input of the "
    "model, checked for membership in the upper quantile",
]
RULE = ("cases: real PopulationBasedTraining with population_size 2-8, max_t 2-12, perturbation_interval in "
        "{0.01, 0.5, 1, 2, 2.5, 3, > max_t}, quantile_fraction dyadic / decimal (0.1, 0.2, 0.3, 1/3, ...) / 0 / 0.5 / "
        "just inside the ends / negative (the constructor lets it through) / > 0.5 (rejected), both modes, 1-8 scripted "
        "workers, suggest calls interleaved with results at four different rates, metrics on dyadic grids (general, "
        "improving, ties, constant, two-valued, negative, tiny, huge), costs in unit / half / irregular steps, failures, "
        "scripts ending before max_t, late results after STOP; half of the cases also run the min/max twin; "
        "distinct by sha256 of the spec; non-trivial iff at least one clone decision was pushed and one popped")


def gen_cases(rng, tier):
    n = 100 if tier == "quick" else 2000
    for _ in range(n):
        yield pbt.gen_case(rng, tier)


def corpus():
    # the Lean witnesses of `pbt_source_may_be_stopped_before_pop_counterexample` are replayed by `extra`
    return []


def extra(ctx):
    """replay of the Lean counterexample histories against the real scheduler: the real code must answer what the
    theorem says (source pushed while alive, answered STOP before the pop, popped as clone source)"""
    for name, hist in pbt_witnesses().items():
        try:
            ok, why = replay_witness(hist)
        except Exception as e:  # noqa  (the implementation raised on the witness history)
            if type(e).__name__ == "CaseTimeout":
                raise
            ok, why = False, f"the scheduler raised {type(e).__name__}: {str(e)[:200]}"
        ctx.count("witness:" + name + (":reproduced" if ok else ":NOT-reproduced"))
        if not ok:
            ctx.disagreements.append({"case": name, "line": 0, "input": hist, "why": why, "label": "witness", "spec": hist})


def pbt_witnesses():
    # (params, ops) exactly as in lean/SyneTune/Props/C20Pbt.lean (`W.p`, `W.hMaxT`, `W.hLower`); `["suggest", src, stopped]`
    # must name that clone source, and `stopped` says whether the source was answered STOP before this pop
    p = {"mode": "max", "max_t": 4, "interval": "1", "frac": "1/2"}
    return {
        "max_t": {"ctor": p, "ops": [
            ["suggest"], ["add", 0], ["suggest"], ["add", 1],
            ["result", 0, 3, 5, "CONTINUE", None], ["result", 1, 1, 3, "STOP", 0],
            ["result", 0, 4, 6, "STOP", None], ["suggest", 0, True]]},
        "lower-quantile": {"ctor": p, "ops": [
            ["suggest"], ["add", 0], ["suggest"], ["add", 1], ["suggest"], ["add", 2],
            ["result", 0, 1, 5, "CONTINUE", None], ["result", 2, 1, 9, "CONTINUE", None],
            ["result", 1, 1, 3, "STOP", 2],   # lower [1], upper [2]: the generator can only pick 2
            ["result", 2, 2, 1, "STOP", 0],   # trial 2 is now the worse of {0, 2}: stopped, "clone from 0" pushed
            ["suggest", 0, False], ["add", 3], ["suggest", 2, True]]},
    }


def replay_witness(w):
    sch, rec, _ = pbt.make_scheduler(dict(w["ctor"], population_size=2, random_seed=0))
    from syne_tune.backend.trial_status import Trial
    trials, nxt, src = {}, 0, None
    stopped = set()
    for op in w["ops"]:
        if op[0] == "suggest":
            sg = sch.suggest(nxt)
            want = op[1] if len(op) > 1 else None
            got = None if sg.checkpoint_trial_id is None else int(sg.checkpoint_trial_id)
            if got != want:
                return False, f"suggest: clone source {got}, expected {want}"
            if want is not None and (want in stopped) != op[2]:
                return False, f"source {want}: answered STOP before the pop = {want in stopped}, expected {op[2]}"
            trials[nxt] = Trial(trial_id=nxt, config=sg.config, creation_time=pbt.EPOCH0)
        elif op[0] == "add":
            sch.on_trial_add(trials[op[1]])
            nxt = op[1] + 1
        else:
            _, tid, cost, metric, want, pick = op
            n0 = len(rec.picks)
            d = sch.on_trial_result(trials[tid], {pbt.METRIC: float(metric), pbt.RES: cost})
            if d != want:
                return False, f"result of trial {tid} at {cost}: {d}, expected {want}"
            if d == "STOP":
                stopped.add(tid)
            if len(rec.picks) > n0:
                got = rec.picks[-1][1]
                if pick is not None and got != pick:
                    return False, f"pick {got}, expected {pick}"
                src = got
                if src in stopped:
                    return False, "source stopped at push"
    return True, ""
