"""C03 — stopping-type asynchronous Hyperband decides by the documented quantile rule."""
import random
import numpy as np

from streams import hb
from streams.hb import compare  # noqa: F401

PID = "C03"
LEVEL = "proof"
LEAN_TARGETS = ["SyneTune.Props.C03"]
DRIVER = "SyneTune/Drivers/Hb.lean"
THEOREMS = [
    "SyneTune.C03.cutoff_eq_numpy_quantile",
    "SyneTune.C03.cutoff_isSome",
    "SyneTune.C03.decision_at_own_rung",
    "SyneTune.C03.fewer_than_two_continues",
    "SyneTune.C03.only_own_rungs",
    "SyneTune.C03.once_per_rung",
    "SyneTune.C03.stop_at_max",
    "SyneTune.C03.decided_repeats",
    "SyneTune.C03.decision_follows_report",
    "SyneTune.C03.init_ok",
    "SyneTune.C03.rung_levels_inc",
    "SyneTune.C03.rung_levels_rf",
    "SyneTune.C03.constructed_system_wf",
    "SyneTune.C03.promote_quantiles_in_unit_interval",
]
TRUSTED = [
    "hand-written model lean/SyneTune/Model/{Rung,HB}.lean tied to /repo by the hb correspondence stream",
    "Python harness harness/streams/hb.py (scripted workers, stub searcher, recording RandomState proxy)",
    "sortedcontainers.SortedList modelled as stable insertion after equal keys",
    "IEEE-754 rounding of the cutoff: comparisons within 2^-40 relative are 'free' (model adopts impl answer)",
]
ASSUMPTIONS = [
    "workers report positive integer resources; the searcher always returns a configuration",
    "bracket drawn by the manager's RandomState is an input of the model",
]
RULE = ("cases: real HyperbandScheduler(type=stopping) with random rung systems (reduction factor 2,3,4,5/2, "
        "increments, explicit lists), 1-4 brackets shared or per-bracket, both modes, 1-6 concurrent scripted "
        "workers, metrics on a k/64 grid around a latent quality (plus tie / constant streams), optional "
        "late reports after a decision; distinct by sha256 of the spec; non-trivial iff at least one "
        "forced STOP decision at a rung below max_t")


def gen_ctor(rng, typ="stopping"):
    mode = rng.choice(["min", "max"])
    kind = rng.choice(["rf", "rf", "inc", "explicit"])
    c = {"type": typ, "mode": mode}
    if kind == "rf":
        c["grace_period"] = rng.choice([1, 1, 2, 3])
        c["reduction_factor"] = rng.choice(["2", "3", "4", "5/2", "5/2", "7/2", "27/10", "9/4", "7/3"])
        c["max_t"] = rng.choice([c["grace_period"] + 1, 9, 16, 27, 30, 81, 81, 200])
        if c["max_t"] <= c["grace_period"]:
            c["max_t"] = c["grace_period"] + 3
    elif kind == "inc":
        c["grace_period"] = rng.choice([1, 2, 3])
        c["rung_increment"] = rng.choice([1, 2, 3, 5])
        c["max_t"] = c["grace_period"] + rng.choice([1, 4, 7, 12])
    else:
        n = rng.randint(2, 5)
        ls = sorted(rng.sample(range(1, 30), n))
        c["rung_levels"] = ls
        c["max_t"] = ls[-1] + rng.choice([0, 1, 5])
    c["brackets"] = rng.choice([1, 1, 2, 3, 4])
    c["rung_system_per_bracket"] = rng.random() < 0.4
    c["searcher_data"] = rng.choice(["rungs", "all", "rungs_and_last"])
    c["register_pending_myopic"] = rng.random() < 0.3
    c["random_seed"] = rng.randrange(1000)
    return c


def gen_cases(rng, tier):
    n = 60 if tier == "quick" else 800
    for _ in range(n):
        yield {
            "ctor": gen_ctor(rng),
            "seed": rng.randrange(10 ** 9),
            "n_workers": rng.randint(1, 6),
            "max_events": rng.choice([30, 60, 120]) if tier == "quick" else rng.choice([60, 200, 500]),
            "style": rng.choice(["general"] * 5 + ["ties", "const", "near4", "near6", "near8", "near10", "tiny", "huge", "neg"]),
            "p_late": rng.choice([0, 0, 0.2]),
            "p_fail": rng.choice([0, 0, 0.05]),
            "stride": rng.choice([1, 1, 1, 2, 3]),
        }


def corpus():
    import json, os
    p = os.path.join(os.path.dirname(__file__), "..", "corpus", "c03.json")
    return json.load(open(p)) if os.path.exists(p) else []


def quantile_rule_monitor(spec, events, sched):
    """direct reading of C03 on the implementation trace"""
    out = []
    ctor = spec["ctor"]
    mode = ctor["mode"]
    levels = list(sched.rung_levels)
    max_t = ctor["max_t"]
    per = ctor.get("rung_system_per_bracket", False)
    nxt = dict(zip(levels, levels[1:] + [max_t]))
    for ev in events:
        if ev["ev"] != "result":
            continue
        tid, r, v, d, b = ev["trial"], ev["resource"], ev["metric"], ev["decision"], ev["bracket"]
        sysi = b if per else 0
        before = {lv: data for lv, data in ev["rungs_before"][sysi]}
        after = {lv: data for lv, data in ev["rungs_after"][sysi]}
        for lv, data in after.items():
            ids = [e[0] for e in data]
            if len(ids) != len(set(ids)):
                out.append({"signature": "c03:trial-twice-in-rung", "what": f"trial recorded twice at rung {lv}", "detail": ev})
        if ev["prev_decision"] != "CONTINUE":
            if d != ev["prev_decision"] or ev["rungs_before"] != ev["rungs_after"]:
                out.append({"signature": "c03:decided-trial-redecided", "what": "report after STOP changed decision or rungs", "detail": ev})
            continue
        own = levels[b:]
        if r >= max_t:
            if d != "STOP":
                out.append({"signature": "c03:not-stopped-at-max", "what": f"trial {tid} reached max resource {r} and got {d}", "detail": ev})
            continue
        if r in own and tid not in [e[0] for e in before.get(r, [])]:
            from fractions import Fraction
            vals = [float(Fraction(e[1])) for e in after.get(r, [])]
            if tid not in [e[0] for e in after.get(r, [])]:
                out.append({"signature": "c03:not-recorded", "what": f"report at own rung {r} not recorded", "detail": ev})
                continue
            if len(vals) < 2:
                if d != "CONTINUE":
                    out.append({"signature": "c03:stopped-with-fewer-than-two", "what": "stopped with <2 entries", "detail": ev})
                continue
            q = levels_q(r, nxt)
            cutoff = float(np.quantile(np.array(vals), q if mode == "min" else 1 - q))
            margin = abs(v - cutoff)
            if margin > 1e-12 * max(abs(x) for x in vals):
                want = (v <= cutoff) if mode == "min" else (v >= cutoff)
                if (d == "CONTINUE") != want:
                    out.append({"signature": "c03:quantile-rule", "what":
                                f"trial {tid} at rung {r}: metric {v} vs numpy quantile {cutoff} (q={q}, mode={mode}) got {d}",
                                "detail": ev})
        else:
            if d != "CONTINUE" or ev["rungs_before"] != ev["rungs_after"]:
                out.append({"signature": "c03:decision-off-rung", "what":
                            f"trial {tid} resource {r} is not an own rung level (own={own}) but got {d} / rung changed", "detail": ev})
    return out


def levels_q(r, nxt):
    return r / nxt[r]


def run_impl(spec):
    t = hb.run_scenario(spec)
    sched = t.pop("sched")
    mon = quantile_rule_monitor(spec, t["events"], sched)
    stops = sum(1 for e in t["events"] if e["ev"] == "result" and e["decision"] == "STOP" and e["resource"] < spec["ctor"]["max_t"])
    hist = {"forced_stop_below_max": stops, "results": sum(1 for e in t["events"] if e["ev"] == "result"),
            "mode:" + spec["ctor"]["mode"]: 1}
    return {"lines": t["lines"], "monitor": mon, "meta": {"hist": hist, "stops": stops}}


def nontrivial(trace):
    return trace.get("meta", {}).get("stops", 0) >= 1
