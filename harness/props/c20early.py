"""C20 (speculative early checkpoint removal part) — bookkeeping of `HyperbandRemoveCheckpointsCommon` and its two subclasses:
only paused trials that still have a checkpoint are chosen, never a running one; the books are exact; the promise about the
number of checkpoints kept; the counters of the documented price (trials resumed without checkpoint).

Standalone property module in the shape of c20pbt.py, meant to be merged into c20.py (stream `early`, driver
`SyneTune/Drivers/Early.lean`, theorems `SyneTune.C20Early.*`).  Run it with

    cd /verif && VERIF_SEED=0 ./check C20EARLY --tier quick        (or --tier thorough)

(`framework.py` imports `props.<pid.lower()>`, hence the file name; evidence goes to evidence/C20EARLY.json, with
`VERIF_REPO=<worktree>` to evidence/.scratch/.)
"""
from streams import early
from streams.early import compare, nontrivial, post_case, run_impl  # noqa: F401

PID = "C20EARLY"
LEVEL = "proof"
LEAN_TARGETS = ["SyneTune.Props.C20Early"]
DRIVER = early.DRIVER
THEOREMS = [
    "SyneTune.C20Early.removed_only_paused_with_checkpoint",
    "SyneTune.C20Early.removed_ids_distinct",
    "SyneTune.C20Early.status_exact",
    "SyneTune.C20Early.running_iff",
    "SyneTune.C20Early.paused_with_checkpoint_iff",
    "SyneTune.C20Early.paused_no_checkpoint_iff",
    "SyneTune.C20Early.done_iff",
    "SyneTune.C20Early.absent_iff_never_mentioned",
    "SyneTune.C20Early.status_keys_distinct",
    "SyneTune.C20Early.removed_last_event_is_pause",
    "SyneTune.C20Early.never_removes_running",
    "SyneTune.C20Early.removes_running_if_scheduler_lists_it_counterexample",
    "SyneTune.C20Early.no_checkpoint_status_has_entry",
    "SyneTune.C20Early.removed_map_exact",
    "SyneTune.C20Early.removed_keys_iff_paused_no_checkpoint",
    "SyneTune.C20Early.removed_level_from_scheduler_list",
    "SyneTune.C20Early.start_clause_counterexample",
    "SyneTune.C20Early.continue_clause_counterexample",
    "SyneTune.C20Early.natural_implies_ok",
    "SyneTune.C20Early.natural_legal_implies_legal",
    "SyneTune.C20Early.after_removal_only_resume",
    "SyneTune.C20Early.pops_are_noops_in_life_cycle",
    "SyneTune.C20Early.double_removal_without_life_cycle_counterexample",
    "SyneTune.C20Early.count_after_loop_end",
    "SyneTune.C20Early.promise",
    "SyneTune.C20Early.promise_exact_when_enough",
    "SyneTune.C20Early.promise_max_alone_counterexample",
    "SyneTune.C20Early.promise_incomplete_list_counterexample",
    "SyneTune.C20Early.num_resumed_counts_resumes",
    "SyneTune.C20Early.num_removed_counts_deletions",
    "SyneTune.C20Early.resumed_without_checkpoint_exact",
    "SyneTune.C20Early.loop_end_raises_iff",
    "SyneTune.C20Early.loop_end_raises_counterexample",
    "SyneTune.C20Early.baselines_never_raise",
    "SyneTune.C20Early.no_raise_partial",
    "SyneTune.C20Early.loop_end_oracle_raised_iff",
    "SyneTune.C20Early.failed_outcome_keeps_state",
    "SyneTune.C20Early.loop_end_noop_within_limit",
]
TRUSTED = [
    "hand-written model lean/SyneTune/Model/EarlyRemoval.lean tied to /repo by the early correspondence stream",
    "Python harness harness/streams/early.py (per-instance wrappers of the removal callback's public methods and of "
    "_trials_to_be_removed, delegating proxies in place of the callback's references to the scheduler and the backend; one "
    "class-level wrapper of HyperbandRemoveCheckpointsCommon.__init__ registers the instance) on top of harness/streams/loop.py "
    "and props/c20.py::run_early",
    "Python dict modelled as an association list in insertion order; dict.pop(k, None) as removal of the key",
]
ASSUMPTIONS = [
    "the answer of _trials_to_be_removed (estimated probabilities and a clock / a random draw / rung level and rank) is an input "
    "of the model, checked for: number = min(num_to_remove, len(filtered)), membership in the filtered list, no trial twice",
    "terminator.paused_trials() is an input of the model; theorems that need it state what they need of it: it lists only trials "
    "the callback holds for paused (OpOK), and - for the promise - all trials the callback holds for paused with a checkpoint "
    "(Complete).  The scheduler's side of this is the subject of the hb stream (Model/HB.lean)",
    "the estimator updates of HyperbandRemoveCheckpointsCallback.on_trial_result and the score computation are outside the model",
]
RULE = ("cases: props.c20.gen_early_spec - real Tuner on the scripted backend, HyperbandScheduler of type promotion / pasha / "
        "cost_promotion / rush_promotion with early_checkpoint_removal_kwargs (max_num_checkpoints 2..6; estimator-based callback "
        "with varied prior / approx_steps, baselines random, by_level and default), 1-5 workers, failing / externally stopped "
        "trials, injected errors; plus direct cases (no Tuner): the two callback classes on a stub scheduler / backend, 20-160 "
        "callback calls over 3-8 trial ids, 40 % following the trial life cycle with an honest scheduler list, the rest with calls "
        "outside the life cycle (start / result / complete / resume of any trial) and scheduler lists that omit paused trials or "
        "name running / stopped / unknown ones (never a trial twice), max_num_checkpoints 0..4, all three variants, continuing "
        "after a raising on_loop_end; distinct by sha256 of the spec; non-trivial iff at least one checkpoint was removed "
        "speculatively")


def gen_cases(rng, tier):
    n = 150 if tier == "quick" else 1500
    for _ in range(n):
        yield early.gen_case(rng, tier)
    # the callback classes driven directly (appended: the Tuner cases above stay the same for a seed)
    for _ in range(100 if tier == "quick" else 1500):
        yield early.gen_direct(rng, tier)


def corpus():
    return []
