"""C14 — multi-fidelity surrogate data: each observation once, only live pending entries."""
from fractions import Fraction

from streams import hb
from streams.hb import compare  # noqa: F401
from props.c03 import gen_ctor

PID = "C14"
LEVEL = "proof"
LEAN_TARGETS = ["SyneTune.Props.C14", "SyneTune.Props.C14Comp", "SyneTune.Props.C14Dy", "SyneTune.Props.C14Sync"]
DRIVER = "SyneTune/Drivers/Hb.lean"
THEOREMS = [
    "SyneTune.C14.apply_preserves_wf",
    "SyneTune.C14.applyAll_preserves_wf",
    "SyneTune.C14.observation_value",
    "SyneTune.C14.label_keeps_others",
    "SyneTune.C14.cleanup_spec",
    "SyneTune.C14.complete_calls_cleanup",
    "SyneTune.C14.error_calls_failed",
    "SyneTune.C14.failed_spec",
    "SyneTune.C14.register_pending_spec",
    "SyneTune.C14.update_strictly_increasing",
    "SyneTune.C14.policy_rungs",
    "SyneTune.C14.policy_all",
    "SyneTune.C14.policy_rungs_and_last",
    # composed system scheduler + searcher bookkeeping (Props/C14Comp.lean): invariant over all histories
    "SyneTune.C14Comp.calls_accepted",
    "SyneTune.C14Comp.cinv_step",
    "SyneTune.C14Comp.cinv_all_histories",
    "SyneTune.C14Comp.init_CInv",
    "SyneTune.C14Comp.init_CInv_rf",
    "SyneTune.C14Comp.pending_only_running",
    "SyneTune.C14Comp.pending_rungs_milestone_nodup",
    "SyneTune.C14Comp.no_pending_unless_running",
    "SyneTune.C14Comp.observed_once",
    "SyneTune.C14Comp.observed_only_reported_levels",
    "SyneTune.C14Comp.no_pending_after_end",
    # the clauses of the operation contract `OpOK` are necessary (witnesses replayed on the real code in `extra`)
    "SyneTune.C14Comp.pending_only_running_counterexample",
    "SyneTune.C14Comp.pending_only_running_counterexample_promoted",
    "SyneTune.C14Comp.skipped_level_counterexample",
    # DyHPO (Props/C14Dy.lean): the DyHPO rung system on top of the Hyperband model, KInv / CInv lifted to every history
    # of DOp = SOp + suggestDy; the old histories are embedded unchanged (runCD_old)
    "SyneTune.C14Dy.runCD_old",
    "SyneTune.C14Dy.step_KInv_dy",
    "SyneTune.C14Dy.kinv_all_histories_dy",
    "SyneTune.C14Dy.resume_only_not_running_dy",
    "SyneTune.C14Dy.paused_list_is_unpromoted",
    "SyneTune.C14Dy.pick_is_paused",
    "SyneTune.C14Dy.resume_only_eligible_dy",
    "SyneTune.C14Dy.resumed_trial_leaves_paused_list",
    "SyneTune.C14Dy.history_invariant_dy",
    "SyneTune.C14Dy.promoted_once_dy",
    "SyneTune.C14Dy.calls_accepted_dy",
    "SyneTune.C14Dy.cinv_step_dy",
    "SyneTune.C14Dy.cinv_all_histories_dy",
    "SyneTune.C14Dy.pending_only_running_dy",
    "SyneTune.C14Dy.pending_rungs_milestone_nodup_dy",
    "SyneTune.C14Dy.no_pending_unless_running_dy",
    "SyneTune.C14Dy.observed_once_dy",
    "SyneTune.C14Dy.observed_only_reported_levels_dy",
    "SyneTune.C14Dy.no_pending_after_end_dy",
    # synchronous Hyperband x searcher bookkeeping (Props/C14Sync.lean): composed invariant over all histories
    "SyneTune.Sync.C14S.calls_accepted_sync",
    "SyneTune.Sync.C14S.cinvS_step",
    "SyneTune.Sync.C14S.cinvS_all_histories",
    "SyneTune.Sync.C14S.init_CInvS",
    "SyneTune.Sync.C14S.sched_component_sync",
    "SyneTune.Sync.C14S.window_is_code_window",
    "SyneTune.Sync.C14S.pending_only_running_sync",
    "SyneTune.Sync.C14S.pending_exact_sync",
    "SyneTune.Sync.C14S.no_pending_after_end_sync",
    "SyneTune.Sync.C14S.observed_once_sync",
    "SyneTune.Sync.C14S.observed_once_from_init_sync",
    "SyneTune.Sync.C14S.observed_levels_sync",
    "SyneTune.Sync.C14S.observed_levels_window_sync",
    "SyneTune.Sync.C14S.selected_report_present_sync",
    "SyneTune.Sync.C14S.observed_levels_all_present_partial",
    "SyneTune.Sync.C14S.mkSys_CInvS",
    "SyneTune.Sync.C14S.fresh_id_counterexample",
    "SyneTune.Sync.C14S.nan_report_drops_pending",
    "SyneTune.Sync.C14S.rereport_counterexample",
    "SyneTune.Sync.C14S.skip_level_counterexample",
    "SyneTune.Sync.C14S.complete_counterexample",
]
TRUSTED = [
    "hand-written models lean/SyneTune/Model/{HB,SearcherState}.lean tied to /repo by the hb stream run with the real "
    "GPMultiFidelitySearcher / HyperTune searcher (state_transformer.state read after every event)",
    "Python harness harness/streams/hb.py",
    "num_init_random is set huge so that no surrogate fit runs: the data bookkeeping is identical, the numerics are not exercised "
    "(hb stream only; the monitor-only streams below run with num_init_random 2-3, the surrogate model IS fitted there)",
    "stream `dyhpo` (HyperbandScheduler(type='dyhpo', searcher='dyhpo'), inner MyGPMultiFidelitySearcher, surrogate model fitted): "
    "DyHPO's SCHEDULING is modelled (lean/SyneTune/Model/DyHPO.lean: _paused_trials_and_milestones, _previous_rung_level, "
    "on_task_schedule with _mark_as_promoted, on top of Model/HB.lean; theorems Props/C14Dy.lean) and tied to the real code by model "
    "lines in the hb protocol (op suggest_dy of Drivers/Hb.lean): per _suggest the harness records, by per-instance wrappers around "
    "the real objects (rung_system.on_task_schedule, rung_system._random_state, searcher.score_paused_trials_and_new_configs and the "
    "five data methods of the searcher; nothing in /repo is touched), the coin `rand() <= probability_sh`, the level the SH rule "
    "promoted from, the searcher's pick, the paused list handed to the searcher and every searcher call in order. FREE (adopted from "
    "the implementation): coin, SH hint, pick. FORCED (compared): the paused list (ids, positions, next levels, order), membership "
    "of the pick in it (a pick outside it is a model error) and its position, the decision start/resume with trial, resume level and "
    "milestone, the searcher calls pending/update/remove_case/cleanup/failed in order, the scheduler state (rungs with promoted flags, "
    "_running, _task_info, _active_trials) and the GP searcher's data state (pending, observed, failed) after every event",
    "the searcher's SCORING (GP surrogate fit, expected improvement, argmin in score_paused_trials_and_new_configs) is an ORACLE: not "
    "modelled, its answer is an input whose membership in the paused list is checked; probability_sh / the random generator are "
    "not modelled (the coin is an input)",
    "python wrappers of harness/props/c14.py (_DyRecorder, _DyRandProxy): delegate to the wrapped real methods unchanged; the random "
    "stream is the real generator's",
    "monitor-only stream `syncgp` (SynchronousGeometricHyperbandScheduler / GeometricDifferentialEvolutionHyperbandScheduler with "
    "searcher='bayesopt'): decided on the real code by the monitor `mf_monitor` (state_transformer.state read after every event); "
    "there are no model lines in THIS stream. For SynchronousHyperbandScheduler the composed system (model of the scheduler, "
    "Model/SyncScheduler.lean, feeding its searcher calls into the model of the searcher's bookkeeping, Model/SearcherState.lean) is "
    "proved in Props/C14Sync.lean for all histories; its two halves are tied to the real code separately - the scheduler and the "
    "searcher calls it makes by the sync correspondence stream of C05 (harness/streams/sync.py compares the calls register_pending / "
    "on_trial_result(update) / evaluation_failed in order), the bookkeeping by the hb stream here - and this monitor-only stream "
    "checks the composition on the real objects. A NaN / infinite report drops the pending entry and stores nothing (fixed code, "
    "`trCall`). DEHB has no Lean model: for it the evidence is testing of the real code, not proof. Kind `hbgp` "
    "(HyperbandScheduler(type=promotion, searcher=bayesopt) with NaN / infinite reports) is monitor-only as well: the metric values "
    "of the Lean models are rationals. `mf_monitor` also keeps running on the dyhpo stream, next to the model lines. The milestone / resume level of a "
    "run is read from the scheduler (`_running`, `_trial_to_pending_slot`, `level_to_prev_level`): the data-policy rule is stated "
    "relative to the scheduler's own notion of the run",
]
ASSUMPTIONS = [
    "workers report consecutive resource levels within a run (a resumed run starts at resume_from+1 with checkpointing, at 1 without)",
    "cost attribute not used in these cases (cost labels are stored under a different metric name)",
    "operation contract OpOK of Props/C14Comp.lean: on_trial_remove only for trials the scheduler does not consider running "
    "(the Tuner calls it right after a STOP/PAUSE answer; externally stopped trials are signalled by on_trial_error), "
    "on_trial_complete with the last result reported; both are what the scripted worker pool of streams/hb.py does",
    "monitor-only streams: same worker contract (consecutive levels; a run ends with the PAUSE/STOP answer, a failure, or - dyhpo only - "
    "a script that ends by itself after at least one report, signalled by on_trial_complete with the last result as the Tuner does). "
    "The synchronous schedulers answer PAUSE/STOP at the milestone of every run, so the Tuner never calls their on_trial_complete; a "
    "script ending before its milestone is outside their contract ('Training script must not skip rung levels') and is not generated. "
    "DEHB runs with the maximum number of brackets (suggest() hangs / raises after failures with few brackets: known findings of C13); "
    "a scheduler call that raises or does not return ends the scenario and is counted in the histogram, it is not a C14 finding",
]
RULE = ("cases: real HyperbandScheduler(type in stopping, promotion) with searcher bayesopt / hypertune, every searcher_data "
        "policy, register_pending_myopic on/off, 1-4 brackets, checkpointing on/off, failures and completions; distinct by "
        "sha256 of the spec; non-trivial iff at least one pending entry was dropped by an observation and at least one trial "
        "paused/stopped/failed while others had pending entries. "
        "Kind dyhpo (model lines through Drivers/Hb.lean op suggest_dy AND the monitor mf_monitor) = real HyperbandScheduler(type=dyhpo, "
        "searcher=dyhpo), linear or geometric "
        "rung levels, every searcher_data policy, register_pending_myopic on/off, probability_sh 0-0.5, checkpointing on/off (re-reported "
        "levels carry fresh values), failures p 0-0.2, scripts ending early; every suggest / result / remove / error / complete is one "
        "model line, compared by streams/hb.compare (forced: paused list, pick position, decision, resume level, milestone, searcher "
        "calls in order, scheduler and searcher-data state; free: coin, SH hint, pick). "
        "Monitor-only cases (no Lean model lines): kind syncgp = real SynchronousGeometricHyperbandScheduler / "
        "GeometricDifferentialEvolutionHyperbandScheduler with searcher=bayesopt, searcher_data rungs/all, with/without "
        "max_resource_attr, checkpointing on/off, failures p 0-0.2; both modes, 1-4 workers, num_init_random 2-3 so that the surrogate "
        "model is fitted; these are non-trivial iff the model-based phase was reached (>=1 surrogate fit) and at least one pause/stop "
        "and at least one failure or resume happened")


def gen_cases(rng, tier):
    n = 40 if tier == "quick" else 600
    for _ in range(n):
        typ = rng.choice(["stopping", "promotion", "promotion"])
        c = gen_ctor(rng, typ)
        c["searcher"] = rng.choice(["bayesopt", "bayesopt", "hypertune"])
        if c["searcher"] == "hypertune" and c["brackets"] == 1:
            c["brackets"] = 2
        c["max_resource_attr"] = rng.random() < 0.6
        yield {
            "ctor": c,
            "seed": rng.randrange(10 ** 9),
            "n_workers": rng.randint(1, 5),
            "max_events": rng.choice([30, 60, 100]) if tier == "quick" else rng.choice([60, 150, 300]),
            "style": rng.choice(["grid", "grid", "ties", "const"]),
            "checkpointing": rng.random() < 0.5,
            "p_fail": rng.choice([0, 0.03, 0.08]),
            "p_early": rng.choice([0, 0.05]),
        }
    # monitor-only streams (appended: the hb cases above stay the same for a given seed)
    yield from gen_mf_cases(rng, tier)
    # training scripts that end by themselves early and often: trials that complete BEFORE the searcher was updated for them even
    # once (policy rungs with a first milestone above 1, trials of higher brackets) still have their pending entry removed
    for _ in range(10 if tier == "quick" else 120):
        typ = rng.choice(["stopping", "promotion"])
        c = gen_ctor(rng, typ)
        while c.get("grace_period", 2) < 2 and c.get("brackets", 1) < 2 and (c.get("rung_levels") or [2])[0] < 2:
            c = gen_ctor(rng, typ)
        c["searcher"] = "bayesopt"
        c["searcher_data"] = rng.choice(["rungs", "rungs", "all", "rungs_and_last"])
        c["max_resource_attr"] = rng.random() < 0.5
        yield {"ctor": c, "seed": rng.randrange(10 ** 9), "n_workers": rng.randint(1, 4),
               "max_events": rng.choice([40, 80]) if tier == "quick" else rng.choice([80, 160]),
               "style": "grid", "checkpointing": rng.random() < 0.5, "p_fail": rng.choice([0, 0.05]), "p_early": rng.choice([0.2, 0.35])}


def corpus():
    return []


def data_monitor(spec, lines, events):
    """direct reading of C14 on the searcher state after every event"""
    out = []
    ctor = spec["ctor"]
    mode = ctor["mode"]
    policy = ctor.get("searcher_data", "rungs")
    reported = {}      # (trial, level) -> list of metric values reported at that level (non-ignored runs)
    expected = {}      # trial -> set of levels the data policy selects among the levels it has reported
    last_nonrung = {}  # rungs_and_last: the latest reported level if it is not a rung level
    optional = {}      # trial -> levels that may be stored in addition (last result passed again by on_trial_complete)
    rung_levels = None
    running = set()
    last_result = {}
    levels = None
    max_t = ctor["max_t"]
    lastrep = {}       # trial -> largest level reported while the scheduler considered it running
    pause_resume = ctor["type"] not in ("stopping", "rush_stopping")
    all_levels = sorted(lines[0][1].get("rung_levels", [])) if lines and lines[0][1] else []
    for (inp, impl), ev in zip(lines[1:], events):
        if impl is None or "err" in impl:
            continue
        k = ev["ev"]
        if k == "start":
            running.add(ev["trial"])
        elif k == "resume":
            running.add(ev["trial"])
        elif k == "result":
            t_, r_ = ev["trial"], ev["resource"]
            first_time = (t_, r_) not in reported
            reported.setdefault((t_, r_), []).append(ev["metric"])
            if ev.get("prev_decision") == "CONTINUE" and not ev.get("late"):
                lastrep[t_] = max(lastrep.get(t_, 0), r_)
            if rung_levels is None and lines and lines[0][1]:
                rung_levels = set(lines[0][1].get("rung_levels", []))
            if first_time and ev.get("prev_decision") == "CONTINUE" and not ev.get("late"):
                is_rung = r_ in (rung_levels or set()) or r_ == max_t
                exp = expected.setdefault(t_, set())
                if policy == "all":
                    exp.add(r_)
                elif policy == "rungs":
                    if is_rung:
                        exp.add(r_)
                else:  # rungs_and_last (judged only with one bracket, where "rung level" is unambiguous)
                    if t_ in last_nonrung:
                        exp.discard(last_nonrung.pop(t_))
                    exp.add(r_)
                    if not is_rung:
                        last_nonrung[t_] = r_
            if ev["decision"] != "CONTINUE":
                running.discard(ev["trial"])
        elif k in ("remove", "complete", "error"):
            running.discard(ev["trial"])
            if k == "complete":
                # on_trial_complete passes the last result once more iff its level is above the largest level stored so far for
                # the trial: with policy rungs the final, possibly non-rung, level of a completed trial may be stored
                optional.setdefault(ev["trial"], set()).add(ev["resource"])
        if "pending" not in impl:
            continue
        obs = {}
        for t, ms in impl["observed"]:
            for r, c in ms:
                if (t, r) in obs:
                    out.append({"signature": "c14:observation-twice", "what": f"two observations for trial {t} level {r}", "detail": ev})
                obs[(t, r)] = Fraction(c)
        for (t, r), c in obs.items():
            vals = [Fraction(v) if mode == "min" else Fraction(1.0 - v) for v in reported.get((t, r), [])]
            if c not in vals:
                out.append({"signature": "c14:observation-not-reported-value", "what":
                            f"observation for trial {t} level {r} is {c}, reported values (min convention) {vals}", "detail": ev})
        if policy != "rungs_and_last" or ctor.get("brackets", 1) == 1:
            have = {}
            for (t, r) in obs:
                have.setdefault(t, set()).add(r)
            for t in set(have) | set(expected):
                if not (expected.get(t, set()) <= have.get(t, set()) <= (expected.get(t, set()) | optional.get(t, set()))):
                    out.append({"signature": "c14:policy-levels", "what":
                                f"searcher_data={policy}: trial {t} has observations at levels {sorted(have.get(t, set()))}, the policy "
                                f"selects {sorted(expected.get(t, set()))} of the levels it reported", "detail": ev})
                    break
        # (a) of Props/C14Comp.lean read on the real state: a pending level is above the last level the trial
        # reported and not above the milestone it is running to (`_running[t]["milestone"]` for pause/resume
        # types, the next rung level of its bracket above the last report, or max_t, for stopping types)
        miles = {}
        if pause_resume:
            for sysr in impl.get("running", []):
                for tid_, ms_, _rf in sysr:
                    miles[tid_] = ms_
        else:
            for tid_, dec_, br_ in impl.get("active", []):
                if dec_ == "CONTINUE":
                    above = [lv for lv in all_levels[br_:] if lv > lastrep.get(tid_, 0)]
                    miles[tid_] = min(above) if above else max_t
        for t, r in impl["pending"]:
            if r <= lastrep.get(t, 0):
                out.append({"signature": "c14:pending-not-above-last-report", "what":
                            f"pending (trial {t}, level {r}) although trial {t} already reported level {lastrep.get(t, 0)}", "detail": ev})
            if t in miles and r > miles[t]:
                out.append({"signature": "c14:pending-above-milestone", "what":
                            f"pending (trial {t}, level {r}) above the milestone {miles[t]} trial {t} is running to", "detail": ev})
            if t in miles and policy == "rungs" and r != miles[t]:
                out.append({"signature": "c14:pending-not-the-milestone", "what":
                            f"searcher_data=rungs: pending (trial {t}, level {r}) is not the milestone {miles[t]}", "detail": ev})
        for t, r in impl["pending"]:
            if t not in running:
                out.append({"signature": "c14:pending-of-trial-not-running", "what":
                            f"pending evaluation (trial {t}, level {r}) although trial {t} is not running (after {k} of trial {ev.get('trial')})", "detail": ev})
            if (t, r) in obs:
                out.append({"signature": "c14:pending-at-observed-level", "what": f"pending (trial {t}, level {r}) already observed", "detail": ev})
        if len(impl["pending"]) != len({tuple(p) for p in impl["pending"]}):
            out.append({"signature": "c14:pending-duplicate", "what": "duplicate pending entry", "detail": ev})
    return out


def run_impl(spec):
    if spec.get("kind") in ("dyhpo", "syncgp", "hbgp"):
        return run_mf(spec)
    t = hb.run_scenario(spec)
    sched = t.pop("sched")
    ev = t["events"]
    mon = data_monitor(spec, t["lines"], ev) if len(ev) == len(t["lines"]) - 1 else [
        {"signature": "c14:harness-misaligned", "what": f"{len(ev)} events vs {len(t['lines'])-1} lines", "detail": None}]
    drops = sum(1 for (inp, impl) in t["lines"] if impl and impl.get("observed"))
    stops = sum(1 for e in ev if e["ev"] in ("remove", "error", "complete"))
    hist = {"events": len(ev), "ends_of_run": stops, "type:" + spec["ctor"]["type"]: 1,
            "searcher:" + spec["ctor"]["searcher"]: 1, "policy:" + spec["ctor"].get("searcher_data", "rungs"): 1}
    return {"lines": t["lines"], "monitor": mon, "meta": {"hist": hist, "nontrivial": drops > 0 and stops > 0}}


def nontrivial(trace):
    return bool(trace.get("meta", {}).get("nontrivial"))


# ---------------------------------------------------------------------------------
# Lean counterexamples of Props/C14Comp.lean replayed on the real scheduler + real searcher.
# They are OUTSIDE the operation contract (OpOK): they show that each clause of the contract is
# necessary, and that the model agrees with the code on what happens there.

_CTOR_BASE = {"mode": "min", "max_t": 9, "rung_levels": [1, 3], "brackets": 1, "searcher": "bayesopt",
              "max_resource_attr": False, "random_seed": 0}

WITNESSES = [
    {"lean": "SyneTune.C14Comp.pending_only_running_counterexample",
     "ctor": dict(_CTOR_BASE, type="promotion", searcher_data="rungs"),
     "ops": [["suggest"], ["remove", 0]],
     "expect_pending": [[0, 1]], "expect_decision": [0, "PAUSE"]},
    {"lean": "SyneTune.C14Comp.pending_only_running_counterexample_promoted",
     "ctor": dict(_CTOR_BASE, type="promotion", searcher_data="all"),
     "ops": [["suggest"], ["result", 0, 1, 1.0], ["remove", 0], ["suggest"], ["result", 1, 1, 2.0], ["remove", 1],
             ["suggest"], ["result", 0, 2, 1.0], ["remove", 0]],
     "expect_pending": [[0, 3]], "expect_decision": [0, "PAUSE"]},
    {"lean": "SyneTune.C14Comp.skipped_level_counterexample",
     "ctor": dict(_CTOR_BASE, type="stopping", searcher_data="all"),
     "ops": [["suggest"], ["result", 0, 1, 1.0], ["result", 0, 2, 1.0], ["result", 0, 3, 1.0],
             ["suggest"], ["result", 1, 1, 0.5], ["result", 1, 3, 2.0]],
     "expect_pending_contains": [1, 2], "expect_decision": [1, "STOP"]},
]


def replay_witness(w):
    """drive the real HyperbandScheduler + GPMultiFidelitySearcher through the operations of a Lean witness"""
    from syne_tune.backend.trial_status import Trial
    sch, _rs = hb.make_scheduler(dict(w["ctor"]))
    trials = {}
    next_id = 0
    for op in w["ops"]:
        if op[0] == "suggest":
            sg = sch.suggest(next_id)
            if sg.spawn_new_trial_id:
                trials[next_id] = Trial(trial_id=next_id, config=sg.config, creation_time=hb.EPOCH0)
                sch.on_trial_add(trials[next_id])
                next_id += 1
        elif op[0] == "result":
            sch.on_trial_result(trials[op[1]], {hb.METRIC: op[3], hb.RES: op[2]})
        elif op[0] == "remove":
            sch.on_trial_remove(trials[op[1]])
    snap = hb.snapshot(sch)
    dec = {a[0]: a[1] for a in snap["active"]}
    t_, d_ = w["expect_decision"]
    ok = dec.get(t_) == d_
    if "expect_pending" in w:
        ok = ok and snap["pending"] == w["expect_pending"]
    if "expect_pending_contains" in w:
        ok = ok and list(w["expect_pending_contains"]) in snap["pending"]
    return {"lean": w["lean"], "real_code_pending": snap["pending"], "real_code_decision": [t_, dec.get(t_)],
            "reproduced_on_real_code": bool(ok)}


def extra(ctx):
    """the `_counterexample` theorems of Props/C14Comp.lean (histories outside the operation contract) on the real code"""
    res = [replay_witness(w) for w in WITNESSES]
    ctx.notes["lean_counterexamples_replayed"] = res
    bad = [r["lean"] for r in res if not r["reproduced_on_real_code"]]
    if bad:
        raise RuntimeError(f"Lean counterexample not reproduced by the real code (model and code disagree outside the contract): {bad}")


# ---------------------------------------------------------------------------------
# Streams `dyhpo` (monitor + Lean model lines, see `_DyRecorder`) and `syncgp` (monitor only: `"lines": []`).
#
# The real scheduler is driven through its public API (suggest / on_trial_add / on_trial_result /
# on_trial_remove / on_trial_complete / on_trial_error) by a scripted worker pool; after EVERY event the data
# state of the GP searcher (`state_transformer.state`: trials_evaluations, pending_evaluations, failed_trials)
# is read and `mf_monitor` checks the clauses of C14 on it directly.  The surrogate model IS fitted in these
# cases (num_init_random 2-3, cheap optimiser settings).
#
# Data-policy rules, read from the code (the milestone m and the resume level f of a run are the scheduler's
# own: `_running[t]` of the rung system for dyhpo, `_trial_to_pending_slot[t]` + `level_to_prev_level` for the
# synchronous schedulers):
#
#  dyhpo  (HyperbandScheduler.on_trial_result / _update_searcher, PromotionRungSystem.on_task_report; 1 bracket)
#    a report (t, r) of a run resumed from rung level f with r <= f is dropped (`ignore_data`: a resumed trial
#    without checkpointing re-reports old levels).  Every other report is *accepted* and then
#      searcher_data = "rungs"          stored iff r is a rung level or r = max_t
#      searcher_data = "all"            stored
#      searcher_data = "rungs_and_last" stored; the trial's previously accepted level is removed again unless it
#                                       was the milestone of its run (`keep_case = milestone_reached`)
#    on_trial_complete (script ended by itself) passes the last result once more iff its level is above the
#    largest level stored so far for the trial (`largest_update_resource`, only if there is one): with "rungs"
#    the final, possibly non-rung, level of a completed trial MAY therefore be stored; the monitor allows it
#    and does not require it.
#
#  syncgp, SynchronousHyperbandScheduler.on_trial_result:
#    a run of trial t goes from the previous rung level f of its bracket (0 for a new trial) to the milestone m
#    (the rung level of its slot).  A report (t, r) is passed to the searcher iff r > f ("the condition
#    resource > prev_level ensures that the searcher does not receive multiple reports for the same
#    resource"), with update = (searcher_data == "all" or r == m).  So
#      searcher_data = "rungs"   stored iff r = m: the milestones the trial reached IN ITS OWN BRACKET (a level
#                                that is a rung level of another bracket only is not stored)
#      searcher_data = "all"     stored iff f < r <= m
#    Pending: register_pending(t, m) for a NEW trial in _suggest only (never for a resumed one); dropped by the
#    observation at m or by on_trial_error -> evaluation_failed.
#
#  syncgp, DifferentialEvolutionHyperbandScheduler.on_trial_result: the same rule (f = level_to_prev_level of the
#    slot's bracket, also for the NEW trial ids DEHB starts from scratch at higher rungs: their re-computed levels
#    r <= f are not passed).  Before commit 5a8c545 of /repo the call of searcher.on_trial_result sat inside
#    `if resource >= milestone:`, so only r = m was stored for BOTH values of searcher_data; that deviation has its
#    own signature `c14:syncgp-dehb-all-stores-only-milestones` (known finding, fixed): quiet on the repaired tree,
#    fires again if the defect returns.

import random as _random
import signal as _signal
import threading as _threading

from framework import frac_str

MF_METRIC, MF_RES, MF_MAXATTR = "loss", "epoch", "epochs"
MF_CALL_TIMEOUT = 10.0
MF_SIGS = ("observation-twice", "observation-replaced", "observation-not-reported-value", "observation-unreported-level",
           "policy-levels", "pending-of-trial-not-running", "pending-at-observed-level", "pending-not-above-last-report",
           "pending-above-milestone", "pending-duplicate", "scheduler-raised")


class _MfTimeout(Exception):
    pass


def _mf_raise_timeout(*a):
    raise _MfTimeout()


def gen_mf_cases(rng, tier):
    quick = tier == "quick"
    n = 8 if quick else 80
    for _ in range(n):
        c = {"mode": rng.choice(["min", "max"])}
        if rng.random() < 0.75:
            # linearly spaced rung levels (grace_period == rung_increment): the recommended DyHPO setup
            inc = rng.choice([1, 1, 2, 3])
            c.update(grace_period=inc, rung_increment=inc, max_t=inc * rng.randint(2, 5) + rng.choice([0, 0, 1]))
        else:
            c.update(grace_period=1, reduction_factor=rng.choice([2, 3]), max_t=rng.choice([4, 8, 9, 10]))
        c["searcher_data"] = rng.choice(["rungs", "all", "all", "rungs_and_last"])
        c["register_pending_myopic"] = rng.random() < 0.3
        c["max_resource_attr"] = rng.random() < 0.5
        c["probability_sh"] = rng.choice([0, 0.25, 0.25, 0.5])
        c["random_seed"] = rng.randrange(1000)
        yield {
            "kind": "dyhpo", "ctor": c,
            "search_options": {"num_init_random": rng.choice([2, 3]), "opt_maxiter": 5, "opt_nstarts": 1,
                               "num_init_candidates": rng.choice([3, 5]), "debug_log": False},
            "seed": rng.randrange(10 ** 9),
            "n_workers": rng.randint(1, 4),
            "max_events": rng.choice([40, 70]) if quick else rng.choice([60, 100, 140]),
            "checkpointing": rng.random() < 0.5,
            "p_fail": rng.choice([0, 0.05, 0.1, 0.2]),
            "p_early": rng.choice([0, 0, 0.05]),
        }
    for j in range(n):
        cls = rng.choice(["hyperband", "hyperband", "hyperband", "dehb"])
        grace, rf, maxr = rng.choice([(1, 2, 4), (1, 2, 4), (1, 3, 9), (1, 2, 8), (2, 2, 8), (1, 3, 10), (1, 4, 16)])
        sdata = rng.choice(["rungs", "all"])
        if j < 4:  # every scheduler class with every data policy in every run
            cls, sdata = [("dehb", "all"), ("hyperband", "all"), ("dehb", "rungs"), ("hyperband", "rungs")][j]
            if grace == maxr // rf and sdata == "all":
                pass
        c = {"cls": cls, "mode": rng.choice(["min", "max"]), "grace_period": grace, "reduction_factor": rf,
             "max_resource_level": maxr, "searcher_data": sdata,
             "max_resource_attr": rng.random() < 0.5, "random_seed": rng.randrange(1000)}
        if cls == "hyperband":
            c["brackets"] = rng.choice([None, None, 1, 2])
        yield {
            "kind": "syncgp", "ctor": c,
            "search_options": {"num_init_random": rng.choice([2, 3]), "opt_maxiter": 5, "opt_nstarts": 1,
                               "num_init_candidates": rng.choice([3, 5]), "debug_log": False},
            "seed": rng.randrange(10 ** 9),
            "n_workers": rng.randint(1, 4),
            "max_events": rng.choice([50, 80]) if quick else rng.choice([60, 100, 140]),
            "checkpointing": rng.random() < 0.5,
            "p_fail": rng.choice([0, 0.05, 0.1, 0.2]),
        }
    # diverged training runs: a report whose metric is NaN / inf is an evaluation that has arrived (nothing is stored for
    # it, and it must not stay pending).  Appended last; kind hbgp = HyperbandScheduler(type=promotion, searcher=bayesopt),
    # monitor-only like syncgp (the Lean model's metric values are rationals)
    for j in range(6 if quick else 60):
        common = {"search_options": {"num_init_random": rng.choice([2, 3]), "opt_maxiter": 5, "opt_nstarts": 1,
                                     "num_init_candidates": 3, "debug_log": False},
                  "seed": rng.randrange(10 ** 9), "n_workers": rng.randint(1, 4),
                  "max_events": rng.choice([40, 70]) if quick else rng.choice([60, 100, 140]),
                  "checkpointing": rng.random() < 0.5, "p_fail": rng.choice([0, 0, 0.05]),
                  "p_nan": rng.choice([0.1, 0.2, 0.35]), "nan_kinds": rng.choice([["nan"], ["nan", "inf", "-inf"]])}
        if j % 2 == 0:
            grace, rf, maxr = rng.choice([(1, 2, 4), (1, 3, 9), (1, 2, 8), (2, 2, 8)])
            c = {"cls": "hyperband", "mode": rng.choice(["min", "max"]), "grace_period": grace, "reduction_factor": rf,
                 "max_resource_level": maxr, "searcher_data": rng.choice(["rungs", "all"]),
                 "max_resource_attr": rng.random() < 0.5, "random_seed": rng.randrange(1000), "brackets": rng.choice([None, 1, 2])}
            yield dict(common, kind="syncgp", ctor=c)
        else:
            c = {"mode": rng.choice(["min", "max"]), "grace_period": 1, "reduction_factor": rng.choice([2, 3]),
                 "max_t": rng.choice([4, 8, 9]), "searcher_data": rng.choice(["rungs", "all"]),
                 "register_pending_myopic": rng.random() < 0.3, "max_resource_attr": rng.random() < 0.5,
                 "random_seed": rng.randrange(1000)}
            yield dict(common, kind="hbgp", ctor=c, p_early=0)


def _mf_make(spec):
    """the REAL scheduler of the case and its GP searcher (the object whose state_transformer is read)"""
    import logging
    logging.disable(logging.CRITICAL)
    from syne_tune.config_space import uniform
    c = spec["ctor"]
    cs = {"x": uniform(0, 1), "y": uniform(0, 1)}
    args = dict(metric=MF_METRIC, mode=c["mode"], resource_attr=MF_RES, searcher_data=c["searcher_data"],
                random_seed=c["random_seed"], search_options=dict(spec["search_options"]),
                grace_period=c["grace_period"])
    if spec["kind"] in ("dyhpo", "hbgp"):
        from syne_tune.optimizer.schedulers.hyperband import HyperbandScheduler
        if spec["kind"] == "dyhpo":
            args.update(searcher="dyhpo", type="dyhpo", register_pending_myopic=c["register_pending_myopic"],
                        rung_system_kwargs={"probability_sh": c["probability_sh"]})
        else:
            args.update(searcher="bayesopt", type="promotion", register_pending_myopic=c["register_pending_myopic"], brackets=1)
        if "rung_increment" in c:
            args["rung_increment"] = c["rung_increment"]
        else:
            args["reduction_factor"] = c["reduction_factor"]
        if c["max_resource_attr"]:
            cs[MF_MAXATTR] = c["max_t"]
            args["max_resource_attr"] = MF_MAXATTR
        else:
            args["max_t"] = c["max_t"]
        sch = HyperbandScheduler(cs, **args)
        sch._initialize_searcher()
        # DynamicHPOSearcher delegates all data calls to an inner GP searcher
        gp = sch.searcher._searcher_int if spec["kind"] == "dyhpo" else sch.searcher
        header = {"rung_levels": [int(x) for x in sch.rung_levels], "max_t": int(sch.max_t)}
    else:
        from syne_tune.optimizer.schedulers.synchronous.hyperband_impl import (
            SynchronousGeometricHyperbandScheduler, GeometricDifferentialEvolutionHyperbandScheduler)
        args.update(searcher="bayesopt", reduction_factor=c["reduction_factor"])
        if c.get("brackets"):
            args["brackets"] = c["brackets"]
        if c["max_resource_attr"]:
            cs[MF_MAXATTR] = c["max_resource_level"]
            args["max_resource_attr"] = MF_MAXATTR
        else:
            args["max_resource_level"] = c["max_resource_level"]
        klass = GeometricDifferentialEvolutionHyperbandScheduler if c["cls"] == "dehb" else SynchronousGeometricHyperbandScheduler
        sch = klass(cs, **args)
        sch._initialize_searcher()
        gp = sch.searcher
        header = {"bracket_rungs": [[[int(a), int(b)] for a, b in br] for br in sch.bracket_manager.bracket_rungs],
                  "max_t": int(sch.max_resource_level)}
    return sch, gp, header


def _mf_state(gp):
    """the searcher's data state, values as exact rationals"""
    from syne_tune.optimizer.schedulers.searchers.bayesopt.datatypes.common import INTERNAL_METRIC_NAME
    st = gp.state_transformer.state
    obs = []
    for e in st.trials_evaluations:
        ms = e.metrics.get(INTERNAL_METRIC_NAME, {})
        if not isinstance(ms, dict):
            ms = {"?": ms}
        for k, v in ms.items():
            obs.append([str(e.trial_id), str(k), frac_str(float(v))])
    return {"obs": obs,
            "pending": [[str(p.trial_id), p.resource if p.resource is None else int(p.resource)] for p in st.pending_evaluations],
            "failed": [str(x) for x in st.failed_trials]}


def _mf_run_info(spec, sch, tid):
    """milestone m and resume level f of the run of trial `tid` that was just started / resumed (the scheduler's own)"""
    if spec["kind"] in ("dyhpo", "hbgp"):
        info = None
        for rs in sch.terminator._rung_systems:
            info = rs._running.get(str(tid), info)
        f = info["resume_from"]
        return {"m": int(info["milestone"]), "f": 0 if f is None else int(f)}
    slot = sch._trial_to_pending_slot[tid]
    if spec["ctor"]["cls"] == "dehb":
        b, m = slot.bracket_id, slot.level
    else:
        b, m = slot[0], slot[1].level
    return {"m": int(m), "f": int(sch.bracket_manager.level_to_prev_level(b, m)), "bracket": int(b)}


def mf_metric(seed, tid, r, run):
    """multiple of 1/1024 in [0, 1): `1 - v` is exact; a level re-reported by a later run (no checkpointing)
    carries a different value than in the earlier run"""
    return _random.Random(seed * 7919 + tid * 104729 + r * 131 + run * 17).randrange(0, 1024) / 1024.0



class _DyRandProxy:
    """stands in for `DyHPORungSystem._random_state`: delegates to the real generator (the stream of random numbers is
    unchanged), records what `rand()` returned - the coin of `on_task_schedule`"""

    def __init__(self, inner):
        self._inner = inner
        self.coins = []

    def rand(self, *a, **kw):
        r = self._inner.rand(*a, **kw)
        if not a and not kw:
            self.coins.append(float(r))
        return r

    def __getattr__(self, name):
        return getattr(self._inner, name)


class _DyRecorder:
    """Per-instance wrappers around the REAL objects of one dyhpo case (nothing in /repo is changed): the rung system's
    `on_task_schedule` and `_random_state`, the searcher's `score_paused_trials_and_new_configs`, and the five data methods
    of the searcher the scheduler calls (recorded in the format of `streams/hb.StubSearcher`, then passed on)."""

    def __init__(self, sch):
        self.calls = []
        self.sched = []     # one record per `rung_system.on_task_schedule` call
        self.scores = []    # one record per `searcher.score_paused_trials_and_new_configs` call
        term = sch.terminator
        self.brackets = hb.RecordingRandomState(term.random_state)  # what `_sample_bracket` drew
        term.random_state = self.brackets
        self.rsys = term._rung_systems
        self.coins = []
        for k, rs in enumerate(self.rsys):
            proxy = _DyRandProxy(rs._random_state)
            rs._random_state = proxy
            self.coins.append(proxy)
            rs.on_task_schedule = self._wrap_schedule(k, rs, rs.on_task_schedule, proxy)
        srch = sch.searcher
        srch.score_paused_trials_and_new_configs = self._wrap_score(srch.score_paused_trials_and_new_configs)
        srch.on_trial_result = self._wrap(srch.on_trial_result, self._rec_update)
        srch.register_pending = self._wrap(srch.register_pending, self._rec_pending)
        srch.remove_case = self._wrap(srch.remove_case, self._rec_remove_case)
        srch.evaluation_failed = self._wrap(srch.evaluation_failed, lambda trial_id: ["failed", int(trial_id)])
        srch.cleanup_pending = self._wrap(srch.cleanup_pending, lambda trial_id: ["cleanup", int(trial_id)])

    @staticmethod
    def _rec_update(trial_id, config, result, update):
        return ["update", int(trial_id), int(result[MF_RES]), frac_str(result[MF_METRIC]), bool(update)]

    @staticmethod
    def _rec_pending(trial_id, config=None, milestone=None):
        return ["pending", int(trial_id), int(milestone)]

    @staticmethod
    def _rec_remove_case(trial_id, **kwargs):
        return ["remove_case", int(trial_id), int(kwargs[MF_RES]), frac_str(kwargs[MF_METRIC])]

    def _wrap(self, orig, rec):
        def f(*a, **kw):
            self.calls.append(rec(*a, **kw))
            return orig(*a, **kw)
        return f

    def _wrap_score(self, orig):
        def f(*a, **kw):
            paused = kw["paused_trials"] if "paused_trials" in kw else a[0]
            entry = {"paused": [[int(t), int(pos), int(r)] for t, pos, r in paused]}
            self.scores.append(entry)
            res = orig(*a, **kw)
            tid = res.get("trial_id")
            entry["pick"] = None if tid is None else int(tid)
            entry["pos"] = None if tid is None else int(res["pos"])
            return res
        return f

    def _wrap_schedule(self, k, rs, orig, proxy):
        def f(new_trial_id):
            n_coin, n_score = len(proxy.coins), len(self.scores)
            entry = {"sys": k}
            self.sched.append(entry)
            ret = orig(new_trial_id)
            coins = proxy.coins[n_coin:]
            entry["sh"] = bool(coins) and coins[0] <= rs._probability_sh
            entry["score"] = self.scores[n_score] if len(self.scores) > n_score else None
            tid = ret.get("trial_id")
            entry["promoted"] = None if tid is None else [int(tid), int(ret["resume_from"]), int(ret["milestone"])]
            return ret
        return f

    def take_calls(self):
        c, self.calls = self.calls, []
        return c

    def take_sched(self):
        c, self.sched = self.sched, []
        return c


def _dy_snapshot(sch, gp):
    """`streams/hb.snapshot` plus the data state of the inner GP searcher in the same format"""
    out = hb.snapshot(sch)
    st = gp.state_transformer.state
    out["pending"] = [[int(p.trial_id), int(p.resource)] for p in st.pending_evaluations]
    out["observed"] = [[int(e.trial_id), [[int(k), frac_str(v)] for k, v in e.metrics.get("target", {}).items()]]
                       for e in st.trials_evaluations]
    out["failed"] = [int(x) for x in st.failed_trials]
    return out


def _dy_header(spec, sch):
    """constructor line of the hb protocol for a dyhpo case (the Hb driver maps type dyhpo to the promotion rung system
    with the DyHPO `on_task_schedule`, lean/SyneTune/Model/DyHPO.lean)"""
    c = spec["ctor"]
    h = {"stream": "hb", "type": "dyhpo", "mode": c["mode"], "max_t": int(c["max_t"]), "grace_period": int(c["grace_period"]),
         "brackets": 1, "searcher_data": c["searcher_data"], "register_pending_myopic": bool(c["register_pending_myopic"]),
         "max_resource_attr": bool(c["max_resource_attr"])}
    if "rung_increment" in c:
        h["rung_increment"] = int(c["rung_increment"])
    else:
        h["reduction_factor"] = str(c["reduction_factor"])
    impl = {"rung_levels": [int(x) for x in sch.rung_levels], "num_brackets": int(sch.terminator.num_brackets),
            "_prom_quants": [float(q) for (_, _, q) in sch.terminator.information_for_rungs()]}
    return h, impl


def _dy_suggest_line(rec, next_id):
    """model input of one `_suggest` of the real dyhpo scheduler and the FORCED facts observed inside it: which list of
    paused trials the searcher was handed, and at which position of its rung the trial it picked sits.
    FREE (adopted from the implementation): the coin `sh`, the hint of the SH scan (level it promoted from), the pick."""
    sched = rec.take_sched()
    if len(sched) != 1:
        raise RuntimeError(f"dyhpo harness: expected one on_task_schedule call per suggest, saw {len(sched)}")
    e = sched[0]
    drawn = rec.brackets.drawn[-1] if rec.brackets.drawn else 0
    inp = {"op": "suggest_dy", "trial_id": int(next_id), "bracket": int(drawn), "sh": bool(e["sh"])}
    forced = {}
    sc = e["score"]
    if sc is None:
        # the searcher was not asked: the SH rule promoted
        if e["promoted"] is not None:
            inp["hint"] = e["promoted"][1]
    else:
        forced["paused"] = sc["paused"]
        if sc["pick"] is not None:
            inp["pick"] = sc["pick"]
            forced["pick_pos"] = sc["pos"]
    return inp, forced, e


def run_mf(spec):
    from syne_tune.backend.trial_status import Trial
    kind = spec["kind"]
    rng = _random.Random(spec["seed"])
    sch, gp, header = _mf_make(spec)
    # model lines (kind dyhpo only): the hb line protocol, run through Drivers/Hb.lean by framework.run_cases and
    # compared by streams/hb.compare; `rec` wraps the real objects of this case per instance
    lines = []
    rec = None
    if kind == "dyhpo":
        rec = _DyRecorder(sch)
        lines.append(_dy_header(spec, sch))
    fits = [0]
    stf = gp.state_transformer
    orig_fit = stf.fit

    def counting_fit(*a, **kw):
        fits[0] += 1
        return orig_fit(*a, **kw)

    stf.fit = counting_fit  # pass-through counter: was the model-based phase reached?
    events = []
    hist = {}

    def count(k, n=1):
        hist[f"{kind}:{k}"] = hist.get(f"{kind}:{k}", 0) + n

    def guarded(what, f, *a):
        use_alarm = _threading.current_thread() is _threading.main_thread()
        if use_alarm:
            old = _signal.signal(_signal.SIGALRM, _mf_raise_timeout)
            _signal.setitimer(_signal.ITIMER_REAL, MF_CALL_TIMEOUT)
        try:
            return True, f(*a)
        except Exception as e:  # noqa
            events.append({"ev": "raised", "call": what, "err": "Timeout" if isinstance(e, _MfTimeout) else type(e).__name__,
                           "msg": str(e)[:300], "state": None})
            return False, None
        finally:
            if use_alarm:
                _signal.setitimer(_signal.ITIMER_REAL, 0)
                _signal.signal(_signal.SIGALRM, old)

    workers = {}      # trial -> {"next": next level to report, "run": run index, "reports": reports in this run, "resumed": bool}
    trials = {}
    nruns = {}
    paused_at = {}    # trial -> level of its last PAUSE answer
    last_result = {}  # trial -> last result delivered (what the Tuner hands to on_trial_complete)
    failed = set()
    next_id = 0
    for _ in range(spec["max_events"]):
        acts = []
        if len(workers) < spec["n_workers"]:
            acts += ["suggest"] * 2
        if workers:
            acts += ["report"] * 5
            if spec.get("p_fail", 0) > 0 and rng.random() < spec["p_fail"]:
                acts = ["fail"]
            elif spec.get("p_early", 0) > 0 and rng.random() < spec["p_early"] and any(t in last_result for t in workers):
                acts = ["end"]
        a = rng.choice(acts)
        if a == "suggest":
            ok, sg = guarded("suggest", sch.suggest, next_id)
            if not ok:
                break
            dy = None
            if rec is not None:
                dy = _dy_suggest_line(rec, next_id)
                dy_calls = rec.take_calls()
            if sg is None:
                events.append({"ev": "no-suggestion", "state": _mf_state(gp)})
                count("no-suggestion")
                if not workers:
                    break
                continue
            if sg.spawn_new_trial_id:
                tid = next_id
                next_id += 1
                trials[tid] = Trial(trial_id=tid, config=sg.config, creation_time=hb.EPOCH0)
                ok, _x = guarded("on_trial_add", sch.on_trial_add, trials[tid])
                if not ok:
                    break
                nruns[tid] = 1
                workers[tid] = {"next": 1, "run": 1, "reports": 0, "resumed": False}
                ev = {"ev": "start", "trial": tid}
                count("start")
            else:
                tid = int(sg.checkpoint_trial_id)
                if sg.config is not None:
                    trials[tid] = Trial(trial_id=tid, config=sg.config, creation_time=hb.EPOCH0)
                nruns[tid] = nruns.get(tid, 0) + 1
                # with checkpointing the new run continues after the level the trial was paused at; a trial that
                # failed has no checkpoint at a rung level (synchronous brackets resume failed trials: known
                # finding c05:failed-trial-promoted) and starts from scratch, like every run without checkpointing
                start_r = paused_at[tid] + 1 if (spec["checkpointing"] and tid in paused_at and tid not in failed) else 1
                ev = {"ev": "resume", "trial": tid, "was_failed": tid in failed, "was_running": tid in workers}
                workers[tid] = {"next": start_r, "run": nruns[tid], "reports": 0, "resumed": True}
                count("resume")
                if tid in failed:
                    count("resume-of-failed-trial")
                    failed.discard(tid)
            ev.update(_mf_run_info(spec, sch, tid))
            if dy is not None:
                inp, forced, sched_rec = dy
                if ev["ev"] == "start":
                    sgj = {"kind": "start", "trial": tid, "bracket": int(sch._active_trials[str(tid)].bracket), "milestone": ev["m"]}
                    count("model:suggest_dy:started")
                else:
                    sgj = {"kind": "resume", "trial": tid, "from": ev["f"], "milestone": ev["m"]}
                    count("model:suggest_dy:resumed-by-" + ("pick" if "pick" in inp else "sh-rule"))
                out = {"suggestion": sgj, "calls": dy_calls}
                out.update(forced)
                out.update(_dy_snapshot(sch, gp))
                lines.append((inp, out))
                count("model:suggest_dy")
                if inp["sh"]:
                    count("model:suggest_dy:sh-tried")
                if "paused" in forced:
                    count("model:suggest_dy:searcher-asked")
                    if forced["paused"]:
                        count("model:suggest_dy:searcher-asked-with-paused-trials")
            if kind == "syncgp" and spec["ctor"]["cls"] == "hyperband":
                # synchronous Hyperband: the resume level of a run is known from the history alone - 0 for a new trial,
                # the rung level the trial was paused at for a resumed one (not the scheduler's level_to_prev_level)
                # (a failed trial which the bracket resumes anyway - known finding c05:failed-trial-promoted - has no such level)
                if ev["ev"] == "start":
                    ev["f"] = 0
                elif not ev.get("was_failed") and tid in paused_at:
                    ev["f"] = int(paused_at[tid])
            if sg.config is not None and MF_MAXATTR in sg.config and spec["ctor"]["max_resource_attr"]:
                ev["cfg_milestone"] = int(sg.config[MF_MAXATTR])
            ev["state"] = _mf_state(gp)
            events.append(ev)
        elif a == "report":
            tid = rng.choice(sorted(workers))
            w = workers[tid]
            r = w["next"]
            v = mf_metric(spec["seed"], tid, r, w["run"])
            if spec.get("p_nan") and rng.random() < spec["p_nan"]:
                v = float(rng.choice(spec.get("nan_kinds") or ["nan"]))
                count("non-finite-report")
            res = {MF_METRIC: v, MF_RES: r}
            ok, d = guarded("on_trial_result", sch.on_trial_result, trials[tid], dict(res))
            if not ok:
                break
            w["next"] += 1
            w["reports"] += 1
            last_result[tid] = res
            events.append({"ev": "result", "trial": tid, "resource": r, "metric": v if v == v and abs(v) != float("inf") else repr(v),
                           "decision": d, "state": _mf_state(gp)})
            count("result")
            if rec is not None:
                out = {"decision": d, "calls": rec.take_calls()}
                out.update(_dy_snapshot(sch, gp))
                lines.append(({"op": "result", "trial": tid, "resource": r, "metric": frac_str(v), "hint": d == "CONTINUE"}, out))
            if d != "CONTINUE":
                count("pause" if d == "PAUSE" else "stop")
                if d == "PAUSE":
                    paused_at[tid] = r
                del workers[tid]
                ok, _x = guarded("on_trial_remove", sch.on_trial_remove, trials[tid])
                if not ok:
                    break
                events.append({"ev": "remove", "trial": tid, "state": _mf_state(gp)})
                if rec is not None:
                    out = _dy_snapshot(sch, gp)
                    c_ = rec.take_calls()
                    if c_:  # on_trial_remove makes no searcher call in the model: any call here is a disagreement
                        out["calls"] = c_
                    lines.append(({"op": "remove", "trial": tid}, out))
        elif a == "fail":
            tid = rng.choice(sorted(workers))
            w = workers.pop(tid)
            failed.add(tid)
            count("fail:" + ("before-first-report" if (w["reports"] == 0 and not w["resumed"]) else
                             "after-resume-before-report" if w["reports"] == 0 else
                             "after-resume-between-reports" if w["resumed"] else "between-reports"))
            ok, _x = guarded("on_trial_error", sch.on_trial_error, trials[tid])
            if not ok:
                break
            events.append({"ev": "error", "trial": tid, "state": _mf_state(gp)})
            if rec is not None:
                out = {"calls": rec.take_calls()}
                out.update(_dy_snapshot(sch, gp))
                lines.append(({"op": "error", "trial": tid}, out))
        elif a == "end":
            # the training script ends by itself: the Tuner calls on_trial_complete with the last result it has seen
            tid = rng.choice(sorted(t for t in workers if t in last_result))
            del workers[tid]
            res = last_result[tid]
            ok, _x = guarded("on_trial_complete", sch.on_trial_complete, trials[tid], dict(res))
            if not ok:
                break
            events.append({"ev": "complete", "trial": tid, "resource": res[MF_RES], "metric": res[MF_METRIC], "state": _mf_state(gp)})
            count("complete")
            if rec is not None:
                out = {"calls": rec.take_calls()}
                out.update(_dy_snapshot(sch, gp))
                lines.append(({"op": "complete", "trial": tid, "resource": int(res[MF_RES]), "metric": frac_str(res[MF_METRIC])}, out))
    mon = mf_monitor(spec, header, events)
    count("cases")
    count("events", len(events))
    count("surrogate-fits", fits[0])
    count("model-based-phase-reached", 1 if fits[0] else 0)
    c = spec["ctor"]
    count("policy:" + c["searcher_data"])
    count("mode:" + c["mode"])
    count("max_resource_attr:" + str(bool(c["max_resource_attr"])))
    count("checkpointing:" + str(bool(spec["checkpointing"])))
    if kind == "syncgp":
        count("cls:" + c["cls"])
    for e in events:
        if e["ev"] == "raised":
            count(f"scheduler-raised:{c.get('cls', 'dyhpo')}:{e['call']}:{e['err']}")
    ends = hist.get(f"{kind}:pause", 0) + hist.get(f"{kind}:stop", 0)
    fails = sum(v for k, v in hist.items() if k.startswith(f"{kind}:fail:"))
    nt = fits[0] > 0 and ends > 0 and (fails > 0 or hist.get(f"{kind}:resume", 0) > 0)
    count("nontrivial", 1 if nt else 0)
    if rec is not None:
        count("model:cases-with-model-lines", 1 if len(lines) > 1 else 0)
        count("model:lines", len(lines))
    return {"lines": lines, "monitor": mon, "meta": {"hist": hist, "nontrivial": bool(nt)}}


def _mf_history(events, upto):
    """compact operation list up to (and including) event `upto`: the reproducing history of a finding"""
    out = []
    for e in events[:upto + 1]:
        k = e["ev"]
        if k in ("start", "resume"):
            out.append(f"{k} {e['trial']} (from {e['f']} to {e['m']})")
        elif k == "result":
            out.append(f"result {e['trial']} level {e['resource']} metric {e['metric']} -> {e['decision']}")
        elif k == "raised":
            out.append(f"{e['call']} raised {e['err']}: {e['msg']}")
        else:
            out.append(f"{k} {e.get('trial', '')}".strip())
    return out[-60:]


def mf_monitor(spec, header, events):
    """direct reading of C14 on the searcher's data state after every event (kinds dyhpo / syncgp)"""
    kind = spec["kind"]
    hbrules = kind in ("dyhpo", "hbgp")   # data-policy rules of HyperbandScheduler._update_searcher
    c = spec["ctor"]
    mode, policy = c["mode"], c["searcher_data"]
    dehb = kind == "syncgp" and c["cls"] == "dehb"
    nonfinite = set()  # (trial, level) reported with a NaN / infinite metric while running: arrived, nothing to store
    max_t = header["max_t"]
    rung_levels = set(header.get("rung_levels", []))
    out, seen = [], set()

    def find(sig, what, i):
        sig = f"c14:{kind}-{sig}"
        if sig in seen:
            return
        seen.add(sig)
        e = {k: v for k, v in events[i].items() if k != "state"}
        out.append({"signature": sig, "what": what,
                    "detail": {"event": e, "state_after": events[i].get("state"), "history": _mf_history(events, i)}})

    running = {}       # trial -> {"f": resume level, "m": milestone, "last": last level reported in this run}
    reported = {}      # (trial, level) -> values reported at that level while the trial was running (min convention)
    expected = {}      # trial -> levels the data policy selects among the accepted reports
    optional = {}      # trial -> levels that may be stored in addition (final result passed by on_trial_complete)
    milestones = {}    # dehb: trial -> milestones reached (all that the code before 5a8c545 stored, for both policies)
    last_acc = {}      # rungs_and_last: trial -> (last accepted level, keep)
    prev_obs = {}
    for i, ev in enumerate(events):
        k = ev["ev"]
        if k == "raised":
            # DEHB raising / hanging in suggest after failures is the known finding of C13, not judged here
            if not dehb:
                find("scheduler-raised", f"{ev['call']} raised {ev['err']}: {ev['msg']}", i)
            break
        t = str(ev["trial"]) if "trial" in ev else None
        if k in ("start", "resume"):
            running[t] = {"f": ev["f"], "m": ev["m"], "last": 0}
        elif k == "result":
            r = ev["resource"]
            finite = not isinstance(ev["metric"], str)
            v = Fraction(ev["metric"]) if finite else None
            run = running.get(t)
            if run is not None and not finite:
                run["last"] = max(run["last"], r)
                nonfinite.add((t, r))
                if ev["decision"] != "CONTINUE":
                    running.pop(t, None)
            elif run is not None:
                run["last"] = max(run["last"], r)
                reported.setdefault((t, str(r)), []).append(v if mode == "min" else 1 - v)
                f, m = run["f"], run["m"]
                if hbrules:
                    if r > f:  # accepted (r <= f: re-reported level of a resumed run, `ignore_data`)
                        exp = expected.setdefault(t, set())
                        if policy == "all":
                            exp.add(r)
                        elif policy == "rungs":
                            if r in rung_levels or r == max_t:
                                exp.add(r)
                        else:  # rungs_and_last
                            if t in last_acc and not last_acc[t][1]:
                                exp.discard(last_acc[t][0])
                            exp.add(r)
                            last_acc[t] = (r, r == m or r == max_t)
                else:
                    if f < r <= m and (policy == "all" or r == m):
                        expected.setdefault(t, set()).add(r)
                    if r == m:
                        milestones.setdefault(t, set()).add(r)
                if ev["decision"] != "CONTINUE":
                    running.pop(t, None)
        elif k == "complete":
            optional.setdefault(t, set()).add(ev["resource"])
            running.pop(t, None)
        elif k == "error":
            running.pop(t, None)
        st = ev.get("state")
        if st is None:
            continue
        # (a) one observation per (trial, level), equal to a value the trial reported there (min convention)
        obs = {}
        for tt, lv, val in st["obs"]:
            if (tt, lv) in obs:
                find("observation-twice", f"two observations for trial {tt} level {lv}", i)
            obs[(tt, lv)] = Fraction(val)
        for key, val in obs.items():
            vals = reported.get(key)
            if not vals:
                find("observation-unreported-level", f"observation for trial {key[0]} level {key[1]} = {val}, but the trial "
                     f"has not reported that level", i)
            elif val not in vals:
                find("observation-not-reported-value", f"observation for trial {key[0]} level {key[1]} is {val}, reported values "
                     f"(min convention) {[str(x) for x in vals]}", i)
            if key in prev_obs and prev_obs[key] != val:
                find("observation-replaced", f"observation for trial {key[0]} level {key[1]} was {prev_obs[key]} and is now {val}: "
                     f"the level was fed to the model a second time", i)
        prev_obs = obs
        # (b) exactly the levels the data policy selects
        have = {}
        for (tt, lv) in obs:
            have.setdefault(tt, set()).add(int(lv) if lv.lstrip("-").isdigit() else lv)
        for tt in sorted(set(have) | set(expected), key=lambda x: (len(x), x)):
            h, e_, o_ = have.get(tt, set()), expected.get(tt, set()), optional.get(tt, set())
            if e_ <= h <= (e_ | o_):
                continue
            if dehb and policy == "all" and h == milestones.get(tt, set()):
                find("dehb-all-stores-only-milestones", f"DEHB with searcher_data=all: trial {tt} has observations at levels "
                     f"{sorted(h)} only (its milestones), the levels of its runs that searcher_data=all selects are {sorted(e_)}", i)
            else:
                find("policy-levels", f"searcher_data={policy}: trial {tt} has observations at levels {sorted(h, key=str)}, the policy "
                     f"selects {sorted(e_)}" + (f" (optional {sorted(o_)})" if o_ else "") + " of the levels it reported", i)
            break
        # (c) pending evaluations: running trial, above its last report, not above the milestone, not observed
        for tt, lv in st["pending"]:
            run = running.get(tt)
            if (tt, lv) in nonfinite and (run is None or lv <= max(run["f"], run["last"])):
                find("nonfinite-report-keeps-pending", f"pending evaluation (trial {tt}, level {lv}) is still there although trial {tt} "
                     f"reported level {lv} (with a NaN / infinite metric value)" + ("" if run is not None else " and is not running any more"), i)
            elif run is None:
                find("pending-of-trial-not-running", f"pending evaluation (trial {tt}, level {lv}) although trial {tt} is not "
                     f"running (after {k} of trial {ev.get('trial')})", i)
            else:
                if lv is None or lv <= max(run["f"], run["last"]):
                    find("pending-not-above-last-report", f"pending (trial {tt}, level {lv}) although trial {tt} was resumed from "
                         f"level {run['f']} and last reported level {run['last']}", i)
                elif lv > run["m"]:
                    find("pending-above-milestone", f"pending (trial {tt}, level {lv}) above the milestone {run['m']} trial {tt} "
                         f"is running to", i)
            if (tt, str(lv)) in obs:
                find("pending-at-observed-level", f"pending (trial {tt}, level {lv}) already observed", i)
        if len(st["pending"]) != len({tuple(p) for p in st["pending"]}):
            find("pending-duplicate", "duplicate pending entry", i)
    return out
