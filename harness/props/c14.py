"""C14 — multi-fidelity surrogate data: each observation once, only live pending entries."""
from fractions import Fraction

from streams import hb
from streams.hb import compare  # noqa: F401
from props.c03 import gen_ctor

PID = "C14"
LEVEL = "proof"
LEAN_TARGETS = ["SyneTune.Props.C14", "SyneTune.Props.C14Comp"]
DRIVER = "SyneTune/Drivers/Hb.lean"
THEOREMS = [
    "SyneTune.C14.apply_preserves_wf",
    "SyneTune.C14.applyAll_preserves_wf",
    "SyneTune.C14.observation_value",
    "SyneTune.C14.label_keeps_others",
    "SyneTune.C14.cleanup_spec",
    "SyneTune.C14.complete_calls_cleanup",
    "SyneTune.C14.error_calls_failed",
    "SyneTune.C14.failed_spec",
    "SyneTune.C14.register_pending_spec",
    "SyneTune.C14.update_strictly_increasing",
    "SyneTune.C14.policy_rungs",
    "SyneTune.C14.policy_all",
    "SyneTune.C14.policy_rungs_and_last",
    # composed system scheduler + searcher bookkeeping (Props/C14Comp.lean): invariant over all histories
    "SyneTune.C14Comp.calls_accepted",
    "SyneTune.C14Comp.cinv_step",
    "SyneTune.C14Comp.cinv_all_histories",
    "SyneTune.C14Comp.init_CInv",
    "SyneTune.C14Comp.init_CInv_rf",
    "SyneTune.C14Comp.pending_only_running",
    "SyneTune.C14Comp.pending_rungs_milestone_nodup",
    "SyneTune.C14Comp.no_pending_unless_running",
    "SyneTune.C14Comp.observed_once",
    "SyneTune.C14Comp.observed_only_reported_levels",
    "SyneTune.C14Comp.no_pending_after_end",
    # the clauses of the operation contract `OpOK` are necessary (witnesses replayed on the real code in `extra`)
    "SyneTune.C14Comp.pending_only_running_counterexample",
    "SyneTune.C14Comp.pending_only_running_counterexample_promoted",
    "SyneTune.C14Comp.skipped_level_counterexample",
]
TRUSTED = [
    "hand-written models lean/SyneTune/Model/{HB,SearcherState}.lean tied to /repo by the hb stream run with the real "
    "GPMultiFidelitySearcher / HyperTune searcher (state_transformer.state read after every event)",
    "Python harness harness/streams/hb.py",
    "num_init_random is set huge so that no surrogate fit runs: the data bookkeeping is identical, the numerics are not exercised",
]
ASSUMPTIONS = [
    "workers report consecutive resource levels within a run (a resumed run starts at resume_from+1 with checkpointing, at 1 without)",
    "cost attribute not used in these cases (cost labels are stored under a different metric name)",
    "operation contract OpOK of Props/C14Comp.lean: on_trial_remove only for trials the scheduler does not consider running "
    "(the Tuner calls it right after a STOP/PAUSE answer; externally stopped trials are signalled by on_trial_error), "
    "on_trial_complete with the last result reported; both are what the scripted worker pool of streams/hb.py does",
]
RULE = ("cases: real HyperbandScheduler(type in stopping, promotion) with searcher bayesopt / hypertune, every searcher_data "
        "policy, register_pending_myopic on/off, 1-4 brackets, checkpointing on/off, failures and completions; distinct by "
        "sha256 of the spec; non-trivial iff at least one pending entry was dropped by an observation and at least one trial "
        "paused/stopped/failed while others had pending entries")


def gen_cases(rng, tier):
    n = 40 if tier == "quick" else 600
    for _ in range(n):
        typ = rng.choice(["stopping", "promotion", "promotion"])
        c = gen_ctor(rng, typ)
        c["searcher"] = rng.choice(["bayesopt", "bayesopt", "hypertune"])
        if c["searcher"] == "hypertune" and c["brackets"] == 1:
            c["brackets"] = 2
        c["max_resource_attr"] = rng.random() < 0.6
        yield {
            "ctor": c,
            "seed": rng.randrange(10 ** 9),
            "n_workers": rng.randint(1, 5),
            "max_events": rng.choice([30, 60, 100]) if tier == "quick" else rng.choice([60, 150, 300]),
            "style": rng.choice(["grid", "grid", "ties", "const"]),
            "checkpointing": rng.random() < 0.5,
            "p_fail": rng.choice([0, 0.03, 0.08]),
            "p_early": rng.choice([0, 0.05]),
        }


def corpus():
    return []


def data_monitor(spec, lines, events):
    """direct reading of C14 on the searcher state after every event"""
    out = []
    ctor = spec["ctor"]
    mode = ctor["mode"]
    policy = ctor.get("searcher_data", "rungs")
    reported = {}      # (trial, level) -> list of metric values reported at that level (non-ignored runs)
    expected = {}      # trial -> set of levels the data policy selects among the levels it has reported
    last_nonrung = {}  # rungs_and_last: the latest reported level if it is not a rung level
    rung_levels = None
    running = set()
    last_result = {}
    levels = None
    max_t = ctor["max_t"]
    lastrep = {}       # trial -> largest level reported while the scheduler considered it running
    pause_resume = ctor["type"] not in ("stopping", "rush_stopping")
    all_levels = sorted(lines[0][1].get("rung_levels", [])) if lines and lines[0][1] else []
    for (inp, impl), ev in zip(lines[1:], events):
        if impl is None or "err" in impl:
            continue
        k = ev["ev"]
        if k == "start":
            running.add(ev["trial"])
        elif k == "resume":
            running.add(ev["trial"])
        elif k == "result":
            t_, r_ = ev["trial"], ev["resource"]
            first_time = (t_, r_) not in reported
            reported.setdefault((t_, r_), []).append(ev["metric"])
            if ev.get("prev_decision") == "CONTINUE" and not ev.get("late"):
                lastrep[t_] = max(lastrep.get(t_, 0), r_)
            if rung_levels is None and lines and lines[0][1]:
                rung_levels = set(lines[0][1].get("rung_levels", []))
            if first_time and ev.get("prev_decision") == "CONTINUE" and not ev.get("late"):
                is_rung = r_ in (rung_levels or set()) or r_ == max_t
                exp = expected.setdefault(t_, set())
                if policy == "all":
                    exp.add(r_)
                elif policy == "rungs":
                    if is_rung:
                        exp.add(r_)
                else:  # rungs_and_last (judged only with one bracket, where "rung level" is unambiguous)
                    if t_ in last_nonrung:
                        exp.discard(last_nonrung.pop(t_))
                    exp.add(r_)
                    if not is_rung:
                        last_nonrung[t_] = r_
            if ev["decision"] != "CONTINUE":
                running.discard(ev["trial"])
        elif k in ("remove", "complete", "error"):
            running.discard(ev["trial"])
        if "pending" not in impl:
            continue
        obs = {}
        for t, ms in impl["observed"]:
            for r, c in ms:
                if (t, r) in obs:
                    out.append({"signature": "c14:observation-twice", "what": f"two observations for trial {t} level {r}", "detail": ev})
                obs[(t, r)] = Fraction(c)
        for (t, r), c in obs.items():
            vals = [Fraction(v) if mode == "min" else Fraction(1.0 - v) for v in reported.get((t, r), [])]
            if c not in vals:
                out.append({"signature": "c14:observation-not-reported-value", "what":
                            f"observation for trial {t} level {r} is {c}, reported values (min convention) {vals}", "detail": ev})
        if policy != "rungs_and_last" or ctor.get("brackets", 1) == 1:
            have = {}
            for (t, r) in obs:
                have.setdefault(t, set()).add(r)
            for t in set(have) | set(expected):
                if have.get(t, set()) != expected.get(t, set()):
                    out.append({"signature": "c14:policy-levels", "what":
                                f"searcher_data={policy}: trial {t} has observations at levels {sorted(have.get(t, set()))}, the policy "
                                f"selects {sorted(expected.get(t, set()))} of the levels it reported", "detail": ev})
                    break
        # (a) of Props/C14Comp.lean read on the real state: a pending level is above the last level the trial
        # reported and not above the milestone it is running to (`_running[t]["milestone"]` for pause/resume
        # types, the next rung level of its bracket above the last report, or max_t, for stopping types)
        miles = {}
        if pause_resume:
            for sysr in impl.get("running", []):
                for tid_, ms_, _rf in sysr:
                    miles[tid_] = ms_
        else:
            for tid_, dec_, br_ in impl.get("active", []):
                if dec_ == "CONTINUE":
                    above = [lv for lv in all_levels[br_:] if lv > lastrep.get(tid_, 0)]
                    miles[tid_] = min(above) if above else max_t
        for t, r in impl["pending"]:
            if r <= lastrep.get(t, 0):
                out.append({"signature": "c14:pending-not-above-last-report", "what":
                            f"pending (trial {t}, level {r}) although trial {t} already reported level {lastrep.get(t, 0)}", "detail": ev})
            if t in miles and r > miles[t]:
                out.append({"signature": "c14:pending-above-milestone", "what":
                            f"pending (trial {t}, level {r}) above the milestone {miles[t]} trial {t} is running to", "detail": ev})
            if t in miles and policy == "rungs" and r != miles[t]:
                out.append({"signature": "c14:pending-not-the-milestone", "what":
                            f"searcher_data=rungs: pending (trial {t}, level {r}) is not the milestone {miles[t]}", "detail": ev})
        for t, r in impl["pending"]:
            if t not in running:
                out.append({"signature": "c14:pending-of-trial-not-running", "what":
                            f"pending evaluation (trial {t}, level {r}) although trial {t} is not running (after {k} of trial {ev.get('trial')})", "detail": ev})
            if (t, r) in obs:
                out.append({"signature": "c14:pending-at-observed-level", "what": f"pending (trial {t}, level {r}) already observed", "detail": ev})
        if len(impl["pending"]) != len({tuple(p) for p in impl["pending"]}):
            out.append({"signature": "c14:pending-duplicate", "what": "duplicate pending entry", "detail": ev})
    return out


def run_impl(spec):
    t = hb.run_scenario(spec)
    sched = t.pop("sched")
    ev = t["events"]
    mon = data_monitor(spec, t["lines"], ev) if len(ev) == len(t["lines"]) - 1 else [
        {"signature": "c14:harness-misaligned", "what": f"{len(ev)} events vs {len(t['lines'])-1} lines", "detail": None}]
    drops = sum(1 for (inp, impl) in t["lines"] if impl and impl.get("observed"))
    stops = sum(1 for e in ev if e["ev"] in ("remove", "error", "complete"))
    hist = {"events": len(ev), "ends_of_run": stops, "type:" + spec["ctor"]["type"]: 1,
            "searcher:" + spec["ctor"]["searcher"]: 1, "policy:" + spec["ctor"].get("searcher_data", "rungs"): 1}
    return {"lines": t["lines"], "monitor": mon, "meta": {"hist": hist, "nontrivial": drops > 0 and stops > 0}}


def nontrivial(trace):
    return bool(trace.get("meta", {}).get("nontrivial"))


# ---------------------------------------------------------------------------------
# Lean counterexamples of Props/C14Comp.lean replayed on the real scheduler + real searcher.
# They are OUTSIDE the operation contract (OpOK): they show that each clause of the contract is
# necessary, and that the model agrees with the code on what happens there.

_CTOR_BASE = {"mode": "min", "max_t": 9, "rung_levels": [1, 3], "brackets": 1, "searcher": "bayesopt",
              "max_resource_attr": False, "random_seed": 0}

WITNESSES = [
    {"lean": "SyneTune.C14Comp.pending_only_running_counterexample",
     "ctor": dict(_CTOR_BASE, type="promotion", searcher_data="rungs"),
     "ops": [["suggest"], ["remove", 0]],
     "expect_pending": [[0, 1]], "expect_decision": [0, "PAUSE"]},
    {"lean": "SyneTune.C14Comp.pending_only_running_counterexample_promoted",
     "ctor": dict(_CTOR_BASE, type="promotion", searcher_data="all"),
     "ops": [["suggest"], ["result", 0, 1, 1.0], ["remove", 0], ["suggest"], ["result", 1, 1, 2.0], ["remove", 1],
             ["suggest"], ["result", 0, 2, 1.0], ["remove", 0]],
     "expect_pending": [[0, 3]], "expect_decision": [0, "PAUSE"]},
    {"lean": "SyneTune.C14Comp.skipped_level_counterexample",
     "ctor": dict(_CTOR_BASE, type="stopping", searcher_data="all"),
     "ops": [["suggest"], ["result", 0, 1, 1.0], ["result", 0, 2, 1.0], ["result", 0, 3, 1.0],
             ["suggest"], ["result", 1, 1, 0.5], ["result", 1, 3, 2.0]],
     "expect_pending_contains": [1, 2], "expect_decision": [1, "STOP"]},
]


def replay_witness(w):
    """drive the real HyperbandScheduler + GPMultiFidelitySearcher through the operations of a Lean witness"""
    from syne_tune.backend.trial_status import Trial
    sch, _rs = hb.make_scheduler(dict(w["ctor"]))
    trials = {}
    next_id = 0
    for op in w["ops"]:
        if op[0] == "suggest":
            sg = sch.suggest(next_id)
            if sg.spawn_new_trial_id:
                trials[next_id] = Trial(trial_id=next_id, config=sg.config, creation_time=hb.EPOCH0)
                sch.on_trial_add(trials[next_id])
                next_id += 1
        elif op[0] == "result":
            sch.on_trial_result(trials[op[1]], {hb.METRIC: op[3], hb.RES: op[2]})
        elif op[0] == "remove":
            sch.on_trial_remove(trials[op[1]])
    snap = hb.snapshot(sch)
    dec = {a[0]: a[1] for a in snap["active"]}
    t_, d_ = w["expect_decision"]
    ok = dec.get(t_) == d_
    if "expect_pending" in w:
        ok = ok and snap["pending"] == w["expect_pending"]
    if "expect_pending_contains" in w:
        ok = ok and list(w["expect_pending_contains"]) in snap["pending"]
    return {"lean": w["lean"], "real_code_pending": snap["pending"], "real_code_decision": [t_, dec.get(t_)],
            "reproduced_on_real_code": bool(ok)}


def extra(ctx):
    """the `_counterexample` theorems of Props/C14Comp.lean (histories outside the operation contract) on the real code"""
    res = [replay_witness(w) for w in WITNESSES]
    ctx.notes["lean_counterexamples_replayed"] = res
    bad = [r["lean"] for r in res if not r["reproduced_on_real_code"]]
    if bad:
        raise RuntimeError(f"Lean counterexample not reproduced by the real code (model and code disagree outside the contract): {bad}")
