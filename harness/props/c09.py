"""C09 — Gradients for model fitting and acquisition search are the true derivatives (PARTIAL proof)."""
from streams import gp
from streams.gp import compare  # noqa: F401

PID = "C09"
LEVEL = "proof"
LEAN_TARGETS = ["SyneTune.Props.C09"]
DRIVER = "SyneTune/Drivers/Gp.lean"
THEOREMS = [
    "SyneTune.C09.chol_vjp",
    "SyneTune.C09.chol_vjp_symmetric",
    "SyneTune.C09.chol_tangent_complete",
    "SyneTune.C09.jitter_vjp",
    "SyneTune.C09.phi_deriv",
    "SyneTune.C09.ei_head",
    "SyneTune.C09.std_clamp_inactive",
    "SyneTune.C09.ei_dmean",
    "SyneTune.C09.ei_dstd",
    "SyneTune.C09.ei_nonneg",
    "SyneTune.C09.lcb_head",
    "SyneTune.C09.value_consistency",
]
TRUSTED = [
    "PARTIAL proof: proved are the adjoint identity of cholesky_factorization_backward (incl. copyltu / the factor 1/2 / "
    "symmetry), of AddJitterOp_vjp, phi' = -u phi, the total derivative of the EI and LCB heads along any differentiable "
    "curve of predictive moments (hence dh_dmean, dh_dstd incl. the 1/nf averaging), EI >= 0, value consistency; NOT "
    "proved: autograd's chain rule, derivatives of kernels / priors / encodings / target transforms, differentiability of "
    "the Cholesky map, Phi' = phi and Phi(-inf) = 0 for the code's 0.5*erfc(-u/sqrt 2) (hypotheses of the EI theorems), "
    "EIpu / CEI heads (finite-difference monitors only)",
    "model lean/SyneTune/Model/GPExec.lean tied to /repo by the gp stream: real cholesky_factorization_backward, "
    "AddJitterOp_vjp, EIAcquisitionFunction / LCBAcquisitionFunction (compute_acq, compute_acq_with_gradient, "
    "_compute_head, _compute_head_and_gradient, get_quantiles) on dyadic inputs vs the Rat twin",
    "Python harness harness/streams/gp.py (stub predictor, Richardson central differences)",
]
ASSUMPTIONS = [
    "finite-difference rule: |g - R| <= 50 |R - D(h/2)| + 1e-6 max(|g|,|R|) + 1e-8 max(1,|f|), R the Richardson "
    "extrapolation of central differences with steps h, h/2 (h = 1e-3 for parameters / moments, 1e-4 for inputs)",
    "EI gradient checks are made where |u| <= 3.5 (elsewhere EI underflows and differences carry no information)",
    "predictive std >= 1e-10 (get_quantiles clamps below; GP predictors have std >= 1e-6 by MIN_POSTERIOR_VARIANCE)",
]
RULE = ("cases: (a) exact twin: dyadic lower-triangular L (n<=6 quick, <=10 thorough) and full Lbar through "
        "cholesky_factorization_backward plus the adjoint identity read on the implementation's output; AddJitterOp_vjp; EI and "
        "LCB heads through the real acquisition classes on a stub predictor with 1-8 fantasy columns, 1-3 MCMC samples, std "
        "below the clamp. (b) end to end: create_lbfgs_arguments objective (neg. log marginal likelihood + hyperpriors) for "
        "Matern-5/2 +-ARD, warping, product, exponential-decay kernels vs Richardson differences in every internal parameter; "
        "compute_acq_with_gradient of EI / LCB on a real GaussProcPredictor with fantasies vs differences of compute_acq, "
        "EI <= 0, closed form vs scipy.stats.norm, also within 1e-4..1e-3 of an observed point of an almost noise-free objective; head gradients of EI, LCB, EIpu, CEI (feasible / infeasible) vs differences "
        "of the head value. non-trivial iff at least one gradient entry was compared")

_DEV = {}


def gen_cases(rng, tier):
    sizes = (80, 90, 36, 50) if tier == "quick" else (1500, 1500, 400, 700)
    for _ in range(sizes[0]):
        yield gp.gen_exact09(rng, tier)
    for _ in range(sizes[1]):
        yield gp.gen_heads(rng, tier)
    for _ in range(sizes[2]):
        yield gp.gen_e2e09_fit(rng, tier)
    for _ in range(sizes[3]):
        yield gp.gen_e2e09_acq(rng, tier)
    # the multi-fidelity surrogate with independent GPs per rung level (appended: the cases above stay the same for a seed)
    for _ in range(12 if tier == "quick" else 150):
        yield gp.gen_e2e09_indep(rng, tier)
    # acquisition gradients next to an observed configuration of an (almost) noise-free objective: tiny posterior standard deviation
    for _ in range(10 if tier == "quick" else 120):
        spec = gp.gen_e2e09_acq(rng, tier)
        spec.update({"acq": rng.choice(["lcb", "lcb", "ei"]), "near_data": True, "pending": 0, "resource_kernel": None, "override": False})
        yield spec


def corpus():
    out = [
        {"kind": "exact09", "seed": 1, "n": 1, "nf": 1, "S": 1, "flat": True, "tiny_std": False},
        {"kind": "exact09", "seed": 2, "n": 4, "nf": 5, "S": 3, "flat": False, "tiny_std": True},
        {"kind": "exact09", "seed": 3, "n": 6, "nf": 2, "S": 2, "flat": False, "tiny_std": False},
    ]
    for i, h in enumerate(["ei", "lcb", "eipu", "cei", "cei_infeasible"]):
        out.append({"kind": "heads", "seed": 10 + i, "head": h, "nf": [1, 3, 2, 4, 3][i]})
    for i, model in enumerate(gp.E2E_KINDS[:5]):
        out.append({"kind": "e2e09_fit", "seed": 20 + i, "model": model, "d": 2, "n": 4, "zero_mean": i % 2 == 1})
    out.append({"kind": "e2e09_acq", "seed": 30, "d": 2, "n": 5, "pending": 2, "nf": 3, "ard": True, "acq": "ei", "normalize": True})
    out.append({"kind": "e2e09_acq", "seed": 31, "d": 1, "n": 4, "pending": 1, "nf": 2, "ard": False, "acq": "lcb", "normalize": False})
    return out


RUNNERS = {"exact09": gp.run_exact09, "heads": gp.run_heads, "e2e09_fit": gp.run_e2e09_fit, "e2e09_acq": gp.run_e2e09_acq,
           "e2e09_indep": gp.run_e2e09_indep}


def run_impl(spec):
    return RUNNERS[spec["kind"]](spec)


def nontrivial(trace):
    for k, v in trace.get("meta", {}).get("dev", {}).items():
        _DEV[k] = max(_DEV.get(k, 0.0), float(v))
    return bool(trace.get("meta", {}).get("nontrivial"))


def extra(ctx):
    ctx.notes["exact_twin_max_relative_deviation"] = gp.STATS.get("max_rel_dev")
    ctx.notes["exact_twin_relative_deviation_per_output"] = {k[4:]: v for k, v in sorted(gp.STATS.items()) if k.startswith("dev:")}
    ctx.notes["finite_difference_max_deviation_over_tolerance"] = dict(sorted(_DEV.items()))
