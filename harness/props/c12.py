"""C12 — tuning terminates on the stopping criterion and leaves nothing running."""
import json
import os

from streams import loop
from streams.loop import compare  # noqa: F401

PID = "C12"
LEVEL = "proof"
LEAN_TARGETS = ["SyneTune.Props.C12", "SyneTune.Props.C12b"]
DRIVER = "SyneTune/Drivers/Loop.lean"
THEOREMS = [
    "SyneTune.C12.exit_criterion",
    "SyneTune.C12.exit_criterion_clock",
    "SyneTune.C12.exit_test",
    "SyneTune.C12.exit_break",
    "SyneTune.C12.exit_only",
    "SyneTune.C12.no_start_after",
    "SyneTune.C12.no_start_after_wait",
    "SyneTune.C12.overshoot",
    "SyneTune.C12.overshoot_before",
    "SyneTune.C12.nothing_running",
    "SyneTune.C12.exception_enters_finally",
    "SyneTune.C12.results_stored",
    "SyneTune.C12.counters",
    "SyneTune.C12b.completed_before",
    "SyneTune.C12b.completed_first",
    "SyneTune.C12b.completed_overshoot_partial",
    "SyneTune.C12b.completed_overshoot_wait",
    "SyneTune.C12b.completed_plus_running",
    "SyneTune.C12b.completed_overshoot_counterexample",
    "SyneTune.C12b.finished_before",
    "SyneTune.C12b.finished_first",
    "SyneTune.C12b.finished_overshoot_partial",
    "SyneTune.C12b.finished_overshoot_wait",
    "SyneTune.C12b.finished_overshoot_counterexample",
    "SyneTune.C12b.finished_mark",
    "SyneTune.C12b.finished_marked_counterexample",
    "SyneTune.C12b.finished_end_partial",
    "SyneTune.C12b.finished_end_swd",
    "SyneTune.C12b.finished_end_counterexample",
    "SyneTune.C12b.evals_before",
    "SyneTune.C12b.evals_first",
    "SyneTune.C12b.evals_overshoot_partial",
    "SyneTune.C12b.evals_workers_counterexample",
    "SyneTune.C12b.evals_wait_counterexample",
]
TRUSTED = [
    "hand-written model lean/SyneTune/Model/{Tuner,TuningStatus,StoppingCriterion}.lean tied to /repo by the loop correspondence stream",
    "Python harness harness/streams/loop.py (recorder callback, per-instance wrappers, scripted backend, clock stub)",
]
ASSUMPTIONS = [
    "the steps of the finally block before stop_all (callbacks' on_tuning_end) return; save_tuner=False",
    "the simulator's documented blind spot (trials that have not reported yet are invisible to stop_all) is excluded",
    "metric values on a dyadic grid so that the floating-point cost sum is exact",
]
RULE = ("cases: the real Tuner.run() with random StoppingCriterion combinations (all fields), max_failures, "
        "wait_trial_completion_when_stopping / asynchronous_scheduling / start_jobs_without_delay on and off, failures, "
        "external stops and exceptions injected at random call positions; simulator runs with long start delays, resuming schedulers "
        "and small evaluation budgets (the criterion holds while a resumed trial waits for its worker); real LocalBackend runs with "
        "workers that handle SIGTERM (monitor only: no worker alive after stop / pause / stop_all); non-trivial iff the criterion (or the failure "
        "limit or exhaustion) ended the run or an injected exception was hit")


def gen_cases(rng, tier):
    n = 120 if tier == "quick" else 2500
    for _ in range(16 if tier == "quick" else 200):
        yield loop.gen_sim_combined(rng, tier)
    for _ in range(n):
        spec = loop.gen_spec(rng, tier)
        if rng.random() < 0.35 and spec.get("inject") is None:
            spec["inject"] = rng.randrange(1, 200)
        yield spec
    # simulator with a start delay and a scheduler that resumes paused trials: the criterion tends to hold while a resumed
    # trial has not been picked up by its worker yet (stop_all has to end that trial, too)
    k = 0
    while k < (16 if tier == "quick" else 200):
        spec = loop.gen_spec(rng, tier)
        if spec["backend"] != "sim" or spec["scheduler"]["kind"] not in ("hb", "sync", "dehb", "pbt"):
            continue
        if spec["scheduler"]["kind"] == "hb":
            spec["scheduler"]["type"] = "promotion"
        spec["sim"]["d_start"] = rng.choice([2, 4, 8])
        spec["sim"]["sleep"] = rng.choice([1, 2])
        spec["sim"]["p_fail0"] = spec["sim"]["p_failk"] = 0.0
        spec["criterion"] = {"max_num_evaluations": rng.randint(1, 10)}
        spec["inject"] = None
        k += 1
        yield spec
    # the real LocalBackend with real worker processes that handle SIGTERM (monitor only): once the backend has stopped or paused
    # a trial, or stopped everything at the end, no worker process is left alive
    for _ in range(4 if tier == "quick" else 40):
        yield {"local_poll": True, "ctor": {"delete_checkpoints": rng.random() < 0.3, "delayed_stop": False, "local": True},
               "seed": rng.randrange(10 ** 9), "steps": rng.choice([30, 50]), "n_workers": rng.randint(1, 4),
               "p": {"p_continue": 0.6, "p_pause": 0.28, "p_window": 0.3, "direct_cmd": 0.15, "bad": 0.0, "stop_all": 1.0, "p_mid": 0.0}}


def corpus():
    p = os.path.join(os.path.dirname(__file__), "..", "corpus", "c12.json")
    fixed = json.load(open(p)) if os.path.exists(p) else []
    # the runs of Lemmas/TunerWitnessData.lean and Lemmas/TunerC12bWitness.lean, replayed on the real Tuner
    return fixed + loop.witness_specs(DRIVER)


def run_impl(spec):
    if spec.get("local_poll"):
        from streams import poll
        t = poll.run_scenario(spec)
        mon = []
        if t.get("survivors"):
            mon.append({"signature": "c12:job-alive-after-stop", "what": f"real LocalBackend: the worker processes of trials {t['survivors']} "
                        "were still alive after the backend had stopped / paused them", "detail": None})
        return {"lines": [], "monitor": mon, "meta": {"hist": {"local-poll:" + k: v for k, v in t["hist"].items() if k.startswith("op:")},
                                                        "kinds": ["be.stop", "be.pause", "cb.result", "be.fetch"]}}
    t = loop.run_loop(spec)
    try:
        lines = loop.to_lines(t)
        mon = loop.monitor_c12(t) + loop.monitor_witness(t)
        hist = loop.histogram(t)
        hist.update(loop.witness_hist(t))
        crit = [v for _, v in t["recorder"].crit_trace]
        ended = bool(crit and crit[-1]) or hist.get("injected-exception-hit") or any(
            e["ans"] == {"kind": "none"} for e in t["dlg"].entries)
        return {"lines": lines, "monitor": mon, "meta": {"hist": hist, "ended": bool(ended)}}
    finally:
        loop.cleanup(t)


def nontrivial(trace):
    return bool(trace.get("meta", {}).get("ended"))


def extra(ctx):
    """the witnesses of the `_counterexample` theorems are corpus cases (handed out by the model driver, replayed call by
    call on the real Tuner); record whether this run of the check replayed each of them, with the model's final counters
    and the monitor signature that goes with it"""
    ctx.notes["counterexamples_replayed_on_real_code"] = loop.witness_report(ctx, THEOREMS)
