"""C18 — metrics reported by a training script arrive unchanged at the tuner."""
import contextlib
import io
import json
import math
import sys

import numpy as np

from streams import report as rs
from streams.report import compare  # noqa: F401

PID = "C18"
LEVEL = "proof"
LEAN_TARGETS = ["SyneTune.Props.C18"]
DRIVER = "SyneTune/Drivers/Report.lean"
THEOREMS = [
    "SyneTune.C18.tag_ok",
    "SyneTune.C18.diag_ok",
    "SyneTune.C18.framing",
    "SyneTune.C18.framing_readlines",
    "SyneTune.C18.framing_text",
    "SyneTune.C18.framing_tag_free",
    "SyneTune.C18.join_readlines_invisible",
    "SyneTune.C18.findall_lines",
    "SyneTune.C18.framing_needs_line_end_counterexample",
    "SyneTune.C18.forged_marker_is_a_report",
    "SyneTune.C18.reject_reserved",
    "SyneTune.C18.reject_none",
    "SyneTune.C18.reject_unserialisable",
    "SyneTune.C18.size",
    "SyneTune.C18.accepted",
    "SyneTune.C18.numpy_scalar_plain",
    "SyneTune.C18.norm_none_iff_bad",
    "SyneTune.C18.counter_increasing",
    "SyneTune.C18.counter_contiguous",
    "SyneTune.C18.counter_gap_example",
    "SyneTune.C18.timestamps_nondecreasing",
    "SyneTune.C18.times_nondecreasing",
    "SyneTune.C18.end_to_end",
]
TRUSTED = [
    "hand-written model lean/SyneTune/Model/ReportChannel.lean (Reporter.__call__, _serialize_report_dict, np_encoder, "
    "LocalBackend.stdout, retrieve's regular expression) tied to /repo by the report correspondence stream",
    "CPython json: dumps yields ASCII text without line terminators that starts with '{' and ends with '}' (checked by the "
    "model driver on every payload of every run); loads(dumps(d)) = d for normalised d (checked against the model's "
    "normalisation on every accepted report)",
    "CPython re: the model's scanner is compared with the groups re.findall really returned (recorded at json.loads)",
    "Python harness harness/streams/report.py (clock stubs, recording wrappers of dump_json_with_numpy / json.loads inside "
    "syne_tune.report, classification of Python objects by json's type dispatch, numpy's .item())",
    "sys.getsizeof(ascii str) = sys.getsizeof('') + len (CPython); the measured overhead is a constructor input",
]
ASSUMPTIONS = [
    "a report line including its terminating newline reaches the stream in one piece (print is not interleaved with "
    "another writer; stderr goes to a different file); framing_needs_line_end_counterexample shows this is necessary",
    "the captured file is read after the line was written completely (a poll that sees a prefix cut inside a report "
    "line containing '}' makes json.loads raise inside retrieve; observation, outside the property's quantifier)",
    "other output does not contain the marker '[tune-metric]: {' (weaker than: does not contain the tag); chunk = everything "
    "written between two consecutive report lines",
    "the clock (time(), perf_counter()) is an input; time stamps are non-decreasing iff the clock readings are",
    "normalisation of the dictionaries (JSON's own): numpy scalar -> .item(), tuple -> list, non-str keys of nested "
    "dictionaries -> their JSON text; generators avoid nested keys that collide after this conversion, ints beyond "
    "4300 digits, reference cycles, strings in which a lone high surrogate is directly followed by a lone low surrogate "
    "(json.loads(json.dumps(s)) fuses them into one astral character; found by this check's generator), np.longdouble (json.dumps recurses on it until RecursionError: rejected, nothing "
    "written; probed directly in the extra stage), lone surrogates in noise (not UTF-8 encodable, cannot reach a file)",
]
RULE = ("cases: real Reporter() (default / add_time=False / SageMaker instance type set) with stdout captured; 1-12 report "
        "calls with 1-5 keys each, values from a recursive grammar (None nested, bool, ints up to 2^70, floats incl. NaN/inf/-0.0/"
        "subnormal, strings built from braces, brackets, quotes, backslashes, newlines, CR, tabs, NUL, unicode incl. astral and "
        "lone surrogates, the tag / marker itself; lists, tuples, dicts with str/int/float/bool/None keys; numpy scalars of 13 "
        "dtypes), with probability rejected reports (reserved key, None value, ndarray/set/object/complex/bytes/bad numpy scalar/"
        "bad key at random depth, oversized), interleaved with noise chunks (with or without trailing newline, directly in front "
        "of a report, partial markers, '}' / '{' / CR / CRLF, unicode); read back as LocalBackend.stdout does and by two other "
        "line splittings; distinct by sha256 of the spec; non-trivial iff >= 1 delivered report and (noise on the same line in "
        "front of a report, or a string value containing the marker or a brace, or >= 1 rejected report)")

ATOMS = ["{", "}", "[", "]", "\"", "\\", "\n", "\r", "\r\n", "\t", "\x00", " ", ":", ",", "'", "\\n", "\\\"",
         rs.TAG, rs.MARKER, rs.LINE_PREFIX, "[" + rs.TAG, rs.TAG + "]: ", "}\n", "{}", "é", "ß", " ", "\u0085", "\x0b", "\x0c",
         "日本", "\U0001F600", "\ud800", "\udfff", "\x7f", "a", "loss", "0.5", "null", "NaN", "true", "st_"]


_SURROGATE_PAIR = __import__("re").compile("([\ud800-\udbff])(?=[\udc00-\udfff])")


def gen_string(rng, maxlen=8):
    s = "".join(rng.choice(ATOMS) for _ in range(rng.randint(0, maxlen)))
    # a lone high surrogate directly followed by a lone low surrogate is escaped by json.dumps as two \uXXXX
    # escapes which json.loads reads back as ONE astral character (CPython; found by this check): such
    # ill-formed strings are outside the trusted `loads(dumps(x)) = x` and are not generated
    return _SURROGATE_PAIR.sub(lambda m: m.group(1) + " ", s)


def hexfloat(rng):
    k = rng.random()
    if k < 0.08:
        return "nan"
    if k < 0.14:
        return rng.choice(["inf", "-inf"])
    if k < 0.2:
        return rng.choice([(-0.0).hex(), (0.0).hex(), (5e-324).hex(), (1.7976931348623157e308).hex(), (2.0 ** -1074 * 3).hex()])
    if k < 0.5:
        return (rng.randint(-2000, 2000) / 64.0).hex()
    if k < 0.7:
        return float(rng.choice([0.1, 1e-7, 1e22, 123456.789e3, 1 / 3, 2 / 3, 1e16, 1e-5])).hex()
    return (rng.uniform(-1, 1) * 10 ** rng.randint(-12, 12)).hex()


def gen_int(rng):
    k = rng.random()
    if k < 0.6:
        return rng.randint(-100, 100)
    if k < 0.8:
        return rng.choice([2 ** 31, -2 ** 31 - 1, 2 ** 53 + 1, 2 ** 63, -2 ** 63, 2 ** 64 - 1, 2 ** 70 + 7, 10 ** 30])
    return rng.randint(-10 ** 12, 10 ** 12)


INT_RANGE = {"int8": (-128, 127), "int16": (-2 ** 15, 2 ** 15 - 1), "int32": (-2 ** 31, 2 ** 31 - 1),
             "int64": (-2 ** 63, 2 ** 63 - 1), "uint8": (0, 255), "uint16": (0, 2 ** 16 - 1),
             "uint32": (0, 2 ** 32 - 1), "uint64": (0, 2 ** 64 - 1)}
GOOD_NP = ["float16", "float32", "float64", "int8", "int16", "int32", "int64", "uint8", "uint16", "uint32", "uint64",
           "bool_", "str_"]


def gen_np(rng, bad=False):
    if bad:
        dt = rng.choice(sorted(rs.BAD_NP))
        return {"t": "np", "dtype": dt, "v": (1.5).hex()}
    dt = rng.choice(GOOD_NP)
    if dt.startswith("float"):
        return {"t": "np", "dtype": dt, "v": hexfloat(rng)}
    if dt == "bool_":
        return {"t": "np", "dtype": dt, "v": rng.random() < 0.5}
    if dt == "str_":
        return {"t": "np", "dtype": dt, "v": gen_string(rng, 4).replace("\x00", "")}
    lo, hi = INT_RANGE[dt]
    return {"t": "np", "dtype": dt, "v": str(rng.choice([lo, hi, 0, rng.randint(lo, hi)]))}


def gen_key(rng, used):
    """dictionary key spec whose JSON text is not in `used` (no collisions after conversion)"""
    for _ in range(20):
        k = rng.random()
        if k < 0.6:
            s = {"t": "str", "v": gen_string(rng, 3)}
        elif k < 0.75:
            s = {"t": "int", "v": str(gen_int(rng))}
        elif k < 0.85:
            s = {"t": "float", "v": hexfloat(rng)}
        elif k < 0.9:
            s = {"t": "bool", "v": rng.random() < 0.5}
        elif k < 0.95:
            s = {"t": "none"}
        else:
            s = {"t": "npfloatkey", "v": hexfloat(rng)}
        try:
            txt = rs.py_key(rs.build_key(s))
        except TypeError:
            continue
        if txt not in used:
            used.add(txt)
            return s
    s = {"t": "str", "v": "k%d" % len(used)}
    used.add(s["v"])
    return s


def gen_value(rng, depth, top=False):
    k = rng.random()
    if depth <= 0 or k < 0.55:
        j = rng.random()
        if j < 0.05 and not top:
            return {"t": "none"}
        if j < 0.12:
            return {"t": "bool", "v": rng.random() < 0.5}
        if j < 0.3:
            return {"t": "int", "v": str(gen_int(rng))}
        if j < 0.55:
            return {"t": "float", "v": hexfloat(rng)}
        if j < 0.8:
            return {"t": "str", "v": gen_string(rng)}
        return gen_np(rng)
    if k < 0.7:
        return {"t": rng.choice(["list", "list", "tuple"]), "v": [gen_value(rng, depth - 1) for _ in range(rng.randint(0, 4))]}
    used = set()
    return {"t": "dict", "v": [[gen_key(rng, used), gen_value(rng, depth - 1)] for _ in range(rng.randint(0, 4))]}


def poison(rng, spec):
    """replace a random position of the value by something unserialisable"""
    bad = rng.choice([{"t": "ndarray"}, {"t": "ndarray0"}, {"t": "set"}, {"t": "object"}, {"t": "complex"}, {"t": "bytes"},
                      gen_np(rng, bad=True), "key"])
    t = spec["t"]
    if t in ("list", "tuple") and spec["v"] and rng.random() < 0.7:
        i = rng.randrange(len(spec["v"]))
        spec["v"][i] = poison(rng, spec["v"][i])
        return spec
    if t == "dict" and spec["v"] and rng.random() < 0.7:
        i = rng.randrange(len(spec["v"]))
        spec["v"][i][1] = poison(rng, spec["v"][i][1])
        return spec
    if bad == "key":
        return {"t": "dict", "v": [[rng.choice([{"t": "tuplekey"}, {"t": "npintkey", "v": "3"}]), {"t": "int", "v": "1"}]]}
    return bad


def gen_user_key(rng, used):
    for _ in range(20):
        k = rng.choice(["loss", "epoch", "accuracy", "x", "time", "s_t", "st", "St_x", "_st_", "m" + gen_string(rng, 2)])
        if k not in used and not k.startswith("st_"):
            used.add(k)
            return k
    k = "k%d" % len(used)
    used.add(k)
    return k


def gen_noise(rng, same_line):
    """a noise chunk without the marker; `same_line`: no trailing newline (the next report
    line starts in the middle of a line)"""
    for _ in range(50):
        parts = []
        for _ in range(rng.randint(1, 6)):
            k = rng.random()
            if k < 0.35:
                parts.append(rng.choice(["epoch %d" % rng.randint(0, 99), "INFO:root:step", "loss=0.5", "WARNING: x", "done"]))
            elif k < 0.6:
                parts.append(rng.choice(["}", "{", "{}", "}}", "\"}", "[", "]: ", "]: {", "[", "[" + rs.TAG[:5], "[tune-", "[tune-metric",
                                         "[tune-metric]", "[tune-metric]:", "[tune-metric]: ", "tune-metric]: {", "[tune-metric]:{",
                                         "[tune_metric]: {", "[Tune-metric]: {"]))
            elif k < 0.8:
                parts.append(rng.choice(["\n", "\n", "\r", "\r\n", "\n\n", " ", "\t"]))
            else:
                parts.append(rng.choice(["é", "日本", "\U0001F600", " ", "\x0b", "\x0c", "\x1c", "\x85", "\x00", "\x7f"]))
        s = "".join(parts)
        if same_line:
            s = s.rstrip("\n\r") or "x"
        else:
            s += "\n"
        if rs.MARKER not in s:
            return s
    return "x" if same_line else "x\n"


HOSTILE = [rs.MARKER, rs.MARKER, rs.LINE_PREFIX, "{", "}", "}", "{}", "\n", "\n", "\r", "\r\n", " ", "x", "\"", "[", "]: ", "[tune-",
           rs.TAG, "{\"a\": 1}", "{\"a\": {\"b\": 2}}", "}\n", "é", "\x0b", "\x85", " ", "\x00", "[" + rs.TAG + "]:{", "\\"]


def gen_scan(rng):
    """arbitrary text around markers: forged markers, several markers on one line, noise behind a
    report, unterminated lines, empty groups"""
    n = rng.randint(1, 4)
    lines = ["".join(rng.choice(HOSTILE) for _ in range(rng.randint(0, 10))) for _ in range(n)]
    return {"lines": lines, "local": rng.random() < 0.5}


def gen_case(rng, tier, flavour=None):
    flavour = flavour or rng.choice(["mixed"] * 20 + ["valid"] * 8 + ["rejects"] * 4 + ["addtime"] * 4 + ["cost"] * 3 + ["big"] * 2 + ["bigtext"] * 2)
    ctor = {"add_time": True}
    if flavour == "addtime" or (flavour == "mixed" and rng.random() < 0.1):
        ctor["add_time"] = False
    if flavour == "cost" or (flavour == "mixed" and rng.random() < 0.1):
        ctor["instance"] = [rng.choice(["ml.m5.large", "ml.p3.2xlarge", "ml.c5.xlarge", "ml.nonexistent"]), rng.choice([1, 2, 8])]
    ops = []
    n = rng.randint(1, 6 if tier == "quick" else 12)
    big_at = rng.randrange(n) if flavour == "big" else -1  # one report around the size limit (costly on the wire)
    depth = rng.choice([0, 1, 2, 3])
    backwards = rng.random() < 0.1
    chunk_open = False  # the current chunk does not end with a newline
    pending = ""  # chunk so far, to keep marker-freeness across pieces
    for i in range(n):
        # noise in front of the report
        for _ in range(rng.choice([0, 0, 1, 1, 2])):
            same_line = rng.random() < 0.4
            for _ in range(30):
                s = gen_noise(rng, same_line)
                if rs.MARKER not in pending + s:
                    break
            else:
                s = "x\n"
            ops.append({"op": "noise", "text": s})
            pending += s
        kw = []
        used = set()
        kind = "ok"
        r = rng.random()
        if flavour in ("mixed", "rejects") and r < (0.5 if flavour == "rejects" else 0.25):
            kind = rng.choice(["reserved", "none", "unser", "unser", "unser"])
        for _ in range(rng.randint(1, 5)):
            kw.append([gen_user_key(rng, used), gen_value(rng, depth, top=True)])
        if kind == "reserved":
            kw.insert(rng.randrange(len(kw) + 1), [rng.choice(["st_worker_iter", "st_", "st_x", "st_worker_time", "st_decision"]),
                                                   gen_value(rng, 0, top=True)])
        elif kind == "none":
            kw[rng.randrange(len(kw))][1] = {"t": "none"}
        elif kind == "unser":
            j = rng.randrange(len(kw))
            kw[j][1] = poison(rng, kw[j][1])
        if flavour == "bigtext" and i == 0:
            # a report of 10-45 kB carrying non-ASCII text: well below the size limit on the wire
            kw = [["blob", {"t": "str", "v": "a" * rng.randint(10000, 45000) + rng.choice(["\U0001F600", "日本", "é", "\u2028", "ß\u0085"])}]]
            kind = "ok"
        if i == big_at:
            # around the size limit: payload length near 50000 - getsizeof("")
            target = 50000 - sys.getsizeof("") + rng.choice([-400, -120, -3, -2, -1, 0, 1, 2, 50, 3000])
            kw = [["blob", {"t": "str", "v": "a" * max(0, target - 160)}]]
            kind = "big"
        ops.append({"op": "report", "kw": kw, "dnow": rng.choice([1, 1, 0, 5, 1000]) * (-1 if backwards and rng.random() < 0.3 else 1),
                    "dperf": rng.choice([1, 0, 3, 700])})
        # `pending` is never reset: a call rejected by an assertion writes nothing, so the noise before
        # and after it is one chunk; everything else a call writes ends with '\n' (conservative)
    for _ in range(rng.choice([0, 1, 1, 2])):
        s = gen_noise(rng, rng.random() < 0.5)
        if rs.MARKER not in pending + s:
            ops.append({"op": "noise", "text": s})
            pending += s
    return {"ctor": ctor, "ops": ops, "retrieve": ["local"] if flavour in ("big", "bigtext") else ["local", "keepends", "text"], "clean": True,
            "t0": float(2 ** 30 + rng.randint(0, 10 ** 6)).hex(), "scans": [gen_scan(rng) for _ in range(rng.choice([0, 1, 2]))]}


def gen_local_cases(rng, tier):
    for _ in range(10 if tier == "quick" else 150):
        yield {"local_backend": True, "seed": rng.randrange(10 ** 9), "n_reports": rng.randint(2, 8),
               "p_poll": rng.choice([0.3, 0.7, 1.0])}


def gen_cases(rng, tier):
    yield from gen_local_cases(rng, tier)
    yield from gen_cases_stream(rng, tier)
    # training scripts with a very long log between their reports (appended: the cases above stay the same for a seed)
    for _ in range(3 if tier == "quick" else 30):
        yield {"local_backend": True, "seed": rng.randrange(10 ** 9), "n_reports": rng.randint(3, 6), "p_poll": rng.choice([0.3, 1.0]),
               "long_log": rng.choice([21000, 45000])}


def gen_cases_stream(rng, tier):
    n = 300 if tier == "quick" else 4000
    for i in range(n):
        yield gen_case(rng, tier)
    # small-scope sweep: every noise shape x position around two fixed reports
    shapes = ["", "x", "x\n", "}", "}\n", "{", "[tune-", "[tune-metric]: ", "\r", "\r\n", "\n\n", "}\r", "é}", "]: {"]
    if tier == "thorough":
        for a in shapes:
            for b in shapes:
                for c in shapes[:6]:
                    ops = []
                    if a:
                        ops.append({"op": "noise", "text": a})
                    ops.append({"op": "report", "kw": [["a", {"t": "dict", "v": [[{"t": "str", "v": "}" + rs.MARKER}, {"t": "str", "v": "{\n}"}]]}]]})
                    if b:
                        ops.append({"op": "noise", "text": b})
                    ops.append({"op": "report", "kw": [["b", {"t": "np", "dtype": "float32", "v": (0.1).hex()}]]})
                    if c:
                        ops.append({"op": "noise", "text": c})
                    yield {"ctor": {"add_time": True}, "ops": ops, "retrieve": ["local", "keepends", "text"], "clean": True}


def corpus():
    V = lambda t, v=None, **kw: dict({"t": t}, **({"v": v} if v is not None else {}), **kw)  # noqa
    base = {"ctor": {"add_time": True}, "retrieve": ["local", "keepends", "text"], "clean": True}
    cases = []
    # the three shapes of F12 (fixed in /repo): ndarray / set / object must raise TypeError, nothing tagged written
    cases.append(dict(base, ops=[{"op": "report", "kw": [["loss", V("ndarray")]]}, {"op": "report", "kw": [["loss", V("set")]]},
                                 {"op": "report", "kw": [["loss", V("object")]]}, {"op": "report", "kw": [["loss", V("float", (0.5).hex())]]}]))
    # nested unserialisable, numpy scalars, bad keys
    cases.append(dict(base, ops=[{"op": "report", "kw": [["a", V("list", [V("dict", [[V("str", "k"), V("ndarray")]])])]]},
                                 {"op": "report", "kw": [["a", V("dict", [[V("npintkey", "3"), V("int", "1")]])]]},
                                 {"op": "report", "kw": [["a", V("np", (1.5).hex(), dtype="complex64")]]},
                                 {"op": "report", "kw": [["a", V("np", "7", dtype="int64")], ["b", V("np", (0.1).hex(), dtype="float16")]]}]))
    # Reporter(add_time=False) (raised AttributeError before the fix in /repo)
    cases.append(dict(base, ctor={"add_time": False}, ops=[{"op": "report", "kw": [["loss", V("float", (1.0).hex())]]},
                                                           {"op": "noise", "text": "x"},
                                                           {"op": "report", "kw": [["loss", V("float", (2.0).hex())]]}]))
    # noise without newline in front of a report; marker / braces / newline inside strings; CR line ends
    cases.append(dict(base, ops=[{"op": "noise", "text": "epoch 1 }{ "},
                                 {"op": "report", "kw": [["s", V("str", "}" + rs.MARKER + "x\n\"}")], ["n", V("float", "nan")]]},
                                 {"op": "noise", "text": "\rlog\r\n[tune-"},
                                 {"op": "report", "kw": [["d", V("dict", [])]]},
                                 {"op": "noise", "text": "} bye"}]))
    # reserved keys, None
    cases.append(dict(base, ops=[{"op": "report", "kw": [["st_worker_iter", V("int", "5")]]},
                                 {"op": "report", "kw": [["a", V("none")], ["st_x", V("int", "1")]]},
                                 {"op": "report", "kw": [["a", V("list", [V("none")])]]}]))
    # size limit, both sides
    for delta in (-1, 0):
        n = 50000 - sys.getsizeof("") + delta
        cases.append(dict(base, ops=[{"op": "report", "kw": [["blob", V("str", "a" * (n - 120))]]},
                                     {"op": "report", "kw": [["x", V("int", "1")]]}], pad_to=n, retrieve=["local"]))
    # SageMaker cost entry
    cases.append(dict(base, ctor={"add_time": True, "instance": ["ml.m5.large", 2]},
                      ops=[{"op": "report", "kw": [["loss", V("float", (0.25).hex())]], "dperf": 700}]))
    return cases


# ---------------------------------------------------------------------------------
# monitor: direct reading of the property on the implementation trace


def monitor(spec, t):
    out = []
    calls = t["calls"]
    if not spec.get("clean", True):
        return out

    def F(sig, what, detail=None):
        out.append({"signature": sig, "what": what, "detail": detail})

    expected = []
    skew = False  # a report that had to be rejected was delivered: already reported, counts are off
    clock_ok = True
    last_now = None
    for i, c in enumerate(calls):
        keys = [k for k, _ in c["spec"]]
        reserved = any(k.startswith("st_") for k in keys)
        has_none = any(v["t"] == "none" for _, v in c["spec"])
        unser = any(rs.spec_unserialisable(v) for _, v in c["spec"])
        tagged = rs.LINE_PREFIX in c["written"]
        exc = c["exc"]
        if reserved or has_none:
            if not isinstance(exc, AssertionError):
                F("c18:reserved-or-none-accepted", f"call {i}: keys {keys} (reserved={reserved}, None value={has_none}) "
                  f"not rejected with AssertionError but {type(exc).__name__ if exc else 'accepted'}")
            if c["written"] != "":
                F("c18:rejected-report-wrote", f"call {i}: rejected by assertion but wrote {c['written'][:80]!r}")
            continue
        if isinstance(exc, AttributeError) and not spec["ctor"].get("add_time", True):
            F("c18:add-time-false-raises", f"call {i}: Reporter(add_time=False) raised {exc!r}")
            continue
        if unser:
            if exc is None and tagged and "null" in c["written"]:
                F("c18:unserialisable-reported-as-null", f"call {i}: unserialisable value written as {c['written'][:120]!r}")
                skew = True
            elif not isinstance(exc, TypeError):
                F("c18:unserialisable-not-rejected", f"call {i}: unserialisable value: expected TypeError, got "
                  f"{type(exc).__name__ if exc else 'accepted'}; wrote {c['written'][:120]!r}")
            if exc is not None and tagged:
                F("c18:rejected-report-wrote", f"call {i}: rejected ({type(exc).__name__}) but wrote a tagged line")
            continue
        # serialisable, admissible keys
        too_large = c["size"] is not None and c["size"] >= rs.SIZE_LIMIT
        if too_large:
            if not isinstance(exc, AssertionError):
                F("c18:oversized-not-rejected", f"call {i}: sys.getsizeof(text)={c['size']} not rejected")
            if tagged:
                F("c18:rejected-report-wrote", f"call {i}: oversized report wrote a tagged line")
            continue
        if exc is not None:
            F("c18:valid-report-raised", f"call {i}: serialisable report with admissible keys raised {exc!r}",
              {"kw": c["spec"]})
            continue
        expected.append((i, rs.py_normalise(c["kw"]), c["now"]))
        if last_now is not None and c["now"] < last_now:
            clock_ok = False
        last_now = c["now"]
    for how, r in t["retrieved"].items():
        if r["err"] is not None:
            F("c18:retrieve-raised", f"retrieve ({how}) raised {r['err']} on a stream without forged marker")
            continue
        got = r["dicts"]
        if skew:
            continue
        if len(got) != len(expected):
            F("c18:report-count", f"retrieve ({how}) returned {len(got)} dictionaries for {len(expected)} accepted reports")
            continue
        iters, stamps = [], []
        for (i, exp, now), d in zip(expected, got):
            user = {k: v for k, v in d.items() if not k.startswith("st_")}
            if not rs.same(user, exp):
                F("c18:dict-changed", f"retrieve ({how}): report of call {i} arrived as {str(user)[:200]} instead of {str(exp)[:200]}")
            it = d.get("st_worker_iter")
            if type(it) is not int:
                F("c18:counter-missing", f"retrieve ({how}): st_worker_iter of call {i} is {it!r}")
            else:
                iters.append(it)
            ts = d.get("st_worker_timestamp")
            if type(ts) is not float or ts != now:
                F("c18:timestamp-wrong", f"retrieve ({how}): st_worker_timestamp {ts!r}, clock said {now!r}")
            else:
                stamps.append(ts)
        if any(b <= a for a, b in zip(iters, iters[1:])):
            F("c18:counter-not-increasing", f"retrieve ({how}): st_worker_iter sequence {iters}")
        if clock_ok and any(b < a for a, b in zip(stamps, stamps[1:])):
            F("c18:timestamp-decreasing", f"retrieve ({how}): st_worker_timestamp sequence {stamps}")
    return out


def run_local_backend(spec):
    """the real LocalBackend reading a trial's captured stdout: the file grows between polls (chunks end at
    report-line ends or inside noise, never inside a report line); every poll must return a prefix of the
    reports written so far, the last poll all of them"""
    import contextlib, datetime, io, os, random, shutil, tempfile
    from syne_tune.backend.local_backend import LocalBackend
    from syne_tune.backend.trial_status import Trial, Status
    from syne_tune.report import Reporter
    rng = random.Random(spec["seed"])
    root = tempfile.mkdtemp(prefix="c18local")
    mon = []
    try:
        script = os.path.join(root, "train.py")
        open(script, "w").write("pass\n")
        be = LocalBackend(entry_point=script)
        be.set_path(results_root=root, tuner_name="t")
        os.makedirs(be.trial_path(0), exist_ok=True)
        be._trial_dict[0] = Trial(trial_id=0, config={}, creation_time=datetime.datetime(2020, 1, 1))
        # the training process: runs until it has written its last piece, then exits. `between` holds a step of the process
        # which happens in the middle of a poll, i.e. between the two reads a poll makes (the log and the process
        # status), in whichever order the backend makes them
        proc = {"done": False, "between": None}

        def mid_poll():
            step, proc["between"] = proc["between"], None
            if step is not None:
                step()

        o_stdout = be.stdout

        def read_status(trial_id):
            st = Status.completed if proc["done"] else Status.in_progress
            mid_poll()
            return st

        def read_stdout(trial_id):
            out = o_stdout(trial_id)
            mid_poll()
            return out

        be._read_status = read_status
        be.stdout = read_stdout
        be._is_process_done = lambda trial_id: proc["done"]
        be.rotate_gpus = False  # (GPU bookkeeping is set up when a process is started, which this case never does)
        rep = Reporter()
        pieces, sent = [], []
        for i in range(spec["n_reports"]):
            if rng.random() < 0.6:
                noise = rng.choice(["progress 10%", "epoch done\n", "x}", "{", "loading...\n", "\r50%", ""])
                if noise:
                    pieces.append(("noise", noise))
            buf = io.StringIO()
            with contextlib.redirect_stdout(buf):
                rep(step=i, loss=rng.randrange(1000) / 8.0)
            pieces.append(("report", buf.getvalue()))
            sent.append(i)
            if spec.get("long_log") and i == 0:
                pieces.append(("noise", "batch done\n" * int(spec["long_log"])))   # verbose output between two reports
        path = os.path.join(be.trial_path(0), "std.out")
        open(path, "w").close()
        got_last = []
        n_rep = 0
        polls = 0
        for kind, text in pieces:
            with open(path, "a") as f:
                f.write(text)
            if kind == "report":
                n_rep += 1
            if rng.random() < spec["p_poll"] or kind == "noise":
                res = be._all_trial_results([0])[0]
                polls += 1
                got = [m.get("step") for m in res.metrics]
                if got != sent[:n_rep]:
                    mon.append({"signature": "c18:local-backend-poll-loses-report",
                                "what": f"poll after {n_rep} reports (file ends with {text[-12:]!r}) returned steps {got}, expected {sent[:n_rep]}",
                                "detail": {"pieces": pieces[:12]}})
                    break
                got_last = got
        # the process writes one more report and exits: before the next poll, or in the middle of it
        buf = io.StringIO()
        with contextlib.redirect_stdout(buf):
            rep(step=spec["n_reports"], loss=0.5)
        sent.append(spec["n_reports"])

        def finish():
            with open(path, "a") as f:
                f.write(buf.getvalue())
            proc["done"] = True

        if rng.random() < 0.6:
            proc["between"] = finish
        else:
            finish()
        for _ in range(3):
            res = be._all_trial_results([0])[0]
            polls += 1
            got = [m.get("step") for m in res.metrics]
            if res.status != Status.in_progress:
                # the tuning loop does not poll a trial again once it is reported as finished
                if not mon and got != sent:
                    mon.append({"signature": "c18:local-backend-poll-loses-report",
                                "what": f"the poll which reports the trial as {res.status} returned steps {got}, the script reported {sent} "
                                        f"before it exited (its last report and its exit fell between the two reads of that poll)",
                                "detail": {"pieces": pieces[:12]}})
                break
        else:
            if not mon:
                mon.append({"signature": "c18:local-backend-never-finished", "what": "the process has exited, three polls later the trial is "
                            "still reported as in progress", "detail": None})
    finally:
        shutil.rmtree(root, ignore_errors=True)
    return {"lines": [], "monitor": mon, "meta": {"hist": {"local_backend_cases": 1, "local_backend_polls": polls},
                                                    "delivered": len(sent), "rejected": 0, "same_line": 1, "tricky": 0}}


def run_impl(spec):
    spec = dict(spec)
    if spec.get("local_backend"):
        return run_local_backend(spec)
    if "pad_to" in spec:
        # corpus cases at the size limit: make the first report's JSON text exactly `pad_to` characters long
        spec = _pad(spec)
    t = rs.run_scenario(spec)
    mon = monitor(spec, t)
    hist = {}
    calls = t["calls"]
    for c in calls:
        hist["status:" + c["status"]] = hist.get("status:" + c["status"], 0) + 1
        for _, v in c["spec"]:
            rs.spec_kinds(v, hist)
    ops = spec["ops"]
    same_line = 0
    for a, b in zip(ops, ops[1:]):
        if a["op"] == "noise" and b["op"] == "report" and not a["text"].endswith("\n"):
            same_line += 1
    hist["noise_same_line_before_report"] = same_line
    hist["noise_chunks"] = sum(1 for o in ops if o["op"] == "noise")
    tricky = sum(1 for c in calls if c["payload"] and c["exc"] is None and
                 ("}" in c["payload"][1:-1] or rs.TAG in c["payload"]))
    hist["payload_with_inner_brace_or_tag"] = tricky
    delivered = sum(1 for c in calls if c["exc"] is None)
    rejected = len(calls) - delivered
    for inp, out in t["lines"]:
        if inp.get("op") == "scan":
            hist["scan:texts"] = hist.get("scan:texts", 0) + 1
            hist["scan:groups"] = hist.get("scan:groups", 0) + len(out["found"])
            for g in out["found"]:
                try:
                    json.loads(rs.from_cps(g))
                except ValueError:
                    hist["scan:groups-not-json"] = hist.get("scan:groups-not-json", 0) + 1
    hist["add_time:" + str(spec["ctor"].get("add_time", True))] = 1
    if t["dollar_cost"] is not None:
        hist["with_cost"] = 1
    return {"lines": t["lines"], "monitor": mon,
            "meta": {"hist": hist, "delivered": delivered, "rejected": rejected, "same_line": same_line, "tricky": tricky}}


def _pad(spec):
    spec = json.loads(json.dumps(spec))
    target = spec.pop("pad_to")
    for _ in range(6):
        t = rs.run_scenario(dict(spec, retrieve=[]))
        p = t["calls"][0]["payload"]
        if p is None or len(p) == target:
            break
        v = spec["ops"][0]["kw"][0][1]
        v["v"] = "a" * max(0, len(v["v"]) + target - len(p))
    return spec


def nontrivial(trace):
    m = trace.get("meta", {})
    return m.get("delivered", 0) >= 1 and (m.get("same_line", 0) >= 1 or m.get("tricky", 0) >= 1 or m.get("rejected", 0) >= 1)


# ---------------------------------------------------------------------------------
# extra stage: the Lean witnesses replayed on the real code, and probes outside the stream


def extra(ctx):
    notes = {}

    def disagree(why):
        ctx.disagreements.append({"case": "extra", "line": 0, "input": {}, "why": why, "label": "extra", "spec": None})

    # 1. framing_needs_line_end_counterexample: noise behind a report on the same line
    got, groups, err = rs.real_retrieve([rs.LINE_PREFIX + '{"a": 1} done}'])
    notes["line_end_counterexample"] = {"groups": groups, "error": err, "result": got}
    if groups != ['{"a": 1} done}']:
        disagree(f"counterexample framing_needs_line_end: real regex captured {groups}, model says ['{{\"a\": 1}} done}}']")
    # 2. forged_marker_is_a_report
    got, groups, err = rs.real_retrieve(["x" + rs.LINE_PREFIX + "{}\n"])
    notes["forged_marker"] = {"groups": groups, "result": got}
    if got != [{}]:
        disagree(f"forged marker: real retrieve gave {got}, model says one empty dictionary")
    # 3. counter_gap_example: ndarray (TypeError) then a number: st_worker_iter is 1
    t = rs.run_scenario({"ctor": {"add_time": True}, "retrieve": ["local"],
                         "ops": [{"op": "report", "kw": [["a", {"t": "ndarray"}]]}, {"op": "report", "kw": [["a", {"t": "int", "v": "5"}]]}]})
    d = t["retrieved"]["local"]["dicts"]
    notes["counter_gap"] = d
    if not (d and len(d) == 1 and d[0].get("st_worker_iter") == 1):
        disagree(f"counter gap: real code delivered {d}, model says one report with st_worker_iter = 1")
    # 4. the tag is used unescaped inside the regular expression: it must be regex-literal
    import re
    if re.escape(rs.TAG).replace("\\-", "-") != rs.TAG:
        disagree(f"tag {rs.TAG!r} contains regex metacharacters; the model treats it as a literal")
    # 5. probe outside the modelled value space: np.longdouble (.item() is a numpy scalar again)
    import syne_tune.report as R
    buf = io.StringIO()
    exc = None
    with contextlib.redirect_stdout(buf):
        try:
            R.Reporter()(loss=np.longdouble(1.5))
        except BaseException as e:  # noqa
            exc = type(e).__name__
    notes["np_longdouble"] = {"raised": exc, "wrote_tagged_line": rs.LINE_PREFIX in buf.getvalue()}
    if exc is None or rs.LINE_PREFIX in buf.getvalue():
        ctx.findings.append({"signature": "c18:longdouble-not-rejected",
                             "what": f"np.longdouble report: raised {exc}, wrote {buf.getvalue()[:80]!r}", "spec": None})
    # 6. observation: a poll that sees a prefix cut inside a report line
    t = rs.run_scenario({"ctor": {"add_time": True}, "retrieve": [],
                         "ops": [{"op": "report", "kw": [["a", {"t": "dict", "v": [[{"t": "str", "v": "x"}, {"t": "int", "v": "1"}]]}]]}]})
    cut = t["text"].index("}") + 1
    got, groups, err = rs.real_retrieve(rs.read_like_local_backend(t["text"][:cut]))
    notes["partial_line_observation"] = {"prefix": t["text"][:cut], "groups": groups, "error": err}
    ctx.notes["c18_extra"] = notes
