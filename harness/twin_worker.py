"""fresh-process twin: runs one scripted scheduler scenario and prints its trace as JSON.
usage: python twin_worker.py '<spec json>'"""
import contextlib
import io
import json
import os
import sys

sys.path.insert(0, os.path.dirname(os.path.abspath(__file__)))


def run(spec):
    from streams import generic as g
    import numpy as np, random
    if spec.get("global_seed") is not None:
        np.random.seed(spec["global_seed"])
        random.seed(spec["global_seed"])
    with contextlib.redirect_stdout(io.StringIO()):
        s = g.make_scheduler(spec["name"], spec.get("mode", "min"), spec["sched_seed"], spec.get("cs_kind", "mixed"),
                             spec.get("max_t", 27), spec.get("extra"))
        ev = g.drive(s, spec)
    return ev


if __name__ == "__main__":
    spec = json.loads(sys.argv[1])
    if spec.get("whole_case"):
        # a whole in-process twin case of C11 in a process of its own (state shared by all objects of a class - module-level
        # defaults - is pristine when the first twin is created)
        from props import c11
        spec.pop("whole_case")
        spec.pop("fresh_process", None)
        r = c11.run_impl(spec)
        print("TRACE " + json.dumps({"monitor": r["monitor"], "meta": r["meta"]}))
    else:
        print("TRACE " + json.dumps(run(spec)))
