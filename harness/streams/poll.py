"""
Stream `poll`: the real generic poll logic of `syne_tune.backend.trial_backend.TrialBackend`
(`start_trial`, `resume_trial`, `pause_trial`, `stop_trial`, `stop_all`,
`fetch_status_results`) and the real batch filter of `Tuner._process_new_results` /
`_update_running_trials`, run over an in-memory environment.

`MemBackend` implements ONLY the abstract methods of `TrialBackend`, following
`LocalBackend`: the output of a trial grows across runs (`std.out` is opened in append
mode and `retrieve` returns everything), status = stop marker / pause marker / exit code of
the sub-process, `_busy_trial_id_candidates`.  The worker is scripted by the harness
(`w_emit`, `w_exit`, `w_ckpt`).  With `delayed_stop=True`, `_stop_trial` only requests the
stop (status `Stopping`) and the job stays alive until it exits (as remote backends do).

`loop` operations call the real `Tuner._process_new_results` with a scripted scheduler
whose `on_trial_result` lets the worker of that trial write further reports before it
returns its decision: that is the window between the deciding poll and the command.
"""
import logging
import os
import random

logging.disable(logging.CRITICAL)

from syne_tune.backend.trial_backend import TrialBackend
from syne_tune.backend.trial_status import Status
from syne_tune.constants import ST_WORKER_TIMESTAMP
from syne_tune.optimizer.scheduler import TrialScheduler, SchedulerDecision
from syne_tune.tuner import Tuner
from syne_tune.tuning_status import TuningStatus

from framework import default_compare


class MemBackend(TrialBackend):
    def __init__(self, delete_checkpoints=False, delayed_stop=False, coarse_clock=1):
        super().__init__(delete_checkpoints=delete_checkpoints)
        self.coarse_clock = max(1, int(coarse_clock))   # > 1: the worker's clock is coarse, consecutive reports share a time stamp
        self.env = {}
        self.ckpt = set()
        self.delayed_stop = delayed_stop
        self.cand = set()
        self.clock = 0
        self.emitted = []  # harness log: (trial, run, idx)

    # ---- worker side (scripted by the harness)
    def w_emit(self, t, n):
        e = self.env.get(t)
        if e is not None and e["proc"] == "running":
            for _ in range(n):
                e["out"].append({"run": e["run"], "idx": e["nrep"], ST_WORKER_TIMESTAMP: self.clock // self.coarse_clock})
                self.emitted.append((t, e["run"], e["nrep"]))
                e["nrep"] += 1
                self.clock += 1
        else:
            self.clock += n

    def w_exit(self, t, ok):
        e = self.env.get(t)
        if e is not None and e["proc"] == "running":
            e["proc"] = "exited-ok" if ok else "exited-fail"
            if e["stop_req"]:
                e["stop"] = True

    def w_ckpt(self, t):
        if t in self.env:
            self.ckpt.add(t)

    def _status(self, t):
        e = self.env[t]
        if e["stop"]:
            return Status.stopped
        if e["pause"]:
            return Status.paused
        if e["stop_req"]:
            return Status.stopping
        if e["proc"] == "running":
            return Status.in_progress
        if e["proc"] == "exited-ok":
            return Status.completed
        return Status.failed

    def _kill(self, t):
        e = self.env[t]
        if e["proc"] == "running":
            e["proc"] = "killed"

    # ---- abstract methods of TrialBackend
    def _schedule(self, trial_id, config):
        if trial_id not in self.env:
            self.env[trial_id] = {"out": [], "run": 0, "nrep": 0, "proc": "running",
                                  "stop": False, "pause": False, "stop_req": False}
        else:
            e = self.env[trial_id]
            e["proc"] = "running"
            e["run"] += 1
            e["nrep"] = 0
        self.cand.add(trial_id)

    def _all_trial_results(self, trial_ids):
        res = []
        for t in trial_ids:
            e = self.env[t]  # KeyError for an unknown id, as LocalBackend
            metrics = [dict(m) for m in e["out"]]
            res.append(self._trial_dict[t].add_results(metrics=metrics, status=self._status(t),
                                                       training_end_time=None))
        return res

    def _pause_trial(self, trial_id, result):
        self.env[trial_id]["pause"] = True
        self._kill(trial_id)
        self.cand.discard(trial_id)

    def _resume_trial(self, trial_id):
        self.env[trial_id]["pause"] = False

    def _stop_trial(self, trial_id, result):
        e = self.env[trial_id]
        if self.delayed_stop and e["proc"] == "running":
            e["stop_req"] = True
        else:
            e["stop"] = True
            self._kill(trial_id)
            self.cand.discard(trial_id)

    def copy_checkpoint(self, src_trial_id, tgt_trial_id):
        if src_trial_id not in self.ckpt:
            raise FileNotFoundError(f"checkpoint of {src_trial_id}")
        self.ckpt.add(tgt_trial_id)

    def delete_checkpoint(self, trial_id):
        self.ckpt.discard(trial_id)

    def busy_trial_ids(self):
        if self.cand:
            lst = [(t, self._status(t)) for t in sorted(self.cand)
                   if self._status(t) in (Status.in_progress, Status.stopping)]
            self.cand = set(t for t, _ in lst)
            return lst
        return []

    def stdout(self, trial_id):
        return []

    def stderr(self, trial_id):
        return []

    def entrypoint_path(self):
        from pathlib import Path
        return Path("mem_backend.py")

    def set_entrypoint(self, entry_point):
        pass


WORKER_SRC = r"""
import json, os, signal, sys, time
def _on_term(signum, frame):
    # a training script that handles SIGTERM gracefully: it finishes its step, reports once more and goes on to its end
    # (a backend that stops its jobs with SIGKILL never gets here)
    sys.stdout.write('[tune-metric]: {"run": -1, "idx": -1, "st_worker_timestamp": 0}\n')
    sys.stdout.flush()
signal.signal(signal.SIGTERM, _on_term)
args = dict(zip(sys.argv[1::2], sys.argv[2::2]))
ctl = args["--ctl"]
ack = ctl + ".ack"
pos = int(open(ack).read() or 0) if os.path.exists(ack) else 0
while True:
    with open(ctl) as f:
        cmds = f.read().split("\n")[:-1]        # complete lines only
    if len(cmds) <= pos:
        time.sleep(0.001)
        continue
    c = cmds[pos]
    pos += 1
    if c.startswith("emit "):
        sys.stdout.write("[tune-metric]: " + c[5:] + "\n")
        sys.stdout.flush()
    if c.startswith("noise "):
        sys.stdout.write(c[6:])                   # other output of the script, no line end
        sys.stdout.flush()
    if c.startswith("rest "):
        sys.stdout.write(c[5:] + "\n")            # second part of a line that was flushed in two pieces
        sys.stdout.flush()
    with open(ack + ".tmp", "w") as f:
        f.write(str(pos))
    os.replace(ack + ".tmp", ack)
    if c.startswith("exit "):
        sys.exit(int(c[5:]))
"""


def _real_local_class():
    from syne_tune.backend.local_backend import LocalBackend

    class RealLocal(LocalBackend):
        """the REAL `LocalBackend` (files, marker files, real sub-processes) behind the worker interface of `MemBackend`:
        every trial run is a real process of `WORKER_SRC` which writes a report line to its stdout / exits when the
        harness tells it to (command file + acknowledgement file).  `env` / `emitted` are the harness's own record of
        what the workers were told to write; everything the checks read about the backend comes from the real code.
        `between = [trial, n, ok]`: inside the next poll, between the two reads `_all_trial_results` makes for that
        trial (process status, log), the worker writes n reports and exits."""

        def __init__(self, delete_checkpoints, root):
            self.root = root
            script = os.path.join(root, "worker.py")
            with open(script, "w") as f:
                f.write(WORKER_SRC)
            super().__init__(entry_point=script, delete_checkpoints=delete_checkpoints, rotate_gpus=False)
            self.set_path(results_root=os.path.join(root, "exp"), tuner_name="t")
            self._path_locked = True        # (the Tuner's constructor calls set_path with its own experiment folder)
            self.env = {}
            self.delayed_stop = False
            self.clock = 0
            self.emitted = []
            self.sent = {}
            self.between = None
            self.mid_exit = None
            self._reads = {}

        def set_path(self, results_root=None, tuner_name=None):
            if not getattr(self, "_path_locked", False):
                super().set_path(results_root=results_root, tuner_name=tuner_name)

        # ---- worker side
        def _ctl(self, t):
            return os.path.join(self.root, "ctl_%d" % t)

        def _send(self, t, cmd, wait_exit=False):
            import time
            self.sent[t] = self.sent.get(t, 0) + 1
            with open(self._ctl(t), "a") as f:
                f.write(cmd + "\n")
            ack = self._ctl(t) + ".ack"
            deadline = time.time() + 20
            while True:
                try:
                    if int(open(ack).read() or 0) >= self.sent[t]:
                        break
                except (FileNotFoundError, ValueError):
                    pass
                if time.time() > deadline:
                    raise RuntimeError("worker of trial %d does not acknowledge %r" % (t, cmd))
                time.sleep(0.0005)
            if wait_exit:
                self.trial_subprocess[t].wait(timeout=20)

        def _phys_emit(self, t, n):
            import json
            e = self.env[t]
            for _ in range(n):
                rec = {"run": e["run"], "idx": e["nrep"], ST_WORKER_TIMESTAMP: self.clock}
                if self.clock % 3 == 1:
                    self._send(t, "noise " + ["epoch 3: 50%", "loss {", "}\r"][self.clock % 9 // 3])
                if self.clock % 4 == 2 and not self._in_poll:
                    # the report line reaches the log in two flushes, and the log is read in between (a poll of the backend at an
                    # unlucky moment; what it returns is not used): a half-written line is not a report yet, the whole line is one
                    line = "[tune-metric]: " + json.dumps(rec)
                    cut = len(line) // 2
                    self._send(t, "noise " + line[:cut])
                    try:
                        LocalBackend._all_trial_results(self, [t])
                    except Exception:  # noqa
                        pass
                    self._send(t, "rest " + line[cut:])
                else:
                    self._send(t, "emit " + json.dumps(rec))
                e["out"].append(rec)
                self.emitted.append((t, e["run"], e["nrep"]))
                e["nrep"] += 1
                self.clock += 1

        def w_emit(self, t, n):
            e = self.env.get(t)
            if e is not None and e["proc"] == "running":
                self._phys_emit(t, n)
            else:
                self.clock += n

        def w_exit(self, t, ok):
            e = self.env.get(t)
            if e is not None and e["proc"] == "running":
                self._send(t, "exit %d" % (0 if ok else 1), wait_exit=True)
                e["proc"] = "exited-ok" if ok else "exited-fail"

        def w_ckpt(self, t):
            if t in self.env:
                d = self.checkpoint_trial_path(t)
                os.makedirs(d, exist_ok=True)
                with open(os.path.join(d, "ckpt"), "w") as f:
                    f.write("x")

        @property
        def ckpt(self):
            return set(t for t in self.env if os.path.isdir(self.checkpoint_trial_path(t)))

        @property
        def cand(self):
            return set(self._busy_trial_id_candidates)

        def _status(self, t):
            st = LocalBackend._read_status(self, t)
            me = getattr(self, "mid_exit", None)
            if me is not None and me[0] == t and self.env[t]["proc"] == "running" and st in (Status.completed, Status.failed):
                # the worker left in the middle of the poll just made; in the history handed to the model its exit is the
                # NEXT operation, and this status is part of the snapshot taken before it
                return Status.in_progress
            return st

        # ---- the two reads of a poll, with the scripted step of the worker in between
        def _mid(self, t, which):
            r = self._reads.setdefault(t, set())
            r.add(which)
            b = self.between
            if b is not None and b[0] == t and len(r) == 1:
                self.between = None
                self.mid_fired = True
                e = self.env[t]
                if e["proc"] == "running":
                    self._phys_emit(t, b[1])
                    self._send(t, "exit %d" % (0 if b[2] else 1), wait_exit=True)
                    self.mid_exit = (t, b[2])      # the record `proc` changes when the harness replays the exit op

        def _read_status(self, trial_id):
            st = super()._read_status(trial_id)
            if self._in_poll:
                self._mid(trial_id, "status")
            return st

        def stdout(self, trial_id):
            out = super().stdout(trial_id)
            if self._in_poll:
                self._mid(trial_id, "log")
            return out

        _in_poll = False

        def _all_trial_results(self, trial_ids):
            self._in_poll, self._reads = True, {}
            try:
                return super()._all_trial_results(trial_ids)
            finally:
                self._in_poll = False

        # ---- record keeping around the real methods
        def _schedule(self, trial_id, config):
            if trial_id not in self.env:
                open(self._ctl(trial_id), "a").close()
            super()._schedule(trial_id, dict(config, ctl=self._ctl(trial_id)))
            if trial_id not in self.env:
                self.env[trial_id] = {"out": [], "run": 0, "nrep": 0, "proc": "running"}
            else:
                e = self.env[trial_id]
                e["proc"] = "running"
                e["run"] += 1
                e["nrep"] = 0

        def _killed(self, trial_id):
            try:
                self.trial_subprocess[trial_id].wait(timeout=3)
            except Exception:  # noqa
                # the job is still alive after the backend stopped / paused it
                self.survivors = getattr(self, "survivors", []) + [int(trial_id)]
            e = self.env[trial_id]
            if e["proc"] == "running":
                e["proc"] = "killed"

        def _pause_trial(self, trial_id, result):
            super()._pause_trial(trial_id, result)
            self._killed(trial_id)

        def _stop_trial(self, trial_id, result):
            super()._stop_trial(trial_id, result)
            self._killed(trial_id)

        def close(self):
            import shutil
            for pr in self.trial_subprocess.values():
                try:
                    pr.kill()
                    pr.wait(timeout=5)
                except Exception:  # noqa
                    pass
            shutil.rmtree(self.root, ignore_errors=True)

    return RealLocal


class ScriptedScheduler(TrialScheduler):
    """answers `on_trial_result` from a script; lets the worker write in between"""

    def __init__(self, backend):
        super().__init__(config_space={})
        self.backend = backend
        self.script = []
        self.handed = []
        self.calls = []

    def on_trial_result(self, trial, result):
        dec, n = self.script.pop(0) if self.script else ("CONTINUE", 0)
        self.handed.append([int(trial.trial_id), int(result["run"]), int(result["idx"]), dec])
        # the worker keeps writing while the scheduler thinks / before the command arrives
        self.backend.w_emit(trial.trial_id, n)
        return dec

    def on_trial_remove(self, trial):
        self.calls.append(["remove", int(trial.trial_id)])

    def on_trial_complete(self, trial, result):
        self.calls.append(["complete", int(trial.trial_id)])

    def on_trial_error(self, trial):
        self.calls.append(["error", int(trial.trial_id)])

    def metric_names(self):
        return ["run"]

    def metric_mode(self):
        return "min"


def errname(e):
    if isinstance(e, AssertionError):
        return "assertion"
    if isinstance(e, KeyError):
        return "key-error"
    return "other:" + type(e).__name__


def snapshot(be):
    trials = []
    for t in be.trial_ids:
        e = be.env[t]
        trials.append([be._status(t), be._trial_dict[t].status, int(be._last_metric_seen_index.get(t, 0)),
                       len(e["out"]), e["run"], e["proc"]])
    return {"trials": trials, "ckpt": sorted(be.ckpt), "cand": sorted(be.cand)}


def make(ctor):
    os.environ.setdefault("SYNETUNE_FOLDER", "/nonexistent-syne-tune-verif")
    if ctor.get("local"):
        import tempfile
        be = _real_local_class()(delete_checkpoints=bool(ctor.get("delete_checkpoints", False)),
                                 root=tempfile.mkdtemp(prefix="c02local"))
    else:
        be = MemBackend(delete_checkpoints=bool(ctor.get("delete_checkpoints", False)),
                        delayed_stop=bool(ctor.get("delayed_stop", False)), coarse_clock=ctor.get("coarse_clock", 1))
    sch = ScriptedScheduler(be)
    tuner = Tuner(trial_backend=be, scheduler=sch, stop_criterion=lambda status: False, n_workers=10 ** 6,
                  tuner_name="c02-poll", suffix_tuner_name=False, save_tuner=False, callbacks=[])
    tuner.tuning_status = TuningStatus(metric_names=["run"])
    return be, sch, tuner


def apply_op(be, sch, tuner, op):
    """runs one protocol operation on the real code; returns the observed output dict"""
    k = op["op"]
    out = {}
    try:
        if k == "start":
            tr = be.start_trial(config={}, checkpoint_trial_id=op.get("ckpt"))
            out["trial"] = int(tr.trial_id)
        elif k == "emit":
            be.w_emit(op["trial"], op["n"])
        elif k == "exit":
            be.w_exit(op["trial"], op["ok"])
        elif k == "wckpt":
            be.w_ckpt(op["trial"])
        elif k == "fetch":
            sd, res = be.fetch_status_results(list(op["ids"]))
            out["status"] = [[int(t), sd[t][1]] for t in op["ids"]]
            out["delivered"] = [[int(t), int(r["run"]), int(r["idx"])] for t, r in res]
        elif k == "pause":
            be.pause_trial(op["trial"], result=None)
        elif k == "stop":
            be.stop_trial(op["trial"], result=None)
        elif k == "resume":
            be.resume_trial(op["trial"])
        elif k == "stop_all":
            be.stop_all()
        elif k == "busy":
            out["busy"] = sorted([int(t), s] for t, s in be.busy_trial_ids())   # (LocalBackend iterates over a set)
        elif k == "loop":
            sch.script = [tuple(x) for x in op["script"]]
            sch.handed = []
            orig = be.fetch_status_results

            def spy(trial_ids):  # records what the poll inside `_process_new_results` returned
                sd, res = orig(trial_ids)
                out["status"] = [[int(t), sd[t][1]] for t in trial_ids]
                out["delivered"] = [[int(t), int(r["run"]), int(r["idx"])] for t, r in res]
                return sd, res

            be.fetch_status_results = spy
            try:
                # `running_trials_ids` is a set in the tuner; `ids` is `list(set)` as computed there
                done, _ = tuner._process_new_results(running_trials_ids=_OrderedIds(op["ids"]))
                out["done"] = sorted([int(t), st] for t, (_, st) in done.items())
            finally:
                del be.fetch_status_results
                out["handed"] = list(sch.handed)
        else:
            raise ValueError(k)
    except Exception as e:  # noqa
        if hasattr(be, "root") and isinstance(e, FileNotFoundError) and k in ("pause", "stop") and op.get("trial") not in be.env:
            # an id that was never started: the real LocalBackend fails on the trial's directory (FileNotFoundError), the
            # in-memory environment on its table (KeyError) - the same refusal, which exception type it is is no model quantity
            return {"err": "key-error"}
        if k == "loop" and "status" in out:
            # raised after the poll (and possibly after commands): keep what was observed
            res = {"err": errname(e), "_partial": dict(out)}
            res["_partial"].update(snapshot(be))
            return res
        return {"err": errname(e)}
    out.update(snapshot(be))
    return out


class _OrderedIds(list):
    """`_process_new_results` only does `list(ids)` and `len(ids)` on its argument"""


def compare(inp, impl, model):
    if impl is None:
        return None
    if "stream" in inp:
        return None if "out" in model else f"model init error {model}"
    if "err" in impl:
        mo = model.get("out")
        if isinstance(mo, dict) and "loop_err" in mo:
            # exception raised at the end of `_update_running_trials`, after the commands
            if mo["loop_err"].split(":")[:2] != impl["err"].split(":")[:2]:
                return f"impl raised {impl['err']} model {mo['loop_err']}"
            for k, v in impl.get("_partial", {}).items():
                if mo.get(k) != v:
                    return f"loop error: key {k}: impl {v} model {mo.get(k)}"
            return None
        if "err" not in model:
            return f"impl raised {impl['err']} model gave {str(model)[:200]}"
        n = len(impl["err"].split(":"))
        if model["err"].split(":")[:n] != impl["err"].split(":"):
            return f"impl raised {impl['err']} model raised {model['err']}"
        return None
    return default_compare(inp, impl, model)


# ---------------------------------------------------------------------------------
# scenarios


def run_scenario(spec):
    """spec: {"ctor": {...}, "ops": [...]}  explicit history, or
             {"ctor": {...}, "seed": int, "steps": int, "n_workers": int, "p": {...}} generated.
    returns dict(lines, events, hist)"""
    ctor = dict(spec.get("ctor", {}))
    be, sch, tuner = make(ctor)
    header = dict(ctor)
    header["stream"] = "poll"
    lines = [(header, {})]
    events = []
    hist = {}

    def count(k, n=1):
        hist[k] = hist.get(k, 0) + n

    def do(op):
        mid = op.pop("mid", None) if isinstance(op, dict) else None
        if mid is not None:
            return do_mid(op, mid)
        before_runs = {t: be.env[t]["run"] for t in be.env}
        n_emitted = len(be.emitted)
        out = apply_op(be, sch, tuner, op)
        lines.append((op, out))
        ev = {"op": op, "out": {k: v for k, v in out.items() if k in ("delivered", "handed", "status", "done", "err", "trial")},
              "runs": {t: be.env[t]["run"] for t in be.env}, "runs_before": before_runs,
              "emitted": list(be.emitted[n_emitted:])}
        if "err" in out and "_partial" in out:
            ev["out"].update({k: v for k, v in out["_partial"].items() if k in ("delivered", "handed", "status")})
        events.append(ev)
        count("op:" + op["op"])
        if "err" in out:
            count("err:" + out["err"])
        for _t, st in out.get("status", []):
            count("polled-status:" + st)
        return out

    def do_mid(op, mid):
        """real LocalBackend only: inside the poll of `op` (a loop or fetch), between the two reads the backend makes for
        trial `mid[0]` (process status and log, in whichever order), the worker writes `mid[1]` reports and exits.  For the
        order of the unchanged code (status first) that is the history  emit; poll; exit  and it is handed to the model
        and to the monitor as such (the outputs of the two worker steps are not observable on their own: `None`)."""
        t, n, ok = mid
        before_runs = {x: be.env[x]["run"] for x in be.env}
        n_emitted = len(be.emitted)
        be.between, be.mid_fired, be.mid_exit = [t, n, ok], False, None
        out = apply_op(be, sch, tuner, op)
        fired, be.between = be.mid_fired, None
        if not fired:       # the trial was not polled (or not running): an ordinary operation
            lines.append((op, out))
            events.append({"op": op, "out": {k: v for k, v in out.items() if k in ("delivered", "handed", "status", "done", "err", "trial")},
                           "runs": {x: be.env[x]["run"] for x in be.env}, "runs_before": before_runs,
                           "emitted": list(be.emitted[n_emitted:])})
            count("op:" + op["op"])
            return out
        count("mid-poll-exit")
        count("op:" + op["op"])
        runs = {x: be.env[x]["run"] for x in be.env}
        lines.append(({"op": "emit", "trial": t, "n": n}, None))
        events.append({"op": {"op": "emit", "trial": t, "n": n}, "out": {}, "runs": before_runs, "runs_before": before_runs,
                       "emitted": list(be.emitted[n_emitted:n_emitted + n])})
        lines.append((op, out))
        ev = {"op": op, "out": {k: v for k, v in out.items() if k in ("delivered", "handed", "status", "done", "err", "trial")},
              "runs": runs, "runs_before": before_runs, "emitted": list(be.emitted[n_emitted + n:])}
        if "err" in out and "_partial" in out:
            ev["out"].update({k: v for k, v in out["_partial"].items() if k in ("delivered", "handed", "status")})
        events.append(ev)
        for _t, st in out.get("status", []):
            count("polled-status:" + st)
        if be.mid_exit is not None:
            e = be.env[t]
            if e["proc"] == "running":
                e["proc"] = "exited-ok" if ok else "exited-fail"
            be.mid_exit = None
            xop = {"op": "exit", "trial": t, "ok": ok}
            lines.append((xop, None))
            events.append({"op": xop, "out": {}, "runs": runs, "runs_before": runs, "emitted": []})
        return out

    try:
        res = _run_scenario_body(spec, be, sch, tuner, lines, events, hist, count, do)
        res["survivors"] = list(getattr(be, "survivors", []))
        return res
    finally:
        if hasattr(be, "close"):
            be.close()


def _run_scenario_body(spec, be, sch, tuner, lines, events, hist, count, do):
    if "ops" in spec:
        for op in spec["ops"]:
            out = do(dict(op))
            if "err" in out and op["op"] in ("loop", "stop_all"):
                break
        return {"lines": lines, "events": events, "hist": hist}

    rng = random.Random(spec["seed"])
    p = spec.get("p", {})
    n_workers = spec.get("n_workers", 3)
    running, paused = [], []
    unread_emit = set()  # trials that emitted since their last poll (for the histogram)
    last_poll_decided = None
    for _ in range(spec.get("steps", 40)):
        live = [t for t in be.env if be.env[t]["proc"] == "running"]
        acts = []
        if len(running) < n_workers:
            acts += ["start"] * 3
        if live:
            acts += ["emit"] * 8 + ["exit"] * 2 + ["wckpt"]
        if running:
            acts += ["loop"] * 7
        if paused:
            acts += ["resume"] * 4
        if be.trial_ids:
            acts += ["fetch", "busy"]
            if rng.random() < p.get("direct_cmd", 0.15):
                acts += ["pause", "stop"]
            if rng.random() < p.get("bad", 0.05):
                acts += ["bad"]
        a = rng.choice(acts)
        if a == "start":
            ck = None
            if be.ckpt and rng.random() < 0.3:
                ck = rng.choice(sorted(be.ckpt))
            elif be.trial_ids and rng.random() < 0.05:
                ck = rng.choice(be.trial_ids)
            out = do({"op": "start", "ckpt": ck})
            if "err" not in out:
                running.append(out["trial"])
        elif a == "emit":
            t = rng.choice(live)
            n = rng.choice([0, 1, 1, 2, 2, 3, 4])
            do({"op": "emit", "trial": t, "n": n})
            if n:
                unread_emit.add(t)
        elif a == "exit":
            # mostly trials the loop has already seen a result of (else the tuner raises
            # "completed and no metrics got observed" and the history ends)
            seen_live = [t for t in live if t in tuner.last_seen_result_per_trial
                         or len(be.env[t]["out"]) > be._last_metric_seen_index.get(t, 0)]
            if seen_live and rng.random() < 0.97:
                t = rng.choice(seen_live)
            elif rng.random() < 0.3:
                t = rng.choice(live)
            else:
                continue
            if t in unread_emit:
                count("exit-before-last-read")
            else:
                count("exit-after-last-read")
            do({"op": "exit", "trial": t, "ok": rng.random() < 0.8})
        elif a == "wckpt":
            do({"op": "wckpt", "trial": rng.choice(live)})
        elif a == "loop":
            ids = list(set(running))
            script = []
            for _i in range(rng.randint(0, 8)):
                r = rng.random()
                dec = "CONTINUE" if r < p.get("p_continue", 0.6) else ("PAUSE" if r < p.get("p_continue", 0.6) + p.get("p_pause", 0.28) else "STOP")
                n = rng.choice([0, 0, 0, 1, 1, 2, 3]) if rng.random() < p.get("p_window", 0.5) else 0
                script.append([dec, n])
            lop = {"op": "loop", "ids": ids, "script": script}
            if spec.get("ctor", {}).get("local") and rng.random() < p.get("p_mid", 0.35):
                # the worker writes its last report(s) and exits in the middle of this poll; no writes in the window
                # between the poll and the commands (the process is gone by then)
                cands = [t for t in ids if be.env[t]["proc"] == "running"
                         and (t in tuner.last_seen_result_per_trial or len(be.env[t]["out"]) > be._last_metric_seen_index.get(t, 0))]
                if cands:
                    lop["mid"] = [rng.choice(cands), rng.choice([1, 1, 2, 3]), rng.random() < 0.8]
                    lop["script"] = script = [[d, 0] for d, _n in script]
            out = do(lop)
            unread_emit -= set(ids)
            if "err" in out:
                break
            handed = out.get("handed", [])
            deliv = out.get("delivered", [])
            sizes = {}
            for t, _, _ in deliv:
                sizes[t] = sizes.get(t, 0) + 1
            for t in ids:
                count("batch-size:%d" % min(sizes.get(t, 0), 5))
            if len(handed) < len(deliv):
                count("decision-mid-batch")
            for h, (dec, n) in zip(handed, script):
                if dec != "CONTINUE" and n > 0 and be.env[h[0]]["out"] and be._last_metric_seen_index.get(h[0], 0) < len(be.env[h[0]]["out"]):
                    count("emit-between-poll-and-command")
            for t, st in out.get("done", []):
                if t in running:
                    running.remove(t)
                if st == Status.paused and t not in paused:
                    paused.append(t)
        elif a == "resume":
            t = rng.choice(paused)
            out = do({"op": "resume", "trial": t})
            if "err" not in out:
                paused.remove(t)
                running.append(t)
                count("resume-ok")
                if be._last_metric_seen_index.get(t, 0) < len(be.env[t]["out"]):
                    count("resume-with-unseen-old-reports")
        elif a == "fetch":
            ids = [t for t in be.trial_ids if rng.random() < 0.5]
            if rng.random() < 0.1 and ids:
                ids.append(ids[0])
            do({"op": "fetch", "ids": ids})
        elif a == "busy":
            do({"op": "busy"})
        elif a == "pause":
            t = rng.choice(be.trial_ids)
            out = do({"op": "pause", "trial": t})
            if "err" not in out:
                if t in running:
                    running.remove(t)
                if t not in paused:
                    paused.append(t)
        elif a == "stop":
            t = rng.choice(be.trial_ids)
            do({"op": "stop", "trial": t})
            if t in running:
                running.remove(t)
        elif a == "bad":
            n = len(be.trial_ids)
            op = rng.choice([{"op": "resume", "trial": rng.choice(be.trial_ids)}, {"op": "resume", "trial": n + 1},
                             {"op": "pause", "trial": n}, {"op": "stop", "trial": n + 2}, {"op": "fetch", "ids": [0, n]}])
            out = do(op)
            if "err" not in out and op["op"] == "resume":
                t = op["trial"]
                if t in paused:
                    paused.remove(t)
                if t not in running:
                    running.append(t)
    if rng.random() < p.get("stop_all", 0.5):
        do({"op": "stop_all"})
        do({"op": "fetch", "ids": list(be.trial_ids)})
    return {"lines": lines, "events": events, "hist": hist}
