"""
Stream `searcher` (C06, C16): the real searchers / schedulers of /repo driven on generated
configuration spaces, with their random draws, shuffle permutation and set orders recorded
as input tapes of the Lean model (lean/SyneTune/Model/{Searcher,InitialPoints,Exclusion,
RandomSearcher,Grid}.lean, driver lean/SyneTune/Drivers/Searcher.lean).

Wire format: int -> JSON number, float -> exact rational string "n/d", str -> {"s": ..};
a configuration is a list of [key, value] pairs in dict order.
"""
import datetime
import logging
import math
import pickle
import random
from fractions import Fraction

import numpy as np

logging.disable(logging.CRITICAL)

from syne_tune import config_space as CS
from syne_tune.backend.trial_status import Trial
from syne_tune.config_space import (
    Categorical, Domain, FiniteRange, Float, Integer, Ordinal, OrdinalNearestNeighbor,
    is_log_space,
)
from syne_tune.optimizer.schedulers.fifo import FIFOScheduler
from syne_tune.optimizer.schedulers.hyperband import HyperbandScheduler
from syne_tune.optimizer.schedulers.pbt import PopulationBasedTraining
from syne_tune.optimizer.schedulers.searchers import searcher_base
from syne_tune.optimizer.schedulers.searchers.random_grid_searcher import GridSearcher, RandomSearcher
from syne_tune.optimizer.schedulers.searchers.searcher import impute_points_to_evaluate

from framework import frac_str

METRIC, RES, MAXATTR = "loss", "epoch", "epochs"
EPOCH0 = datetime.datetime(2020, 1, 1)
MAX_RETRIES = searcher_base.MAX_RETRIES

# ---------------------------------------------------------------------------------
# values / configurations on the wire


def enc_val(v):
    if isinstance(v, (bool, np.bool_)):
        raise TypeError("bool value")
    if isinstance(v, (int, np.integer)):
        return int(v)
    if isinstance(v, (float, np.floating)):
        if v == 0 and math.copysign(1.0, float(v)) < 0:
            return "-0"  # negative zero keeps its own match string
        return frac_str(float(v))
    if isinstance(v, str):
        return {"s": v}
    raise TypeError(f"value {v!r} of type {type(v)}")


def enc_config(c):
    return None if c is None else [[k, enc_val(v)] for k, v in c.items()]


def dec_val(j):
    if isinstance(j, dict):
        return j["s"]
    if isinstance(j, str):
        if j == "-0":
            return -0.0
        return float(Fraction(j))
    return int(j)


def dec_config(j):
    return None if j is None else {k: dec_val(v) for k, v in j}


# ---------------------------------------------------------------------------------
# configuration spaces: plain-data spec -> real domains -> model description

CTORS = {
    "uniform": CS.uniform, "loguniform": CS.loguniform, "randint": CS.randint,
    "lograndint": CS.lograndint, "choice": CS.choice, "ordinal": CS.ordinal,
    "logordinal": CS.logordinal, "finrange": CS.finrange, "logfinrange": CS.logfinrange,
    "quniform": CS.quniform, "reverseloguniform": CS.reverseloguniform,
    "qloguniform": CS.qloguniform, "qrandint": CS.qrandint, "qlograndint": CS.qlograndint,
}


def build_space(spec):
    """spec: list of [key, ctor, args, kwargs]; ctor == 'const' -> args[0] is the constant"""
    cs = {}
    for key, ctor, args, kwargs in spec:
        if ctor == "const":
            cs[key] = args[0]
        else:
            cs[key] = CTORS[ctor](*args, **kwargs)
    return cs


def _geo(lower, upper):
    return float(np.exp(0.5 * (np.log(float(upper)) + np.log(float(lower)))))


def model_domain(d):
    """description of a real Domain for the model, read off its public attributes"""
    if isinstance(d, OrdinalNearestNeighbor):
        out = {"k": "nn", "vals": [enc_val(c) for c in d.categories], "log": bool(d.log_scale)}
        if d.log_scale:
            out["geo"] = frac_str(_geo(d.categories[0], d.categories[-1]))
        return out
    if isinstance(d, Ordinal):
        return {"k": "ordinal", "vals": [enc_val(c) for c in d.categories]}
    if isinstance(d, Categorical):
        return {"k": "cat", "vals": [enc_val(c) for c in d.categories]}
    log = bool(is_log_space(d))
    if isinstance(d, Integer):
        out = {"k": "int", "lo": int(d.lower), "hi": int(d.upper), "log": log}
    elif isinstance(d, Float):
        out = {"k": "float", "lo": frac_str(float(d.lower)), "hi": frac_str(float(d.upper)), "log": log}
    elif isinstance(d, FiniteRange):
        out = {"k": "fin", "vals": [enc_val(v) for v in d.values], "lo": frac_str(float(d.lower)),
               "hi": frac_str(float(d.upper)), "log": log}
        if log:
            raw = []
            for k in range(len(d)):
                y = float(np.exp(k * d._step_internal + d._lower_internal))
                raw.append(frac_str(float(np.clip(y, d.lower, d.upper))))
            out["raw"] = raw
    else:
        raise TypeError(f"unknown domain {d!r}")
    if log:
        out["geo"] = frac_str(_geo(d.lower, d.upper))
    return out


def model_space(cs):
    out = []
    for k, v in cs.items():
        if isinstance(v, Domain):
            out.append([k, {"dom": model_domain(v)}])
        else:
            out.append([k, {"const": enc_val(v)}])
    return out


def is_valid(dom, v):
    """`Domain.is_valid` (FiniteRange has none: membership in `values`)"""
    if isinstance(dom, FiniteRange):
        return v in dom.values
    return bool(dom.is_valid(v))


def distinct_values(dom):
    """all distinct values of a finite domain, None if infinite"""
    if isinstance(dom, Categorical):
        return list(dict.fromkeys(dom.categories))
    if isinstance(dom, FiniteRange):
        return list(dict.fromkeys(dom.values))
    if isinstance(dom, Integer):
        q = getattr(getattr(dom, "sampler", None), "q", None)
        if isinstance(q, int) and q > 1:
            # quantised integer domain: the values its sampler is meant to produce
            return [v for v in range(dom.lower, dom.upper + 1) if v % q == 0] or [dom.lower]
        return list(range(dom.lower, dom.upper + 1))
    if isinstance(dom, Float):
        return [dom.lower] if dom.lower == dom.upper else None
    return None


def true_space_size(cs, limit=5000):
    n = 1
    for v in cs.values():
        if isinstance(v, Domain):
            dv = distinct_values(v)
            if dv is None:
                return None
            n *= len(dv)
            if n > limit:
                return None
    return n


def mid_hints(cs):
    """the implementation's own default value per nearest-value domain, as an index; the
    model adopts it only when its own choice is within round-off of a tie"""
    hints = []
    try:
        dflt = impute_points_to_evaluate([dict()], cs)[0]
    except Exception:
        return hints
    for k, d in cs.items():
        if isinstance(d, FiniteRange):
            vals = list(d.values)
        elif isinstance(d, OrdinalNearestNeighbor):
            vals = list(d.categories)
        else:
            continue
        cands = [i for i, x in enumerate(vals) if x == dflt[k]]
        if cands:
            mid = (len(vals) - 1) / 2
            hints.append([k, min(cands, key=lambda i: abs(i - mid))])
    return hints


# ---------------------------------------------------------------------------------
# generators


def _dy(rng, lo, hi, den=8):
    """dyadic float in [lo, hi] on a 1/den grid"""
    return rng.randint(int(lo * den), int(hi * den)) / den


def gen_domain(rng, finite_only=False, small=False, misaligned=False):
    """one [ctor, args, kwargs]"""
    kinds = ["randint", "choice_s", "choice_i", "ordinal_eq", "ordinal_nn", "logordinal",
             "finrange", "finrange_int", "logfinrange", "lograndint", "qrandint", "single"]
    if not finite_only:
        kinds += ["uniform", "loguniform", "quniform", "reverseloguniform", "qloguniform", "uniform",
                  "loguniform", "qlograndint"]
    k = rng.choice(kinds)
    top = 4 if small else 12
    if k == "randint":
        lo = rng.randint(-3, 5)
        return ["randint", [lo, lo + rng.randint(0, top)], {}]
    if k == "lograndint":
        lo = rng.randint(1, 4)
        return ["lograndint", [lo, lo + rng.randint(0, top)], {}]
    if k == "qrandint":
        q = rng.choice([2, 3, 4])
        if misaligned:
            lo = rng.randint(1, 5)
            return ["qrandint", [lo, lo + rng.randint(q, 3 * q)], {"q": q}]
        lo = q * rng.randint(0, 3)
        return ["qrandint", [lo, lo + q * rng.randint(1, 3)], {"q": q}]
    if k == "qlograndint":
        q = rng.choice([2, 4])
        lo = q * rng.randint(1, 3)
        return ["qlograndint", [lo, lo + q * rng.randint(1, 4)], {"q": q}]
    if k == "choice_s":
        n = rng.randint(1, 3 if small else 5)
        cats = rng.sample(["a", "b", "c", "relu", "tanh", "x1", "Z"], n)
        if rng.random() < 0.15:
            cats = cats + [cats[0]]  # duplicate category
        return ["choice", [cats], {}]
    if k == "choice_i":
        n = rng.randint(1, 4)
        return ["choice", [rng.sample([1, 2, 3, 5, 8, 13, -4], n)], {}]
    if k == "ordinal_eq":
        n = rng.randint(1, 5)
        if rng.random() < 0.5:
            return ["ordinal", [rng.sample(["s", "m", "l", "xl", "xxl"], n)], {"kind": "equal"}]
        return ["ordinal", [rng.sample([1, 2, 4, 8, 16, 3], n)], {"kind": "equal"}]
    if k == "ordinal_nn":
        n = rng.randint(2, 5)  # a single-value nearest-neighbour ordinal is rejected by make_hyperparameter_ranges
        if rng.random() < 0.5:
            cats = sorted(rng.sample(range(-4, 20), n))
        else:
            cats = sorted(rng.sample([x / 4 for x in range(-8, 40)], n))
        return ["ordinal", [cats], {"kind": "nn"}]
    if k == "logordinal":
        n = rng.randint(2, 5)
        if rng.random() < 0.5:
            cats = sorted(rng.sample([1, 2, 4, 8, 16, 32, 3, 5, 100], n))
        else:
            cats = sorted(rng.sample([0.001, 0.01, 0.1, 1.0, 0.5, 0.25, 10.0], n))
        return ["logordinal", [cats], {}]
    if k == "finrange":
        lo = _dy(rng, -2, 3)
        size = rng.randint(1, 4 if small else 7)
        return ["finrange", [lo, lo + _dy(rng, 0.125, 4), size], {}]
    if k == "finrange_int":
        lo = rng.randint(-2, 4)
        size = rng.randint(1, 4 if small else 6)
        step = rng.randint(1, 3)
        if rng.random() < 0.2:
            return ["finrange", [float(lo), float(lo + rng.randint(1, 3)), size], {"cast_int": True}]
        return ["finrange", [float(lo), float(lo + step * max(size - 1, 1)), size], {"cast_int": True}]
    if k == "logfinrange":
        lo = rng.choice([0.001, 0.01, 0.125, 1.0, 2.0])
        size = rng.randint(1, 4 if small else 6)
        if rng.random() < 0.3:
            return ["logfinrange", [float(rng.randint(1, 3)), float(rng.choice([16, 64, 100])), size], {"cast_int": True}]
        return ["logfinrange", [lo, lo * rng.choice([4.0, 10.0, 1000.0]), size], {}]
    if k == "single":
        c = rng.choice(["u", "i", "c", "f"])
        if c == "u":
            return ["uniform", [0.5, 0.5], {}]
        if c == "i":
            return ["randint", [3, 3], {}]
        if c == "c":
            return ["choice", [["only"]], {}]
        return ["finrange", [2.0, 2.0, 1], {}]
    if k == "uniform":
        lo = _dy(rng, -4, 4)
        return ["uniform", [lo, lo + _dy(rng, 0.125, 6)], {}]
    if k == "loguniform":
        lo = rng.choice([1e-4, 0.001, 0.125, 1.0, 3.0])
        return ["loguniform", [lo, lo * rng.choice([2.0, 10.0, 1e4])], {}]
    if k == "quniform":
        q = rng.choice([0.25, 0.5])
        lo = q * rng.randint(-4, 4)
        return ["quniform", [lo, lo + q * rng.randint(1, 8), q], {}]
    if k == "qloguniform":
        q = rng.choice([0.25, 0.5])
        lo = q * rng.randint(1, 4)
        return ["qloguniform", [lo, lo + q * rng.randint(1, 16), q], {}]
    if k == "reverseloguniform":
        lo = rng.choice([0.0, 0.5, 0.75])
        return ["reverseloguniform", [lo, rng.choice([0.875, 0.9375, 0.99])], {}]
    raise AssertionError(k)


KEYS = ["lr", "batch", "act", "depth", "wd", "mom", "opt", "n_units", "Drop", "alpha"]


def gen_space(rng, finite=False, small=False, n_hp=None, consts=True, misaligned=False):
    n = n_hp if n_hp is not None else rng.randint(1, 4)
    keys = rng.sample(KEYS, n)
    spec = [[k] + gen_domain(rng, finite_only=finite, small=small, misaligned=misaligned) for k in keys]
    if consts:
        for _ in range(rng.choice([0, 0, 1, 2])):
            kind = rng.choice(["i", "f", "s"])
            name = rng.choice(["epochs_c", "dataset", "scale", "tag"])
            if name in [s[0] for s in spec]:
                continue
            val = {"i": rng.randint(1, 50), "f": rng.choice([0.5, 2.25, 1e-3]), "s": rng.choice(["cifar", "x"])}[kind]
            spec.insert(rng.randint(0, len(spec)), [name, "const", [val], {}])
    return spec


def gen_p2e(rng, cs):
    """points_to_evaluate: None / [] / partial / duplicate / occasionally invalid"""
    r = rng.random()
    if r < 0.2:
        return None
    if r < 0.3:
        return []
    hp = [(k, d) for k, d in cs.items() if isinstance(d, Domain)]
    pts = []
    for _ in range(rng.randint(1, 4)):
        p = {}
        for k, d in hp:
            if rng.random() < 0.5:
                continue
            dv = distinct_values(d)
            if dv is not None:
                v = rng.choice(dv)
            elif isinstance(d, Float):
                v = d.lower + (d.upper - d.lower) * rng.randint(0, 16) / 16
                v = min(max(v, d.lower), d.upper)
            else:
                continue
            if isinstance(d, Float) and rng.random() < 0.2 and float(v).is_integer():
                v = int(v)  # int given for a float domain
            elif isinstance(d, Integer) and rng.random() < 0.2:
                v = float(v)  # float given for an int domain
            p[k] = v
        if rng.random() < 0.1:
            p["not_a_key"] = 1
        pts.append(p)
    if pts and rng.random() < 0.35:
        pts.insert(rng.randint(0, len(pts)), dict(rng.choice(pts)))  # exact duplicate
    if hp and rng.random() < 0.06:
        k, d = rng.choice(hp)  # invalid entry -> constructor assertion
        if isinstance(d, (Float, Integer)):
            pts[-1][k] = d.upper + 7
        elif isinstance(d, Categorical) and isinstance(d.categories[0], str):
            pts[-1][k] = "no-such-category"
    return [{k: (v if not isinstance(v, np.generic) else v.item()) for k, v in p.items()} for p in pts]


def gen_restricted_case(rng, idx=0, p_clone=0.0, sched_ok=True):
    """RandomSearcher(restrict_configurations=L): L sampled from the space, with copies of (some of) the imputed
    points_to_evaluate, duplicates inside L, lists of length 1; both settings of allow_duplicates; driven until the
    searcher says 'nothing left' twice (allow_duplicates=False) or for a few rounds through the list"""
    finite = rng.random() < 0.5
    space = gen_space(rng, finite=finite, small=finite and rng.random() < 0.5, misaligned=False)
    cs = build_space(space)
    p2e = gen_p2e(rng, cs)
    try:
        imputed = [_plain(c) for c in impute_points_to_evaluate(p2e, cs)]
    except Exception:
        imputed = []
    s0 = RandomSearcher(dict(cs), metric=METRIC, points_to_evaluate=[], random_seed=rng.randrange(1000), allow_duplicates=True)
    shape = ["one", "p2e-only", "mixed", "mixed", "mixed", "dups"][idx % 6]
    n = 1 if shape == "one" else rng.randint(2, 8)
    lst = [_plain(s0.get_config()) for _ in range(n)]
    if shape == "one" and imputed and rng.random() < 0.5:
        lst = [dict(imputed[0])]            # the only allowed configuration is an initial one
    elif shape == "p2e-only" and imputed:
        lst = [dict(c) for c in imputed]    # every allowed configuration is an initial one: the remainder starts empty
    elif shape != "one":
        for c in imputed:
            if rng.random() < 0.6:
                lst.insert(rng.randint(0, len(lst)), dict(c))
    if shape == "dups":
        # the same configuration listed two or three times (at most half of the list: see RULE)
        for _ in range(rng.randint(1, max(1, len(lst) // 2))):
            lst.insert(rng.randint(0, len(lst)), dict(rng.choice(lst)))
    allow_dup = (idx // 6) % 2 == 1
    return {"scenario": "searcher", "space": space, "kind": "random", "p2e": p2e,
            "ctor": {"allow_duplicates": allow_dup, "random_seed": rng.randrange(1000), "shuffle": False, "num_samples": {},
                     "debug_log": False, "restrict": lst},
            "n_ops": 4 * (len(lst) + len(imputed)) + 12, "seed": rng.randrange(10 ** 9), "p_fail": rng.choice([0, 0.2, 0.4]),
            "p_clone": p_clone, "sched": rng.choice([None, None, None, "fifo"]) if sched_ok else None, "max_resource_attr": False}


# ---------------------------------------------------------------------------------
# recording wrappers (harness side; nothing in /repo is changed)


class DrawRecorder:
    """per-instance wrapper of `hp_ranges.random_config`: records the drawn configurations"""

    def __init__(self, hp_ranges):
        self.real = hp_ranges.random_config
        self.draws = []
        hp_ranges.random_config = self

    def __call__(self, random_state):
        c = self.real(random_state)
        self.draws.append(dict(c))
        return c

    def take(self):
        d, self.draws = self.draws, []
        return d


class IdxRecorder:
    """proxy put in place of ONE searcher's `random_state` (harness side): records the values of
    `randint`.  A RandomSearcher with `restrict_configurations` draws nothing else:
    `pos = self.random_state.randint(low=0, high=len(self._restrict_configurations))`"""

    def __init__(self, inner):
        self._inner = inner
        self.draws = []

    def randint(self, *a, **kw):
        v = self._inner.randint(*a, **kw)
        if np.ndim(v) == 0:
            self.draws.append(int(v))
        return v

    def take(self):
        d, self.draws = self.draws, []
        return d

    def __getattr__(self, name):
        return getattr(self._inner, name)


def attach_restrict_recorders(s, caller):
    """`caller`: the list object the harness passed as `restrict_configurations` (observed after every call)"""
    s._caller = caller
    s._irec = IdxRecorder(s.random_state)
    s.random_state = s._irec


class _ShuffleRecorder:
    def __init__(self, inner):
        self._inner = inner
        self.pre = None
        self.perm = None

    def shuffle(self, lst):
        self.pre = list(lst)
        self._inner.shuffle(lst)
        pos = {}
        for i, t in enumerate(self.pre):
            pos.setdefault(t, []).append(i)
        self.perm = [pos[t].pop(0) for t in lst]

    def __getattr__(self, name):
        return getattr(self._inner, name)


class RecGridSearcher(GridSearcher):
    """GridSearcher whose construction-time shuffle is recorded (the code that runs is the
    real `_generate_all_candidates_on_grid`)"""

    def _generate_all_candidates_on_grid(self):
        real = self.random_state
        rec = _ShuffleRecorder(real)
        self.random_state = rec
        try:
            super()._generate_all_candidates_on_grid()
        finally:
            self.random_state = real
        self.rec_perm = rec.perm
        self.rec_pre = rec.pre if rec.pre is not None else list(self.hp_values_combinations)


def grid_num_pts(searcher):
    """per-hyperparameter value lists of Float/Integer keys in their `list(set(..))` order,
    recovered from the unshuffled Cartesian product"""
    pre = searcher.rec_pre
    out = []
    for pos, key in enumerate(searcher.hp_keys):
        dom = searcher.config_space[key]
        if isinstance(dom, (Float, Integer)):
            vals = list(dict.fromkeys(t[pos] for t in pre))
            out.append([key, [enc_val(v) for v in vals]])
    return out


def errname(e):
    if isinstance(e, AssertionError):
        return "assertion"
    if isinstance(e, KeyError):
        return "key-error"
    if isinstance(e, ValueError):
        return "value-error"
    return "other:" + type(e).__name__


# ---------------------------------------------------------------------------------
# searcher construction


def make_searcher(kind, cs, ctor, p2e):
    """ctor: {"allow_duplicates", "random_seed", "shuffle", "num_samples", "debug_log"}"""
    kw = dict(metric=METRIC, points_to_evaluate=None if p2e is None else [dict(p) for p in p2e],
              random_seed=ctor.get("random_seed", 0), allow_duplicates=ctor.get("allow_duplicates", False))
    if kind == "random" and ctor.get("restrict") is not None:
        caller = [dict(c) for c in ctor["restrict"]]   # the caller's list object
        s = RandomSearcher(dict(cs), debug_log=ctor.get("debug_log", False), restrict_configurations=caller, **kw)
        s._rec = DrawRecorder(s._hp_ranges)
        attach_restrict_recorders(s, caller)
    elif kind == "random":
        s = RandomSearcher(dict(cs), debug_log=ctor.get("debug_log", False), **kw)
        s._rec = DrawRecorder(s._hp_ranges)
    else:
        s = RecGridSearcher(dict(cs), num_samples=dict(ctor.get("num_samples") or {}),
                            shuffle_config=ctor.get("shuffle", True), **kw)
    return s


def header(kind, cs, ctor, p2e, sched=False):
    h = {"stream": "searcher", "kind": kind, "sched": bool(sched), "space": model_space(cs),
         "p2e": None if p2e is None else [enc_config(p) for p in p2e],
         "hints": mid_hints(cs), "allow_duplicates": bool(ctor.get("allow_duplicates", False)),
         "max_retries": MAX_RETRIES, "debug_log": bool(ctor.get("debug_log", False))}
    if kind == "random" and ctor.get("restrict") is not None:
        h["restrict"] = [enc_config(c) for c in ctor["restrict"]]
    return h


def _excl(obj):
    """the match strings of an exclusion list; a bookkeeping object of another shape is observed as unreadable (the model then
    disagrees: the correspondence no longer holds and the monitors decide whether the property still does)"""
    es = getattr(obj, "excl_set", None)
    if es is None and isinstance(obj, dict):
        es = obj.get("excl_set")
    if es is None:
        return ["<unreadable:%s>" % type(obj).__name__]
    try:
        return sorted(es)
    except TypeError:
        return ["<unreadable:%s>" % type(obj).__name__]


def searcher_state(kind, s):
    if kind == "random":
        cf = s._config_for_trial_id or {}
        out = {"n_p2e": len(s._points_to_evaluate), "excl": _excl(s._excl_list),
               "cfg_for": [[int(t), enc_config(c)] for t, c in cf.items()]}
        if getattr(s, "_caller", None) is not None:
            # restrict_configurations: the remaining list (None and [] are different states), the marked
            # positions, and the list object of the caller
            rc, rpos = s._restrict_configurations, s._rc_returned_pos
            out["rc_kind"] = "none" if rc is None else "list"
            out["rc"] = [enc_config(c) for c in (rc or [])]
            out["rc_pos"] = sorted(int(p) for p in rpos) if rpos is not None else ("None" if rc is not None else [])
            out["caller"] = [enc_config(c) for c in s._caller]
        return out
    return {"n_p2e": len(s._points_to_evaluate), "next_index": int(s._next_index),
            "all_init": _excl(s._all_initial_configs)}


def init_output(kind, cs, s):
    from syne_tune.config_space import config_space_size

    out = {"init": [enc_config(c) for c in s._points_to_evaluate], "size": config_space_size(cs), "wf": True}
    if kind == "grid":
        out["hp_keys"] = list(s.hp_keys)
        out["combos"] = [[enc_val(v) for v in t] for t in s.hp_values_combinations]
    elif getattr(s, "_caller", None) is not None:
        out.update(searcher_state(kind, s))
    return out


def take_draws(kind, s):
    """(configurations drawn by random_config, positions drawn by randint) since the last call"""
    if kind != "random":
        return [], []
    return s._rec.take(), (s._irec.take() if getattr(s, "_irec", None) is not None else [])


def clone_searcher(kind, cs, ctor, s, via="self"):
    """get_state -> pickle round trip -> clone_from_state (on the searcher itself or on a
    freshly constructed template with a different seed)"""
    state = pickle.loads(pickle.dumps(s.get_state()))
    if via == "self":
        tmpl = s
    else:
        c2 = dict(ctor)
        c2["random_seed"] = ctor.get("random_seed", 0) + 7919
        tmpl = make_searcher(kind, cs, c2, [])
    new = tmpl.clone_from_state(state)
    if kind == "random":
        new._rec = DrawRecorder(new._hp_ranges)
        if getattr(s, "_caller", None) is not None:
            attach_restrict_recorders(new, s._caller)
    return new, state


# ---------------------------------------------------------------------------------
# searcher-level scenario (reference style)


def run_searcher_scenario(spec):
    """spec: {"space", "kind": random|grid, "p2e", "ctor", "n_ops", "seed", "p_fail", "p_clone",
              "sched": None|"fifo"|"hb-stopping"|"hb-promotion"}
    returns {"lines", "events", "cs", "searcher"}; events feed the monitors."""
    rng = random.Random(spec["seed"])
    cs = build_space(spec["space"])
    kind, ctor, p2e = spec["kind"], spec["ctor"], spec["p2e"]
    sched_kind = spec.get("sched")
    max_t = 9
    if sched_kind and spec.get("max_resource_attr"):
        cs[MAXATTR] = max_t
    lines, events = [], []
    hdr = header(kind, cs, ctor, p2e, sched=bool(sched_kind))
    if kind == "grid":
        hdr["perm"] = None
    try:
        s = make_searcher(kind, cs, ctor, p2e)
    except Exception as e:  # constructor rejects points_to_evaluate
        if kind == "grid":
            hdr["num_pts"] = []
        lines.append((hdr, {"err": errname(e)}))
        events.append({"ev": "ctor-error", "err": errname(e)})
        return {"lines": lines, "events": events, "cs": cs, "searcher": None, "sched": None}
    if kind == "grid":
        hdr["num_pts"] = grid_num_pts(s)
        hdr["perm"] = s.rec_perm
    lines.append((hdr, init_output(kind, cs, s)))
    events.append({"ev": "init", "init": [dict(c) for c in s._points_to_evaluate],
                   "grid": [tuple(t) for t in s.hp_values_combinations] if kind == "grid" else None,
                   "hp_keys": list(s.hp_keys) if kind == "grid" else None})
    def note_caller(obj, when):
        # the list object passed as restrict_configurations, as the caller sees it now
        if getattr(obj, "_caller", None) is not None:
            events.append({"ev": "caller-list", "when": when, "list": [dict(c) for c in obj._caller],
                           "remaining": None if obj._restrict_configurations is None else [dict(c) for c in obj._restrict_configurations]})

    note_caller(s, "init")
    sch = None
    if sched_kind:
        scs = dict(cs)
        common = dict(searcher=s, metric=METRIC, mode="min")
        if sched_kind == "fifo":
            sch = FIFOScheduler(scs, **common)
        else:
            typ = sched_kind.split("-")[1]
            kw = dict(resource_attr=RES, type=typ, grace_period=1, reduction_factor=3, random_seed=spec["seed"] % 1000)
            if spec.get("max_resource_attr"):
                kw["max_resource_attr"] = MAXATTR
            else:
                kw["max_t"] = max_t
            sch = HyperbandScheduler(scs, **common, **kw)
        cs_full = scs
    else:
        cs_full = cs
    next_tid = 0
    trials = {}      # tid -> Trial
    running = {}     # tid -> next resource
    none_seen = 0
    mrng = random.Random(spec["seed"] * 31 + 5)

    def record_get(cfg, draws, tid=None, full=None, override=None):
        draws, idraws = draws
        st = searcher_state(kind, sch.searcher if sch else s)
        inp = {"draws": [enc_config(d) for d in draws]}
        if getattr(sch.searcher if sch else s, "_caller", None) is not None:
            inp["idraws"] = list(idraws)
            draws = list(draws) + list(idraws)
        if sch:
            inp.update({"op": "suggest", "trial_id": tid})
            if override is not None:
                inp["override"] = [override[0], enc_val(override[1])]
            out = {"config": enc_config(full), "consumed": len(draws)}
        else:
            inp["op"] = "get_config"
            out = {"config": enc_config(cfg), "consumed": len(draws)}
        out.update(st)
        lines.append((inp, out))

    force_clone = False
    for _ in range(spec["n_ops"]):
        cur = sch.searcher if sch else s
        r = rng.random()
        if (force_clone or r < spec.get("p_clone", 0)) and not sch:
            force_clone = False
            via = rng.choice(["self", "template"])
            inp = {"op": "clone"}
            try:
                new, state = clone_searcher(kind, cs, ctor, s, via=via)
            except Exception as e:
                lines.append((inp, {"err": errname(e)}))
                events.append({"ev": "clone-error", "err": errname(e), "via": via})
                continue
            # (a state lacking the exclusion set is observed as an empty one: the model then disagrees)
            sub = state.get("excl_list", {}) if kind == "random" else state.get("all_initial_configs", {})
            order = list(sub.get("excl_set", [])) if isinstance(sub, dict) else ["<unreadable:%s>" % type(sub).__name__]
            inp["order"] = order
            s = new
            note_caller(s, "clone")
            out = {"p2e": [enc_config(c) for c in s._points_to_evaluate]}
            if kind == "grid":
                out["combos"] = [[enc_val(v) for v in t] for t in s.hp_values_combinations]
            out.update(searcher_state(kind, s))
            lines.append((inp, out))
            events.append({"ev": "clone", "via": via})
            continue
        if running and r < 0.3:
            tid = rng.choice(sorted(running))
            if rng.random() < spec.get("p_fail", 0):
                # trial fails
                del running[tid]
                if sch:
                    sch.on_trial_error(trials[tid])
                else:
                    s.evaluation_failed(str(tid))
                lines.append(({"op": "evaluation_failed", "trial": tid}, searcher_state(kind, cur)))
                events.append({"ev": "failed", "trial": tid})
            else:
                # a result / completion: no effect on random and grid searchers
                res = {METRIC: mrng.randrange(0, 64) / 64.0, RES: running[tid]}
                if sch:
                    d = sch.on_trial_result(trials[tid], dict(res))
                    if d != "CONTINUE":
                        sch.on_trial_remove(trials[tid])
                        del running[tid]
                    elif running[tid] >= max_t:
                        sch.on_trial_complete(trials[tid], dict(res))
                        del running[tid]
                    else:
                        running[tid] += 1
                else:
                    s.on_trial_result(str(tid), trials[tid].config, res, update=True)
                    del running[tid]
                events.append({"ev": "result", "trial": tid})
            continue
        # ask for a configuration
        tid = next_tid
        take_draws(kind, cur)
        if sch:
            try:
                sg = sch.suggest(tid)
            except Exception as e:
                lines.append(({"op": "suggest", "trial_id": tid, "draws": []}, {"err": errname(e)}))
                events.append({"ev": "suggest-error", "err": errname(e)})
                break
            draws = take_draws(kind, cur)
            note_caller(cur, "suggest")
            if sg is None:
                record_get(None, draws, tid=tid, full=None)
                events.append({"ev": "none", "n_draws": len(draws[0]) + len(draws[1])})
                none_seen += 1
                if none_seen >= 2:
                    break
                continue
            if not sg.spawn_new_trial_id:
                # promotion of a paused trial: not a new-trial suggestion
                rt = int(sg.checkpoint_trial_id)
                if sg.config is not None:
                    trials[rt] = Trial(rt, sg.config, EPOCH0)
                running[rt] = running.get(rt, 1)
                events.append({"ev": "resume", "trial": rt, "config": sg.config})
                continue
            next_tid += 1
            override = None
            if spec.get("max_resource_attr") and sched_kind == "hb-promotion":
                override = (MAXATTR, sg.config[MAXATTR])
            record_get(None, draws, tid=tid, full=sg.config, override=override)
            trials[tid] = Trial(tid, sg.config, EPOCH0)
            sch.on_trial_add(trials[tid])
            running[tid] = 1
            events.append({"ev": "suggest", "trial": tid, "config": dict(sg.config), "level": "scheduler"})
        else:
            try:
                cfg = s.get_config(trial_id=str(tid))
            except Exception as e:
                lines.append(({"op": "get_config", "draws": []}, {"err": errname(e)}))
                events.append({"ev": "suggest-error", "err": errname(e)})
                break
            draws = take_draws(kind, s)
            note_caller(s, "get_config")
            record_get(cfg, draws)
            if cfg is None:
                events.append({"ev": "none", "n_draws": len(draws[0]) + len(draws[1])})
                none_seen += 1
                if none_seen >= 2:
                    break
                # snapshot / restore of a searcher that has just said 'nothing left'
                force_clone = bool(spec.get("clone_when_used_up"))
                continue
            next_tid += 1
            ms = s._hp_ranges.config_to_match_string(cfg)
            lines.append(({"op": "match", "config": enc_config(cfg)}, {"ms": ms}))
            trials[tid] = Trial(tid, dict(cfg), EPOCH0)
            running[tid] = 1
            events.append({"ev": "suggest", "trial": tid, "config": dict(cfg), "level": "searcher"})
            if rng.random() < 0.8:
                s.register_pending(str(tid), config=dict(cfg))
                lines.append(({"op": "register_pending", "trial": tid, "config": enc_config(cfg)},
                              searcher_state(kind, s)))
    return {"lines": lines, "events": events, "cs": cs_full, "searcher": sch.searcher if sch else s, "sched": sch,
            "hp_cs": cs}


def _approx_cfg(a, b):
    """configurations equal; float entries up to the round-off of one product (2^-40 relative)"""
    if a is None or b is None or len(a) != len(b):
        return a == b
    for (ka, va), (kb, vb) in zip(a, b):
        if ka != kb:
            return False
        if isinstance(va, str) and isinstance(vb, str):
            if va == vb:
                continue
            if "-0" in (va, vb):
                return False
            x, y = Fraction(va), Fraction(vb)
            if abs(x - y) > max(1, abs(x), abs(y)) / 2 ** 40:
                return False
        elif va != vb or type(va) != type(vb):
            return False
    return True


def compare(inp, impl, model):
    """canonical equality of every observed key; errors compared by class; the float
    product of PBT's perturbation is computed exactly by the model and compared up to
    its round-off"""
    from framework import default_compare

    if impl is None:
        return None
    if "err" in model and isinstance(model["err"], str) and model["err"].startswith("init: "):
        model = {"err": model["err"][len("init: "):]}
    if inp.get("op") == "explore" and "out" in model and "explored" in impl:
        if _approx_cfg(impl["explored"], model["out"].get("explored")):
            return None
        return f"explored: impl {impl['explored']} model {model['out'].get('explored')}"
    return default_compare(inp, impl, model)


# ---------------------------------------------------------------------------------
# PBT: `_explore` (reference style) and the suggestions it leads to (monitored)


class _RandRecorder:
    """proxy of PBT's `_random_state`: records `rand()` while `active`"""

    def __init__(self, inner, tape):
        self._inner, self._tape, self.active = inner, tape, False

    def rand(self, *a, **kw):
        r = self._inner.rand(*a, **kw)
        if self.active and not a:
            self._tape.append(["u", frac_str(float(r))])
        return r

    def __getattr__(self, name):
        return getattr(self._inner, name)


def _wrap_sample(dom, tape, flag):
    real = dom.sample  # bound method of the real class

    def sample(*a, **kw):
        v = real(*a, **kw)
        if flag["on"]:
            tape.append(["v", enc_val(v)])
        return v

    dom.sample = sample


def run_pbt_scenario(spec):
    """spec: {"space", "seed", "n_events", "population_size", "resample_probability", "quantile_fraction", "p2e"}"""
    import syne_tune.optimizer.schedulers.pbt as pbt_mod

    rng = random.Random(spec["seed"])
    cs = build_space(spec["space"])
    max_t = 6
    sch = PopulationBasedTraining(
        dict(cs), metric=METRIC, mode=spec.get("mode", "min"), resource_attr=RES, max_t=max_t,
        population_size=spec["population_size"], perturbation_interval=spec.get("perturbation_interval", 1),
        quantile_fraction=spec["quantile_fraction"], resample_probability=spec["resample_probability"],
        random_seed=spec["seed"] % 100000, points_to_evaluate=spec.get("p2e"))
    tape, flag = [], {"on": False}
    rs = _RandRecorder(sch._random_state, tape)
    sch._random_state = rs
    for d in sch.config_space.values():
        if isinstance(d, Domain):
            _wrap_sample(d, tape, flag)
    lines, events = [], []
    hdr = {"stream": "searcher", "kind": "pbt", "space": model_space(sch.config_space),
           "up": frac_str(1.2), "down": frac_str(0.8), "resample": frac_str(float(spec["resample_probability"]))}
    from syne_tune.config_space import config_space_size
    lines.append((hdr, {"size": config_space_size(sch.config_space), "wf": True}))
    real_explore = sch._explore

    def explore(config):
        del tape[:]
        flag["on"] = rs.active = True
        try:
            new = real_explore(config)
        finally:
            flag["on"] = rs.active = False
        hints = []
        for k, d in sch.config_space.items():
            if isinstance(d, FiniteRange) and new[k] in d.values:
                hints.append([k, d.values.index(new[k])])
        try:
            inp = {"op": "explore", "config": enc_config(config), "tape": list(tape), "hints": hints}
            lines.append((inp, {"explored": enc_config(new)}))
        except TypeError as e:  # value of a type the wire cannot carry: left to the monitor
            events.append({"ev": "explore-unencodable", "why": str(e)})
        events.append({"ev": "explore", "old": dict(config), "new": dict(new)})
        return new

    sch._explore = explore
    trials, running = {}, {}
    next_tid = 0
    for _ in range(spec["n_events"]):
        if len(running) < spec["population_size"] and (not running or rng.random() < 0.5):
            sg = sch.suggest(next_tid)
            if sg is None:
                events.append({"ev": "none"})
                break
            tid = next_tid
            next_tid += 1
            trials[tid] = Trial(tid, sg.config, EPOCH0)
            sch.on_trial_add(trials[tid])
            running[tid] = 1
            events.append({"ev": "suggest", "trial": tid, "config": dict(sg.config), "level": "scheduler",
                           "from_checkpoint": sg.checkpoint_trial_id})
        elif running:
            tid = rng.choice(sorted(running))
            r = running[tid]
            res = {METRIC: rng.randrange(0, 64) / 64.0, RES: r}
            d = sch.on_trial_result(trials[tid], dict(res))
            if d != "CONTINUE":
                sch.on_trial_remove(trials[tid])
                del running[tid]
            else:
                running[tid] = r + 1
            events.append({"ev": "result", "trial": tid})
    return {"lines": lines, "events": events, "cs": sch.config_space, "sched": sch, "hp_cs": cs}


# ---------------------------------------------------------------------------------
# GP searchers: final exclusion filter of the BO loop, state codec; suggestions monitored


def to_tagged(x):
    if x is None:
        return {"t": "null"}
    if isinstance(x, (bool, np.bool_)):
        raise TypeError("bool in state")
    if isinstance(x, (int, np.integer)):
        return {"t": "int", "v": int(x)}
    if isinstance(x, (float, np.floating)):
        if x == 0 and math.copysign(1.0, float(x)) < 0:
            return {"t": "nzero"}
        return {"t": "num", "v": frac_str(float(x))}
    if isinstance(x, str):
        return {"t": "str", "v": x}
    if isinstance(x, (list, tuple)):
        return {"t": "arr", "v": [to_tagged(y) for y in x]}
    if isinstance(x, dict):
        return {"t": "obj", "v": [[str(k), to_tagged(v)] for k, v in x.items()]}
    raise TypeError(f"cannot encode {type(x)}")


def run_gp_scenario(spec):
    """spec: {"space", "seed", "sched": "fifo"|"hb-stopping"|"hb-promotion", "n_suggest", "num_init_random",
              "p2e", "p_fail", "allow_duplicates"}"""
    import syne_tune.optimizer.schedulers.searchers.bayesopt.tuning_algorithms.bo_algorithm as bo
    from syne_tune.optimizer.schedulers.searchers.gp_searcher_utils import decode_state, encode_state

    rng = random.Random(spec["seed"])
    cs = build_space(spec["space"])
    max_t = 9
    so = {"num_init_random": spec["num_init_random"], "debug_log": False, "num_init_candidates": spec.get("num_init_candidates", 12),
          "opt_maxiter": 8, "opt_nstarts": 1, "allow_duplicates": spec.get("allow_duplicates", False)}
    common = dict(searcher="bayesopt", metric=METRIC, mode="min", random_seed=spec["seed"] % 100000,
                  search_options=so, points_to_evaluate=spec.get("p2e"))
    if spec["sched"] == "fifo":
        sch = FIFOScheduler(dict(cs), **common)
    else:
        sch = HyperbandScheduler(dict(cs), resource_attr=RES, max_t=max_t, grace_period=1, reduction_factor=3,
                                 type=spec["sched"].split("-")[1], searcher_data=spec.get("searcher_data", "rungs"), **common)
    lines, events = [], []
    from syne_tune.config_space import config_space_size
    hdr = {"stream": "searcher", "kind": "stateless", "space": model_space(cs)}
    lines.append((hdr, {"size": config_space_size(cs), "wf": True}))
    real_pick = bo._pick_from_locally_optimized
    picks = []

    face_rng = random.Random(spec["seed"] + 4242)

    def rec_pick(candidates_with_optimization, exclusion_candidates, num_candidates, duplicate_detector):
        seen = []

        def gen():
            # the optimiser of the acquisition function works on the closed unit cube: now and then its best point lies on a
            # face (here: a vertex, decoded by the searcher's own ranges object) - a legal proposal like any other
            if face_rng.random() < spec.get("p_face", 0.25):
                try:
                    hr = sch.searcher.hp_ranges if hasattr(sch.searcher, "hp_ranges") else sch.searcher._hp_ranges
                    v = np.array([float(face_rng.getrandbits(1)) for _ in range(hr.ndarray_size)])
                    lo_hi = hr.get_ndarray_bounds()
                    v = np.array([min(max(x, a), b) for x, (a, b) in zip(v, lo_hi)])
                    fc = hr.from_ndarray(v)
                    seen.append((dict(fc), dict(fc)))
                    yield dict(fc), dict(fc)
                except Exception:  # noqa
                    pass
            for o, p in candidates_with_optimization:
                seen.append((dict(o), dict(p)))
                yield o, p

        excl = _excl(exclusion_candidates)
        res = real_pick(gen(), exclusion_candidates, num_candidates, duplicate_detector)
        picks.append((excl, seen, num_candidates, [dict(c) for c in res]))
        return res

    bo._pick_from_locally_optimized = rec_pick
    try:
        trials, running = {}, {}
        next_tid, n_sg = 0, 0
        burst = None   # `p_burst`: one worker is much faster than the others - its trial reports level after level up to its
        #                scheduler decision while the trials of the other workers have not reported yet
        while n_sg < spec["n_suggest"]:
            if burst is not None and burst not in running:
                burst = None
            if running and (burst is not None or rng.random() < 0.55):
                tid = burst if burst is not None else rng.choice(sorted(running))
                if burst is None and spec.get("p_burst") and rng.random() < spec["p_burst"]:
                    burst = tid
                if rng.random() < spec.get("p_fail", 0):
                    sch.on_trial_error(trials[tid])
                    del running[tid]
                    events.append({"ev": "failed", "trial": tid})
                    continue
                r = running[tid]
                lat = (hash_float(spec["seed"], tid) + rng.randrange(-8, 9) / (64.0 * r))
                if spec.get("p_nan") and rng.random() < spec["p_nan"]:
                    lat = rng.choice([float("nan"), float("inf"), float("-inf")])  # a diverged run
                res = {METRIC: lat, RES: r}
                d = sch.on_trial_result(trials[tid], dict(res))
                if d != "CONTINUE":
                    sch.on_trial_remove(trials[tid])
                    del running[tid]
                elif r >= max_t or spec["sched"] == "fifo":
                    sch.on_trial_complete(trials[tid], dict(res))
                    del running[tid]
                else:
                    running[tid] = r + 1
                events.append({"ev": "result", "trial": tid})
                continue
            del picks[:]
            sg = sch.suggest(next_tid)
            n_sg += 1
            for excl, seen, num, res in picks:
                try:
                    inp = {"op": "bo_pick", "excl": excl, "num": int(num),
                           "pairs": [[enc_config(o), enc_config(p)] for o, p in seen]}
                    lines.append((inp, {"result": [enc_config(c) for c in res]}))
                except TypeError as e:
                    events.append({"ev": "pick-unencodable", "why": str(e)})
                events.append({"ev": "bo_pick", "excl": excl, "result": res, "pairs": seen})
            if sg is None:
                events.append({"ev": "none", "excl": _excl(sch.searcher._get_exclusion_candidates())})
                break
            if not sg.spawn_new_trial_id:
                rt = int(sg.checkpoint_trial_id)
                running[rt] = running.get(rt, 1)
                events.append({"ev": "resume", "trial": rt})
                continue
            tid = next_tid
            next_tid += 1
            trials[tid] = Trial(tid, sg.config, EPOCH0)
            sch.on_trial_add(trials[tid])
            running[tid] = 1
            events.append({"ev": "suggest", "trial": tid, "config": dict(sg.config), "level": "scheduler",
                           "model_based": bool(picks)})
            if rng.random() < 0.3:
                # state codec on the live bookkeeping state
                st = sch.searcher.state_transformer.state
                enc = encode_state(st)
                dec = decode_state(pickle.loads(pickle.dumps(enc)), sch.searcher._hp_ranges_in_state())
                try:
                    out = {"reenc": to_tagged(encode_state(dec)),
                           "pending": [[str(p.trial_id), None if p.resource is None else int(p.resource)] for p in dec.pending_evaluations],
                           "failed": [str(t) for t in dec.failed_trials],
                           "observed": [str(e.trial_id) for e in dec.trials_evaluations],
                           "all_ms": _excl(sch.searcher._get_exclusion_candidates())}
                    lines.append(({"op": "codec", "enc": to_tagged(enc)}, out))
                    # field-wise equality (TuningJobState.__eq__ compares PendingEvaluation objects by identity)
                    same = (dec.config_for_trial == st.config_for_trial and dec.trials_evaluations == st.trials_evaluations
                            and list(dec.failed_trials) == list(st.failed_trials)
                            and [(p.trial_id, p.resource) for p in dec.pending_evaluations]
                            == [(p.trial_id, p.resource) for p in st.pending_evaluations])
                    events.append({"ev": "codec", "equal": bool(same)})
                except TypeError as e:
                    events.append({"ev": "codec-unencodable", "why": str(e)})
    finally:
        bo._pick_from_locally_optimized = real_pick
    return {"lines": lines, "events": events, "cs": cs, "sched": sch, "hp_cs": cs}


def hash_float(seed, tid):
    return random.Random(seed * 7919 + tid).randrange(0, 64) / 64.0


def _plain(c):
    """numpy scalars -> Python values"""
    return None if c is None else {k: (v.item() if isinstance(v, np.generic) else v) for k, v in c.items()}
