"""stream `early` — bookkeeping of speculative early checkpoint removal (C20), real Tuner runs.

The real `Tuner.run()` is executed exactly as `props.c20.run_early` does it (same generator `gen_early_spec`, same scripted
backend of streams/loop.py, same stubbed clock of the callback module); while it runs, the removal callback the Tuner installs
(`HyperbandRemoveCheckpointsCallback` / `HyperbandRemoveCheckpointsBaselineCallback`, created by
`HyperbandScheduler.callback_for_checkpoint_removal`) is tapped PER INSTANCE:

* its public callback methods (`on_tuning_start`, `on_start_trial`, `on_resume_trial`, `on_trial_result`, `on_trial_complete`,
  `on_loop_end`) — each call becomes one operation line for `SyneTune/Drivers/Early.lean`, with a snapshot of the callback's
  books taken right after the call returned (or raised);
* `_trials_to_be_removed` — its arguments (the filtered list, `num_to_remove`) and its answer: the ORACLE input of the model;
* `self._scheduler.terminator.paused_trials()` as returned inside `on_loop_end`, through a delegating proxy put in place of
  `self._scheduler` after `on_tuning_start` (the scheduler itself is untouched);
* `self._trial_backend.delete_checkpoint(...)`, through a delegating proxy put in place of `self._trial_backend`.

The only class-level change is a wrapper of `HyperbandRemoveCheckpointsCommon.__init__` that registers each new instance with the
tap for the duration of the run (the Tuner builds the callback inside its constructor, which `loop.run_loop` calls); it is
restored afterwards.  Nothing in /repo is edited.

FORCED (compared exactly, per operation): whether `on_loop_end` raised and what; whether `_trials_to_be_removed` was consulted,
with which filtered list and which `num_to_remove`; the ids handed to `delete_checkpoint` (as a set per loop end, given the
recorded picks); `_trial_status` and `_trials_with_checkpoints_removed` in insertion order; `_num_checkpoints_removed`,
`_num_trials_resumed`, `_trials_resumed_without_checkpoint`; `_count_trials_with_checkpoints()`.
FREE: which admissible entries `_trials_to_be_removed` picks (scores from estimated probabilities and a clock, a random draw, or
rung level and rank) — adopted by the model after it checked them (number, membership in the filtered list, no trial twice); an
inadmissible answer is a disagreement.  Also free: a failure of `_trials_to_be_removed` on a NON-EMPTY filtered list (the score
computation of the estimator variant raises ValueError when every candidate already meets its promotion condition); that the
estimator variant raises on an EMPTY filtered list, and the baselines do not, is forced.
"""
import contextlib
import importlib

EARLY_CB_MODULE = "syne_tune.callbacks.hyperband_remove_checkpoints_callback"
DRIVER = "SyneTune/Drivers/Early.lean"

FORCED_KEYS = ("result", "consulted", "num_to_remove", "filtered", "status", "removed", "num_removed", "num_resumed",
               "resumed_no_cp", "count")


def _c20():
    # imported late: props.c20 is meant to import this module once the stream is merged into it
    from props import c20
    return c20


def gen_case(rng, tier):
    spec = _c20().gen_early_spec(rng, tier)
    spec["kind"] = "early"
    return spec


# ---------------------------------------------------------------------------------
# the tap


class _TerminatorProxy:
    def __init__(self, real, tap):
        object.__setattr__(self, "_real", real)
        object.__setattr__(self, "_tap", tap)

    def paused_trials(self, resource=None):
        v = self._real.paused_trials(resource) if resource is not None else self._real.paused_trials()
        if resource is None and self._tap.in_loop_end:
            self._tap.paused_seen.append(list(v))
        return v

    def __getattr__(self, name):
        return getattr(self._real, name)

    def __setattr__(self, name, value):
        setattr(self._real, name, value)


class _SchedulerProxy:
    """stands where the callback keeps `tuner.scheduler`; everything is the real scheduler's, `terminator` is handed out
    behind a recording proxy"""

    def __init__(self, real, tap):
        object.__setattr__(self, "_real", real)
        object.__setattr__(self, "_tap", tap)

    @property
    def terminator(self):
        return _TerminatorProxy(self._real.terminator, self._tap)

    def __getattr__(self, name):
        return getattr(self._real, name)

    def __setattr__(self, name, value):
        setattr(self._real, name, value)


class _BackendProxy:
    def __init__(self, real, tap):
        object.__setattr__(self, "_real", real)
        object.__setattr__(self, "_tap", tap)

    def delete_checkpoint(self, trial_id):
        self._tap.deletes.append(int(trial_id))
        self._tap.all_deletes.append(int(trial_id))
        try:
            return self._real.delete_checkpoint(trial_id)
        except BaseException:
            self._tap.env_raised = True   # the environment (an injected error of the recorder) failed, not the callback
            raise

    def __getattr__(self, name):
        return getattr(self._real, name)

    def __setattr__(self, name, value):
        setattr(self._real, name, value)


def _i(v):
    return None if v is None else int(v)


def _pairs(entries):
    # PausedTrialsResult entries are (trial_id, rank, metric_val, level)
    return [[int(e[0]), int(e[3])] for e in entries]


class Tap:
    def __init__(self, cb):
        self.cb = cb
        self.lines = []
        self.ops = []            # what the monitor reads: (op dict, impl dict)
        self.in_loop_end = False
        self.paused_seen = []
        self.oracle = None       # (filtered, num_to_remove, answer | None, raised | None) of the current on_loop_end
        self.deletes = []
        self.all_deletes = []
        self.env_raised = False
        self.dead = None         # set when the run left the callback in a state no operation line describes
        self.started = False
        self.variant = None
        for name in ("on_tuning_start", "on_start_trial", "on_resume_trial", "on_trial_result", "on_trial_complete",
                     "on_loop_end", "_trials_to_be_removed"):
            setattr(cb, name, getattr(self, "w_" + name)(getattr(cb, name)))

    # -- snapshots
    def snapshot(self):
        cb = self.cb
        return {
            "status": [[int(k), str(v)] for k, v in cb._trial_status.items()],
            "removed": [[int(k), _i(v)] for k, v in cb._trials_with_checkpoints_removed.items()],
            "num_removed": int(cb._num_checkpoints_removed),
            "num_resumed": int(cb._num_trials_resumed),
            "resumed_no_cp": [[int(k), _i(v)] for k, v in cb._trials_resumed_without_checkpoint],
            "count": int(cb._count_trials_with_checkpoints()),
        }

    def emit(self, op, extra=None, raised=None):
        if self.dead is not None or not self.started:
            return
        impl = {"result": "ok" if raised is None else "raised:" + type(raised).__name__, "deleted": [], "consulted": False,
                "filtered": [], "num_to_remove": 0}
        if extra:
            impl.update(extra)
        impl.update(self.snapshot())
        self.lines.append((op, impl))
        self.ops.append((op, impl))

    def plain(self, op_of):
        def deco(orig):
            def w(*a, **k):
                try:
                    v = orig(*a, **k)
                except BaseException as ex:  # noqa
                    self.emit(op_of(*a, **k), raised=ex)
                    raise
                self.emit(op_of(*a, **k))
                return v
            return w
        return deco

    # -- wrappers
    def w_on_tuning_start(self, orig):
        def w(tuner):
            orig(tuner)
            cb = self.cb
            cb._scheduler = _SchedulerProxy(cb._scheduler, self)
            cb._trial_backend = _BackendProxy(cb._trial_backend, self)
            name = type(cb).__name__
            self.variant = "estimator" if name == "HyperbandRemoveCheckpointsCallback" else str(getattr(cb, "_baseline", "?"))
            self.started = True
            head = {"stream": "early", "max_num_checkpoints": int(cb.max_num_checkpoints), "variant": self.variant}
            self.emit(head)
        return w

    def w_on_start_trial(self, orig):
        return self.plain(lambda trial: {"op": "start", "trial": int(trial.trial_id)})(orig)

    def w_on_resume_trial(self, orig):
        return self.plain(lambda trial: {"op": "resume", "trial": int(trial.trial_id)})(orig)

    def w_on_trial_complete(self, orig):
        return self.plain(lambda trial, result: {"op": "complete", "trial": int(trial.trial_id)})(orig)

    def w_on_trial_result(self, orig):
        return self.plain(lambda trial, status, result, decision:
                          {"op": "result", "trial": int(trial.trial_id), "decision": str(decision)})(orig)

    def w__trials_to_be_removed(self, orig):
        def w(paused_trials_with_checkpoints, num_to_remove):
            filt = _pairs(paused_trials_with_checkpoints)
            try:
                v = orig(paused_trials_with_checkpoints, num_to_remove)
            except BaseException as ex:  # noqa
                self.oracle = (filt, int(num_to_remove), None, ex)
                raise
            self.oracle = (filt, int(num_to_remove), [[int(ti.trial_id), int(ti.level)] for ti in v], None)
            return v
        return w

    def w_on_loop_end(self, orig):
        def w():
            self.in_loop_end = True
            self.paused_seen, self.oracle, self.deletes, self.env_raised = [], None, [], False
            raised = None
            try:
                orig()
            except BaseException as ex:  # noqa
                raised = ex
            finally:
                self.in_loop_end = False
            if raised is not None and (self.env_raised or not isinstance(raised, Exception)):
                # `delete_checkpoint` itself failed (error injected by the recorder, cut of a runaway loop): the callback is
                # left in the middle of its removal loop and the Tuner ends; no operation describes that
                self.dead = "environment raised inside on_loop_end"
                raise raised
            paused = _pairs(self.paused_seen[0]) if self.paused_seen else []
            op = {"op": "loop_end", "paused": paused, "picks": []}
            extra = {"deleted": list(self.deletes), "n_paused_calls": len(self.paused_seen)}
            if self.oracle is not None:
                filt, n, ans, _ = self.oracle
                op["picks"] = ans   # None: the oracle itself raised
                extra["oracle_raised"] = ans is None
                extra.update({"consulted": True, "filtered": filt, "num_to_remove": n})
            self.emit(op, extra, raised)
            if raised is not None:
                raise raised
        return w


@contextlib.contextmanager
def tapped():
    """while active, every removal callback that is constructed gets a `Tap` (returned list)"""
    mod = importlib.import_module(EARLY_CB_MODULE)
    cls = mod.HyperbandRemoveCheckpointsCommon
    orig_init = cls.__init__
    taps = []

    def init(self, *a, **k):
        orig_init(self, *a, **k)
        taps.append(Tap(self))

    cls.__init__ = init
    try:
        yield taps
    finally:
        cls.__init__ = orig_init


# ---------------------------------------------------------------------------------
# direct reading of the clauses of C20 that concern the callback, on the recorded operations


def F(sig, what, detail=None):
    return {"signature": sig, "what": what, "detail": detail}


def monitor_bookkeeping(tap, judge=True):
    """`judge=False` (direct cases that deliberately break the life cycle or hand in a dishonest list): only the counters of
    `extra_results()` are judged.  The truth is kept from the operations alone (what the Tuner told the callback and what the callback deleted), not from
    the callback's books: a trial is `running` after start / resume / result CONTINUE, `paused` after result PAUSE,
    `paused-deleted` after its checkpoint was handed to delete_checkpoint, `done` after result STOP / complete."""
    out, hist = [], {}

    def bump(k, n=1):
        hist[k] = hist.get(k, 0) + n

    truth, lvl_deleted = {}, {}
    n_resumes, expect_no_cp = 0, []
    max_cp = None
    for op, impl in tap.ops:
        if "stream" in op:
            max_cp = op["max_num_checkpoints"]
            continue
        kind = op["op"]
        bump("op:" + kind)
        if kind == "start":
            truth[op["trial"]] = "running"
        elif kind == "resume":
            n_resumes += 1
            if truth.get(op["trial"]) == "paused-deleted":
                expect_no_cp.append([op["trial"], lvl_deleted[op["trial"]]])
            truth[op["trial"]] = "running"
        elif kind == "result":
            truth[op["trial"]] = {"CONTINUE": "running", "PAUSE": "paused", "STOP": "done"}[op["decision"]]
        elif kind == "complete":
            truth[op["trial"]] = "done"
        elif kind == "loop_end":
            bump("loop-ends")
            if impl["result"] != "ok":
                bump("loop-ends-raising:" + str(tap.variant) + ":" + impl["result"])
                if impl["consulted"] and not impl["filtered"]:
                    bump("raises-with-nothing-left-to-choose:" + str(tap.variant))
                elif impl["consulted"]:
                    bump("raises-in-the-oracle-on-a-non-empty-list:" + str(tap.variant))
                continue
            if impl["consulted"]:
                bump("loop-ends-consulting-the-oracle")
                if not impl["filtered"]:
                    bump("empty-filtered-list-no-raise:" + str(tap.variant))
            levels = {t: l for t, l in op["picks"]}
            if impl["deleted"]:
                bump("loop-ends-with-removals")
                bump("picks", len(impl["deleted"]))
            seen = set()
            for tid in impl["deleted"]:
                st = truth.get(tid, "never-started")
                if judge and (st != "paused" or tid in seen):
                    what = "deleted twice in one on_loop_end" if tid in seen else st
                    out.append(F("c20early:removes-checkpoint-of-trial-not-paused-with-checkpoint:" + ("twice" if tid in seen else st),
                                 f"on_loop_end handed trial {tid} to delete_checkpoint, which by the events the callback was told is "
                                 f"{what} (only paused trials that still have a checkpoint may be chosen)",
                                 {"trial": tid, "state": st, "op_index": tap.ops.index((op, impl))}))
                seen.add(tid)
            for tid in impl["deleted"]:
                truth[tid] = "paused-deleted"
                lvl_deleted[tid] = levels.get(tid)
            # the promise: no more than max_num_checkpoints checkpoints kept, unless running trials alone exceed it —
            # judged only when the scheduler's list covered every paused trial that still has a checkpoint
            run = [t for t, s in truth.items() if s == "running"]
            kept = [t for t, s in truth.items() if s == "paused"]
            listed = {t for t, _ in op["paused"]}
            if judge and max_cp is not None and len(run) + len(kept) > max(max_cp, len(run)):
                if all(t in listed for t in kept):
                    out.append(F("c20early:too-many-checkpoints-kept",
                                 f"after on_loop_end {len(run)} running and {len(kept)} paused trials keep a checkpoint "
                                 f"(max_num_checkpoints={max_cp}) although every one of the paused trials was in the scheduler's list",
                                 {"running": sorted(run), "paused_with_checkpoint": sorted(kept)}))
                else:
                    bump("promise-not-judged:scheduler-list-incomplete")
            else:
                bump("promise-checked")
    if tap.dead is None and tap.started:
        cb = tap.cb
        got = [[int(t), _i(l)] for t, l in cb.trials_resumed_without_checkpoint()]
        ex = cb.extra_results()
        bump("resumes", n_resumes)
        bump("resumes-without-checkpoint", len(expect_no_cp))
        if judge and got != expect_no_cp:
            out.append(F("c20early:trials-resumed-without-checkpoint-wrong",
                         f"trials_resumed_without_checkpoint() = {got}, but the resumes of trials whose checkpoint had been deleted "
                         f"since their last pause are {expect_no_cp}", {"got": got, "expected": expect_no_cp}))
        if ex.get("num_checkpoints_removed") != len(tap.all_deletes) or ex.get("num_trials_resumed") != n_resumes:
            out.append(F("c20early:extra-results-miscount",
                         f"extra_results() = {ex}; delete_checkpoint was called {len(tap.all_deletes)} times and {n_resumes} trials "
                         f"were resumed", {"extra_results": {k: int(v) for k, v in ex.items()}}))
    return out, hist


# ---------------------------------------------------------------------------------
# direct cases: the callback classes driven without a Tuner, so that histories outside the Tuner's life cycle (which the
# theorems also cover: `OpOK` is weaker than the life cycle, several theorems need no contract at all) are tied to the model too


class _StubTerminator:
    def __init__(self, seed):
        import numpy as np
        self.random_state = np.random.RandomState(seed)
        self.listing = []     # PausedTrialsResult the next paused_trials() returns
        self.rungs = []       # information_for_rungs()

    def paused_trials(self, resource=None):
        return [e for e in self.listing if resource is None or e[3] == resource]

    def information_for_rungs(self):
        return list(self.rungs)


class _StubScheduler:
    def __init__(self, seed):
        self.terminator = _StubTerminator(seed)


class _StubBackend:
    delete_checkpoints = True

    def __init__(self):
        self.deleted = []

    def delete_checkpoint(self, trial_id):
        self.deleted.append(int(trial_id))


LEVELS = (1, 3, 9)


def gen_direct(rng, tier):
    variant = rng.choice(["estimator", "estimator", "random", "by_level", "none"])
    honest = rng.random() < 0.4
    n_ops = rng.randint(20, 60 if tier == "quick" else 160)
    return {"kind": "early-direct", "seed": rng.randrange(10 ** 9), "variant": variant, "honest": honest,
            "max_num_checkpoints": rng.choice([0, 1, 1, 2, 2, 3, 4]), "n_ops": n_ops, "n_ids": rng.randint(3, 8),
            "p_wild": 0.0 if honest else rng.choice([0.05, 0.15, 0.4]),
            "p_list_drop": 0.0 if honest else rng.choice([0.0, 0.2]), "p_list_extra": 0.0 if honest else rng.choice([0.0, 0.1, 0.3]),
            "prom_quant": rng.choice([0.25, 1 / 3, 0.5]), "cb_clock_step": rng.choice([0.001, 0.05, 0.5, 2.0])}


def run_direct(spec):
    import random
    from datetime import datetime
    from types import SimpleNamespace
    from syne_tune.backend.trial_status import Trial
    rng = random.Random(spec["seed"])
    c20 = _c20()
    mod = importlib.import_module(EARLY_CB_MODULE)
    old_time = mod.time
    mod.time = c20._CounterClock(spec.get("cb_clock_step", 0.05))
    hist = {"kind:early-direct": 1, "direct:honest" if spec["honest"] else "direct:wild": 1}
    try:
        with tapped() as taps:
            kw = dict(max_num_checkpoints=spec["max_num_checkpoints"], max_wallclock_time=100, metric="loss", resource_attr="epoch",
                      mode="min")
            if spec["variant"] == "estimator":
                cb = mod.HyperbandRemoveCheckpointsCallback(**kw)
            else:
                cb = mod.HyperbandRemoveCheckpointsBaselineCallback(baseline=None if spec["variant"] == "none" else spec["variant"], **kw)
        tap = taps[0]
        sch, be = _StubScheduler(spec["seed"] % 1000), _StubBackend()
        term = sch.terminator
        cb.on_tuning_start(SimpleNamespace(scheduler=sch, trial_backend=be))
        trial = lambda t: Trial(trial_id=t, config={}, creation_time=datetime(2020, 1, 1))  # noqa
        truth, level, nxt = {}, {}, 0   # tid -> running | paused | done ; tid -> level of the last pause / next level
        metric = lambda: rng.randrange(0, 64) / 8.0  # noqa

        def set_listing():
            ent = [(t, level[t]) for t, s_ in truth.items() if s_ == "paused" and rng.random() >= spec["p_list_drop"]]
            for t in sorted(set(truth) | {nxt + 5}):   # the list never names a trial twice (assumption of the model)
                if truth.get(t) != "paused" and rng.random() < spec["p_list_extra"]:
                    ent.append((t, rng.choice(LEVELS)))
            rng.shuffle(ent)
            by_level, listing = {}, []
            for t, l in ent:
                by_level.setdefault(l, []).append(t)
            for l in sorted(by_level):
                for pos, t in enumerate(by_level[l]):
                    listing.append((str(t), pos, metric(), l))
            term.listing = listing
            term.rungs = [(l, len(by_level.get(l, [])) + rng.randint(0, 3), spec["prom_quant"]) for l in reversed(LEVELS)]

        set_listing()
        for _ in range(spec["n_ops"]):
            wild = rng.random() < spec["p_wild"]
            run = [t for t, s_ in truth.items() if s_ == "running"]
            pau = [t for t, s_ in truth.items() if s_ == "paused"]
            kind = rng.choice(["start", "start", "resume", "result", "result", "result", "complete", "loop_end", "loop_end"])
            try:
                if kind == "loop_end":
                    set_listing()
                    try:
                        cb.on_loop_end()
                    except ValueError:
                        # a Tuner would end here; the books are untouched (that is compared), so the case goes on
                        hist["direct:loop-ends-raising"] = hist.get("direct:loop-ends-raising", 0) + 1
                    continue
                if wild:
                    t = rng.randrange(0, spec["n_ids"] + 2)
                elif kind == "start":
                    t, nxt = nxt, nxt + 1
                elif kind == "resume":
                    if not pau:
                        continue
                    t = rng.choice(pau)
                else:
                    if not run:
                        continue
                    t = rng.choice(run)
                if kind == "start":
                    cb.on_start_trial(trial(t))
                    truth[t], level[t] = "running", LEVELS[0]
                elif kind == "resume":
                    cb.on_resume_trial(trial(t))
                    truth[t] = "running"
                    level[t] = LEVELS[min(LEVELS.index(level.get(t, LEVELS[0])) + 1, len(LEVELS) - 1)]
                elif kind == "complete":
                    cb.on_trial_complete(trial(t), {"loss": metric(), "epoch": level.get(t, 1)})
                    truth[t] = "done"
                else:
                    d = rng.choice(["CONTINUE", "CONTINUE", "PAUSE", "PAUSE", "PAUSE", "STOP"])
                    lv = level.setdefault(t, LEVELS[0])
                    if d == "PAUSE":
                        # the scheduler registers the trial in the rung before the callback hears of the decision
                        term.listing = term.listing + [(str(t), len(term.listing), metric(), lv)]
                    cb.on_trial_result(trial=trial(t), status="in_progress", result={"loss": metric(), "epoch": lv}, decision=d)
                    truth[t] = {"CONTINUE": "running", "PAUSE": "paused", "STOP": "done"}[d]
            except Exception as ex:  # noqa  (what was raised is on the operation's line)
                hist["direct:ended-by:" + type(ex).__name__] = 1
                break
        mon, h2 = monitor_bookkeeping(tap, judge=spec["honest"])
        for k, v in h2.items():
            hist["bk:" + k] = hist.get("bk:" + k, 0) + v
        hist["bk:variant=" + str(tap.variant)] = 1
        return {"lines": tap.lines, "driver": DRIVER, "monitor": mon,
                "meta": {"hist": hist, "removals": h2.get("picks", 0), "nontrivial": h2.get("picks", 0) > 0}}
    finally:
        mod.time = old_time


# ---------------------------------------------------------------------------------
# stream interface


def run_impl(spec):
    if spec.get("kind") == "early-direct":
        return run_direct(spec)
    with tapped() as taps:
        r = _c20().run_early(spec)
    hist = dict(r["meta"]["hist"])
    mon = list(r["monitor"])
    lines = []
    hist["early-taps"] = len(taps)
    removals = resumes_no_cp = 0
    for tap in taps[:1]:
        m2, h2 = monitor_bookkeeping(tap)
        mon += m2
        for k, v in h2.items():
            hist["bk:" + k] = hist.get("bk:" + k, 0) + v
        hist["bk:variant=" + str(tap.variant)] = 1
        if tap.dead is not None:
            hist["bk:tap-ended:" + tap.dead] = 1
        lines = tap.lines
        removals = h2.get("picks", 0)
        resumes_no_cp = h2.get("resumes-without-checkpoint", 0)
    return {"lines": lines, "driver": DRIVER, "monitor": mon,
            "meta": {"hist": hist, "removals": removals, "resumes_no_cp": resumes_no_cp,
                     "nontrivial": removals > 0}}


def compare(inp, impl, model):
    from framework import canon
    if impl is None:
        return None
    if "err" in model:
        return f"model error {model['err']}; impl gave {canon(impl)[:300]}"
    mo = model["out"]
    if "stream" in inp:
        for k in ("status", "removed", "num_removed", "num_resumed", "resumed_no_cp", "count"):
            if canon(impl[k]) != canon(mo[k]):
                return f"after on_tuning_start, {k}: impl {canon(impl[k])[:200]} model {canon(mo[k])[:200]}"
        return None
    if inp["op"] != "loop_end" and impl["result"] != "ok":
        return f"{inp['op']} of the callback {impl['result']}; the model has no such outcome"
    if mo["result"] == "raised:oracle":
        # the oracle's own failure on a non-empty list is an input; that on_loop_end passes it on and leaves the books alone is forced
        if not (impl["result"].startswith("raised:") and impl.get("oracle_raised")):
            return f"model: the failure of _trials_to_be_removed leaves on_loop_end; impl {impl['result']}"
        mo = dict(mo, result=impl["result"])
    if mo["result"].startswith("rejected") and impl["result"] == "ok":
        return (f"_trials_to_be_removed answered {canon(inp['picks'])[:200]} for the filtered list "
                f"{canon(impl['filtered'])[:200]} and num_to_remove={impl['num_to_remove']}; the model finds this "
                f"{mo['result']} (its filtered list: {canon(mo['filtered'])[:200]}, its num_to_remove: {mo['num_to_remove']})")
    for k in FORCED_KEYS:
        if canon(impl[k]) != canon(mo[k]):
            return f"key {k}: impl {canon(impl[k])[:300]} model {canon(mo[k])[:300]}"
    if sorted(impl["deleted"]) != sorted(mo["deleted"]):
        return f"ids handed to delete_checkpoint: impl {sorted(impl['deleted'])} model {sorted(mo['deleted'])}"
    if inp["op"] == "loop_end" and impl["n_paused_calls"] != (1 if mo["consulted"] else 0):
        return f"terminator.paused_trials() called {impl['n_paused_calls']} times inside on_loop_end, model: consulted={mo['consulted']}"
    return None


def post_case(trace, model_outputs):
    """the model's judgement of the INPUTS of the run (does each operation meet the contract `OpOK` under which the theorems
    speak, the stronger `NaturalOK`, and is the scheduler's list complete when it is consulted) goes into the histogram"""
    hist = trace.get("meta", {}).setdefault("hist", {})
    for (inp, _), m in zip(trace["lines"], model_outputs):
        o = m.get("out") or {}
        if "stream" in inp:
            continue
        for k in ("op_ok", "natural_ok", "list_complete"):
            if k == "list_complete" and not (inp["op"] == "loop_end" and o.get("consulted")):
                continue   # the scheduler's list is only asked for beyond the limit
            if k in o:
                key = "contract:%s:%s:%s" % (k, "met" if o[k] else "NOT-met", inp["op"])
                hist[key] = hist.get(key, 0) + 1
    return []


def nontrivial(trace):
    return bool(trace.get("meta", {}).get("nontrivial"))
