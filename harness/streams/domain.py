"""
Stream `domain` (C07): the real `Domain` classes of `syne_tune/config_space.py` and the real
`make_hyperparameter_ranges(...)` encoders of /repo, driven with generated bounds, tape
(stub) `random_state` objects, every cube corner plus interior points.  Produces the line
protocol consumed by `lean/SyneTune/Drivers/Domain.lean` together with the observed
outputs, and the property monitor (a direct reading of C07 on the real objects).

Wire formats
  VAL   {"t":"int","v":3} | {"t":"float","v":"n/d"} | {"t":"str","v":"a"}
  DOM   {"k":"float","lower":R,"upper":R,"scale":"lin|log|rlog","q":R|null}
        {"k":"int","lower":I,"upper":I,"scale":"lin|log","q":I|null}
        {"k":"cat","cats":[VAL..],"ordinal":bool}
        {"k":"nn","cats":[VAL..],"log":bool}
        {"k":"fin","lower":R,"upper":R,"size":N,"log":bool,"cast_int":bool}
"""
import json
import logging
import math
import random
from fractions import Fraction

import numpy as np

logging.disable(logging.CRITICAL)

from syne_tune import config_space as CS
from syne_tune.optimizer.schedulers.searchers.utils import hp_ranges_impl as HI
from syne_tune.optimizer.schedulers.searchers.utils.hp_ranges_factory import make_hyperparameter_ranges

from framework import frac_str

U_MAX = 1.0 - 2.0 ** -53  # largest double below 1 (boundary draw)

# ---------------------------------------------------------------------------------
# descriptors -> real objects / wire


def build_domain(d):
    """descriptor (plain data, public-constructor arguments) -> real Domain object"""
    k = d["k"]
    if k == "uniform":
        return CS.uniform(d["lo"], d["hi"])
    if k == "loguniform":
        return CS.loguniform(d["lo"], d["hi"])
    if k == "reverseloguniform":
        return CS.reverseloguniform(d["lo"], d["hi"])
    if k == "quniform":
        return CS.quniform(d["lo"], d["hi"], d["q"])
    if k == "qloguniform":
        return CS.qloguniform(d["lo"], d["hi"], d["q"])
    if k == "randint":
        return CS.randint(d["lo"], d["hi"])
    if k == "lograndint":
        return CS.lograndint(d["lo"], d["hi"])
    if k == "qrandint":
        return CS.qrandint(d["lo"], d["hi"], d["q"])
    if k == "qlograndint":
        return CS.qlograndint(d["lo"], d["hi"], d["q"])
    if k == "choice":
        return CS.choice(list(d["cats"]))
    if k == "ordinal":
        return CS.ordinal(list(d["cats"]), kind=d["kind"])
    if k == "finrange":
        return CS.finrange(d["lo"], d["hi"], d["size"], cast_int=d["cast_int"])
    if k == "logfinrange":
        return CS.logfinrange(d["lo"], d["hi"], d["size"], cast_int=d["cast_int"])
    raise ValueError(k)


def val_wire(v):
    if isinstance(v, bool):
        return {"t": "other:bool"}
    if type(v) is int:
        return {"t": "int", "v": v}
    if isinstance(v, float):  # includes np.float64 (a subclass of float)
        return {"t": "float", "v": frac_str(float(v))}
    if type(v) is str:
        return {"t": "str", "v": v}
    if isinstance(v, np.integer):
        return {"t": "npint", "v": int(v)}
    if isinstance(v, np.ndarray) and v.size == 1:
        w = val_wire(v.reshape(-1)[0].item())
        w["t"] = "ndarray:" + w["t"]
        return w
    return {"t": "other:" + type(v).__name__}


def pyval(w):
    if w["t"] == "int":
        return int(w["v"])
    if w["t"] == "float":
        return float(Fraction(w["v"]))
    return w["v"]


def dom_wire(d):
    k = d["k"]
    if k in ("uniform", "loguniform", "reverseloguniform", "quniform", "qloguniform"):
        scale = {"uniform": "lin", "quniform": "lin", "loguniform": "log", "qloguniform": "log",
                 "reverseloguniform": "rlog"}[k]
        return {"k": "float", "lower": frac_str(float(d["lo"])), "upper": frac_str(float(d["hi"])), "scale": scale,
                "q": frac_str(float(d["q"])) if "q" in d else None}
    if k in ("randint", "lograndint", "qrandint", "qlograndint"):
        return {"k": "int", "lower": int(d["lo"]), "upper": int(d["hi"]), "scale": "log" if "log" in k else "lin",
                "q": int(d["q"]) if "q" in d else None}
    if k == "choice":
        return {"k": "cat", "cats": [val_wire(c) for c in d["cats"]], "ordinal": False}
    if k == "ordinal":
        if d["kind"] == "equal":
            return {"k": "cat", "cats": [val_wire(c) for c in d["cats"]], "ordinal": True}
        return {"k": "nn", "cats": [val_wire(c) for c in d["cats"]], "log": d["kind"] == "nn-log"}
    if k in ("finrange", "logfinrange"):
        return {"k": "fin", "lower": frac_str(float(d["lo"])), "upper": frac_str(float(d["hi"])), "size": int(d["size"]),
                "log": k == "logfinrange", "cast_int": bool(d["cast_int"])}
    raise ValueError(k)


def restored_wire(dom):
    """describe a real Domain object (used for the JSON round trip) in DOM wire form"""
    if isinstance(dom, CS.FiniteRange):
        return {"k": "fin", "lower": frac_str(float(dom.lower)), "upper": frac_str(float(dom.upper)), "size": int(dom.size),
                "log": bool(dom.log_scale), "cast_int": bool(dom.cast_int)}
    if isinstance(dom, CS.OrdinalNearestNeighbor):
        return {"k": "nn", "cats": [val_wire(c) for c in dom.categories], "log": bool(dom.log_scale)}
    if isinstance(dom, CS.Categorical):
        return {"k": "cat", "cats": [val_wire(c) for c in dom.categories], "ordinal": isinstance(dom, CS.Ordinal)}
    s = dom.get_sampler()
    q = None
    if isinstance(s, CS.Quantized):
        q = s.q
        s = s.get_sampler()
    if isinstance(dom, CS.Float):
        scale = ("rlog" if isinstance(s, CS.Float._ReverseLogUniform) else
                 "log" if isinstance(s, CS.Float._LogUniform) else
                 "lin" if isinstance(s, CS.Float._Uniform) else "other:" + type(s).__name__)
        return {"k": "float", "lower": frac_str(float(dom.lower)), "upper": frac_str(float(dom.upper)), "scale": scale,
                "q": None if q is None else frac_str(float(q))}
    if isinstance(dom, CS.Integer):
        scale = ("log" if isinstance(s, CS.Integer._LogUniform) else
                 "lin" if isinstance(s, CS.Integer._Uniform) else "other:" + type(s).__name__)
        return {"k": "int", "lower": int(dom.lower), "upper": int(dom.upper), "scale": scale,
                "q": None if q is None else int(q)}
    return {"k": "other:" + type(dom).__name__}


def errname(e):
    if isinstance(e, AssertionError):
        return "assertion"
    if isinstance(e, KeyError):
        return "key-error"
    if isinstance(e, TypeError):
        return "type-error"
    if isinstance(e, NotImplementedError):
        return "not-implemented"
    if isinstance(e, ValueError):
        return "value-error"
    return "other:" + type(e).__name__


# ---------------------------------------------------------------------------------
# tape random state


class TapeRandomState:
    """Stub `random_state`: every draw is a function of the next unit draw `u` of the tape,
    with numpy's own formulas (`uniform` = low + (high-low)*u)."""

    def __init__(self, us):
        self.us = [float(u) for u in us]
        self.pos = 0
        self.record = []  # what was returned, as model input

    def _take(self, size):
        n = 1 if size is None else int(size)
        us = self.us[self.pos:self.pos + n]
        assert len(us) == n, "tape exhausted"
        self.pos += n
        return us

    def uniform(self, low=0.0, high=1.0, size=None):
        us = self._take(size)
        self.record.extend(("u", u) for u in us)
        return low + (high - low) * np.array(us)

    def randint(self, low, high=None, size=None):
        us = self._take(size)
        ks = [min(int(low) + int(math.floor(u * (int(high) - int(low)))), int(high) - 1) for u in us]
        self.record.extend(("k", k) for k in ks)
        return np.array(ks, dtype=np.int64)

    def choice(self, a, size=None):
        us = self._take(size)
        ks = [min(int(math.floor(u * int(a))), int(a) - 1) for u in us]
        self.record.extend(("k", k) for k in ks)
        return np.array(ks, dtype=np.int64)


# ---------------------------------------------------------------------------------
# generator


def _f(x):
    return float(x)


def _mag(rng, lo_dec, hi_dec):
    return 10.0 ** rng.uniform(lo_dec, hi_dec)


def _nextafter(x, k=1):
    for _ in range(k):
        x = math.nextafter(x, math.inf)
    return x


def gen_float_bounds(rng):
    style = rng.choice(["plain", "plain", "plain", "wide", "degenerate", "tiny", "neg", "zero"])
    if style == "degenerate":
        lo = rng.choice([0.0, 1.0, -2.5, _mag(rng, -12, 12)])
        return lo, lo
    if style == "tiny":
        lo = rng.choice([1.0, -1.0, _mag(rng, -8, 8)])
        return lo, _nextafter(lo, rng.choice([1, 2, 5, 1000]))
    if style == "zero":
        return 0.0, _mag(rng, -10, 10)
    if style == "neg":
        hi = -_mag(rng, -6, 6)
        return hi - _mag(rng, -6, 8), hi
    if style == "wide":
        return -_mag(rng, 0, 15), _mag(rng, 0, 15)
    lo = rng.choice([-1, 1]) * _mag(rng, -10, 10)
    return lo, lo + _mag(rng, -8, 10)


def gen_log_bounds(rng):
    style = rng.choice(["plain", "plain", "plain", "wide", "degenerate", "tiny"])
    lo = _mag(rng, -15, 15)
    if style == "degenerate":
        return lo, lo
    if style == "tiny":
        return lo, _nextafter(lo, rng.choice([1, 3, 1000, 10 ** 6]))
    if style == "wide":
        return lo, lo * _mag(rng, 5, 15)
    return lo, lo * (1.0 + _mag(rng, -6, 4))


def gen_rlog_bounds(rng):
    style = rng.choice(["plain", "plain", "zero", "near1", "degenerate", "tiny"])
    if style == "zero":
        return 0.0, rng.choice([0.5, 0.9, 0.999, 1 - 1e-9, 1e-6])
    if style == "degenerate":
        lo = rng.choice([0.0, 0.5, 0.99, rng.random()])
        return lo, lo
    if style == "near1":
        lo = 1 - _mag(rng, -6, -1)
        hi = 1 - (1 - lo) * _mag(rng, -6, 0)
        return (lo, hi) if lo <= hi < 1 else (lo, lo)
    if style == "tiny":
        lo = rng.random() * 0.9
        return lo, _nextafter(lo, rng.choice([1, 10, 10 ** 5]))
    a, b = sorted([rng.random(), rng.random()])
    return a, b


def gen_int_bounds(rng, positive=False):
    style = rng.choice(["small", "small", "small", "medium", "large", "huge", "degenerate"])
    if style == "small":
        lo = rng.randint(1, 20) if positive else rng.randint(-20, 20)
        return lo, lo + rng.choice([0, 1, 2, 3, 5, 9, 30])
    if style == "medium":
        lo = rng.randint(1, 10 ** 5) if positive else rng.randint(-10 ** 5, 10 ** 5)
        return lo, lo + rng.choice([1, 7, 100, 10 ** 4, 10 ** 6])
    if style == "degenerate":
        lo = rng.randint(1, 10 ** 6) if positive else rng.randint(-10 ** 6, 10 ** 6)
        return lo, lo
    e = rng.randint(24, 34) if style == "large" else rng.randint(35, 45)
    lo = rng.randint(2 ** (e - 1), 2 ** e)
    if not positive and rng.random() < 0.5:
        lo = -lo
    return lo, lo + rng.choice([1, 2, 5, 100, 10 ** 6, 2 ** e])


def gen_cats(rng, n, vt):
    if vt == "str":
        pool = ["a", "b", "c", "dd", "E", "f1", "g", "", "0", "1.0"]
        return rng.sample(pool, n)
    if vt == "int":
        return rng.sample(range(-5, 40), n)
    vals = set()
    while len(vals) < n:
        vals.add(rng.choice([0.1, 0.5, 1.0, 2.5, -1.5, 1e-3, 100.0, 1e6, 3.0, 0.25, rng.random()]))
    vals = list(vals)
    rng.shuffle(vals)
    return vals


def gen_increasing(rng, n, vt, positive):
    if vt == "int":
        style = rng.choice(["dense", "spread", "decades"])
        if style == "dense":
            s = rng.randint(1, 5) if positive else rng.randint(-5, 5)
            return [s + i for i in range(n)]
        if style == "spread":
            base = rng.randint(1, 10) if positive else rng.randint(-100, 100)
            out = [base]
            for _ in range(n - 1):
                out.append(out[-1] + rng.choice([1, 1, 2, 5, 17, 100]))
            return out
        out = [rng.randint(1, 9)]
        for _ in range(n - 1):
            out.append(out[-1] * rng.choice([2, 3, 10, 10, 100]) + rng.randint(0, 3))
        return out if positive or rng.random() < 0.7 else [x - out[0] - 3 for x in out]
    style = rng.choice(["grid", "irregular", "decades"])
    if style == "grid":
        s = _mag(rng, -3, 3) if positive else rng.choice([-1, 1]) * _mag(rng, -3, 3)
        st = _mag(rng, -3, 2)
        return [s + i * st for i in range(n)]
    if style == "irregular":
        out = [_mag(rng, -3, 1) if positive else -_mag(rng, -3, 1)]
        for _ in range(n - 1):
            out.append(out[-1] + _mag(rng, -4, 2))
        return out
    out = [_mag(rng, -8, 0)]
    for _ in range(n - 1):
        out.append(out[-1] * _mag(rng, 0.05, 3))
    return out


KINDS = ["uniform", "loguniform", "reverseloguniform", "quniform", "qloguniform", "randint", "lograndint",
         "qrandint", "qlograndint", "choice", "ordinal-equal", "ordinal-nn", "ordinal-nn-log", "finrange",
         "logfinrange"]


def gen_dom(rng, kind=None):
    kind = kind or rng.choice(KINDS)
    for _ in range(50):
        d = _gen_dom(rng, kind)
        try:
            build_domain(d)
            return d
        except (ValueError, AssertionError):
            continue
    raise RuntimeError("generator cannot build " + kind)


def _gen_dom(rng, kind):
    if kind == "uniform":
        lo, hi = gen_float_bounds(rng)
        return {"k": kind, "lo": lo, "hi": hi}
    if kind == "loguniform":
        lo, hi = gen_log_bounds(rng)
        return {"k": kind, "lo": lo, "hi": hi}
    if kind == "reverseloguniform":
        lo, hi = gen_rlog_bounds(rng)
        return {"k": kind, "lo": lo, "hi": hi}
    if kind in ("quniform", "qloguniform"):
        q = rng.choice([0.25, 0.5, 0.1, 0.3, 2.0, 3.0, 1e-3, 0.125])
        i = rng.randint(1, 12) if kind == "qloguniform" else rng.randint(-12, 12)
        j = i + rng.choice([0, 1, 2, 3, 7, 40])
        return {"k": kind, "lo": q * i, "hi": q * j, "q": q}
    if kind == "randint":
        lo, hi = gen_int_bounds(rng)
        return {"k": kind, "lo": lo, "hi": hi}
    if kind == "lograndint":
        lo, hi = gen_int_bounds(rng, positive=True)
        if rng.random() < 0.3:
            hi = min(lo * rng.choice([10, 1000, 10 ** 6, 10 ** 9]), 2 ** 50)
        return {"k": kind, "lo": lo, "hi": max(lo, hi)}
    if kind in ("qrandint", "qlograndint"):
        q = rng.choice([1, 2, 3, 4, 5, 7, 10])
        if rng.random() < 0.5:  # divisible bounds
            i = rng.randint(1, 10) if kind == "qlograndint" else rng.randint(-10, 10)
            j = i + rng.choice([0, 1, 2, 5, 30])
            return {"k": kind, "lo": q * i, "hi": q * j, "q": q}
        lo = rng.randint(1, 30) if kind == "qlograndint" else rng.randint(-30, 30)
        return {"k": kind, "lo": lo, "hi": lo + rng.choice([0, 1, 3, 9, 50]), "q": q}
    if kind == "choice":
        vt = rng.choice(["str", "str", "int", "float"])
        n = rng.choice([1, 2, 2, 3, 3, 4, 5])
        cats = gen_cats(rng, n, vt)
        if n >= 2 and rng.random() < 0.08:
            cats = cats + [cats[0]]  # duplicate entry
        return {"k": "choice", "cats": cats}
    if kind == "ordinal-equal":
        vt = rng.choice(["str", "int", "float"])
        n = rng.choice([1, 2, 3, 4, 6])
        return {"k": "ordinal", "cats": gen_cats(rng, n, vt), "kind": "equal"}
    if kind in ("ordinal-nn", "ordinal-nn-log"):
        vt = rng.choice(["int", "float"])
        n = rng.choice([1, 2, 2, 3, 4, 6])
        log = kind.endswith("log")
        return {"k": "ordinal", "cats": gen_increasing(rng, n, vt, log), "kind": "nn-log" if log else "nn"}
    if kind in ("finrange", "logfinrange"):
        log = kind == "logfinrange"
        cast_int = rng.random() < 0.4
        size = rng.choice([1, 2, 3, 5, 8, 50])
        if cast_int:
            lo = float(rng.randint(1, 30)) if log else float(rng.randint(-30, 30))
            if rng.random() < (0.4 if log else 0.15):
                lo += 0.5
            hi = lo * rng.choice([1, 2, 10, 100, 1000]) if log else lo + rng.choice([0, 1, 1.5, 3, 10, 1000])
            if log:
                size = rng.choice([1, 2, 3, 5, 8, 10, 12])
        elif log:
            lo, hi = gen_log_bounds(rng)
        else:
            lo, hi = gen_float_bounds(rng)
        if rng.random() < 0.1:
            hi = lo
        return {"k": kind, "lo": lo, "hi": hi, "size": size, "cast_int": cast_int}
    raise ValueError(kind)


def gen_active(rng, d):
    """a legal active sub-domain of the same kind (None when the kind does not allow one)"""
    k = d["k"]
    if k in ("finrange", "logfinrange"):
        return None
    if k in ("uniform", "loguniform", "reverseloguniform"):
        lo, hi = d["lo"], d["hi"]
        style = rng.choice(["inner", "inner", "left", "right", "point", "full"])
        a = lo + (hi - lo) * rng.random()
        b = lo + (hi - lo) * rng.random()
        a, b = min(a, b), max(a, b)
        a, b = min(max(a, lo), hi), min(max(b, lo), hi)
        if style == "left":
            a = lo
        elif style == "right":
            b = hi
        elif style == "point":
            b = a
        elif style == "full":
            a, b = lo, hi
        return {"k": k, "lo": a, "hi": b}
    if k in ("quniform", "qloguniform"):
        q = d["q"]
        i, j = round(d["lo"] / q), round(d["hi"] / q)
        a = rng.randint(i, j)
        b = rng.randint(a, j)
        return {"k": k, "lo": q * a, "hi": q * b, "q": q}
    if k in ("randint", "lograndint", "qrandint", "qlograndint"):
        lo, hi = d["lo"], d["hi"]
        a = rng.randint(lo, min(hi, lo + 10 ** 6)) if rng.random() < 0.5 else rng.randint(lo, hi)
        b = rng.choice([a, min(hi, a + 1), min(hi, a + 5), rng.randint(a, hi), hi])
        if rng.random() < 0.2:
            a = lo
        out = {"k": k, "lo": a, "hi": b}
        if "q" in d:
            out["q"] = d["q"]
        return out
    cats = d["cats"]
    n = len(cats)
    if len(set(cats)) != n:
        return None
    if k == "choice":
        m = rng.randint(1, n)
        idx = sorted(rng.sample(range(n), m))
        sub = [cats[i] for i in idx]
        if rng.random() < 0.3:
            rng.shuffle(sub)
        return {"k": "choice", "cats": sub}
    # ordinal kinds: contiguous subsequence
    i = rng.randrange(n)
    j = rng.randint(i, n - 1)
    return {"k": "ordinal", "cats": cats[i:j + 1], "kind": d["kind"]}


def gen_case(rng, tier, kinds=None):
    n = rng.choice([1, 1, 2, 3, 4])
    names = rng.sample(["alpha", "b", "Beta", "c1", "x", "lr", "z_9", "epochs"], n)
    hps = []
    with_active = rng.random() < 0.5
    for nm in names:
        d = gen_dom(rng, rng.choice(kinds) if kinds else None)
        act = gen_active(rng, d) if with_active and rng.random() < 0.7 else None
        hps.append({"name": nm, "dom": d, "active": act})
    spec = {"hps": hps, "seed": rng.randrange(10 ** 9), "n_points": 6 if tier == "quick" else 12}
    if rng.random() < 0.3:
        spec["name_last_pos"] = rng.choice(names)
        spec["fix_last"] = rng.random() < 0.7
    if n >= 2 and rng.random() < 0.15:
        spec["prefix_keys"] = rng.sample(names, rng.randint(1, n))
    return spec


# ---------------------------------------------------------------------------------
# membership (the reading of "is a member" used by the monitor)

ULPS = 4


def _ulp_slack(x, internal_mag=1.0):
    return ULPS * max(1.0, internal_mag) * math.ulp(abs(float(x))) if math.isfinite(float(x)) else 0.0


def internal_mag(desc):
    """size of the internal (scaled) coordinates of a log-scaled domain: exp amplifies one ulp of
    the internal value t to |t| ulps of the value"""
    k = desc["k"]
    try:
        if k in ("loguniform", "qloguniform", "logfinrange", "lograndint", "qlograndint"):
            return max(abs(math.log(float(desc["lo"]))), abs(math.log(float(desc["hi"]))), 1.0)
    except ValueError:
        pass
    return 1.0


def float_slack(desc, bound):
    """allowance for a continuous value beyond a bound that is attributed to IEEE rounding
    (DESIGN 2.1): 4 ulp of the bound, times the internal magnitude for log scaling; for the
    reverse-log scaling v = 1 - exp(-t) the error is absolute: 4 ulp(1) (1 + t)."""
    if desc["k"] == "reverseloguniform":
        t = max(abs(math.log1p(-desc["lo"])), abs(math.log1p(-desc["hi"])))
        return ULPS * (1.0 + t) * 2.0 ** -52
    return _ulp_slack(bound, internal_mag(desc))


def membership(desc, dom, v, enc_desc=None):
    """-> (status, why); status in "ok", "ulp" (continuous value within a few ulp outside the
    bounds: attributed to IEEE rounding, counted), "bad"."""
    vt = dom.value_type
    if vt is float:
        if not isinstance(v, float):
            return "bad", f"type {type(v).__name__} is not float"
    elif type(v) is not vt:
        return "bad", f"type {type(v).__name__} is not {vt.__name__}"
    if isinstance(dom, CS.FiniteRange):
        # FiniteRange has no is_valid (Domain.is_valid raises NotImplementedError): listed values
        return ("ok", "") if any(v == x and type(v) is type(x) for x in dom.values) else ("bad", f"{v!r} not among the listed values")
    valid = dom.is_valid(v)
    if valid:
        return "ok", ""
    if isinstance(dom, CS.Float):
        sd = enc_desc or desc  # the domain whose internal scale the value was computed in
        if dom.lower - float_slack(sd, dom.lower) <= v <= dom.upper + float_slack(sd, dom.upper):
            return "ulp", ""
        return "bad", f"{v!r} outside [{dom.lower!r}, {dom.upper!r}]"
    if isinstance(dom, CS.Integer):
        return "bad", f"{v!r} outside [{dom.lower}, {dom.upper}]"
    return "bad", f"{v!r} not in {dom.categories!r}"


def same_value(desc, dom, a, b):
    """round-trip equality: exact for finite / integer / categorical domains, relative 1e-7 for continuous"""
    if isinstance(dom, CS.Float):
        if abs(float(a) - float(b)) <= 1e-7 * max(abs(float(a)), abs(float(b))):
            return True
        # linear encoding of an interval much wider than the value: a [0,1] double cannot resolve the
        # value better than a few ulp of the interval ends (IEEE resolution, DESIGN 2.1; counted by the
        # callers as ulp_excursions). Not granted to the reverse-log scaling, whose loss is avoidable.
        if desc["k"] in ("uniform", "quniform", "qloguniform"):
            return abs(float(a) - float(b)) <= ULPS * math.ulp(max(abs(float(dom.lower)), abs(float(dom.upper))))
        return False
    return a == b and type(a) is type(b)


def within_rel(a, b):
    return abs(float(a) - float(b)) <= 1e-7 * max(abs(float(a)), abs(float(b)))


# ---------------------------------------------------------------------------------
# one case


class Case:
    def __init__(self, spec):
        self.spec = spec
        self.rng = random.Random(spec["seed"])
        self.lines = []
        self.findings = []
        self.hist = {}
        self.ulp_excursions = 0

    def count(self, k, n=1):
        self.hist[k] = self.hist.get(k, 0) + n

    def finding(self, signature, what, detail=None):
        self.count("finding:" + signature)
        if not any(f["signature"] == signature for f in self.findings):
            self.findings.append({"signature": signature, "what": what, "detail": detail})


def kind_tag(desc):
    k = desc["k"]
    return k if k != "ordinal" else "ordinal-" + desc["kind"]


def is_quantised_int_nondivisible(desc):
    return desc["k"] in ("qrandint", "qlograndint") and (desc["lo"] % desc["q"] != 0 or desc["hi"] % desc["q"] != 0)


def draws_for(desc, rng, n_random):
    return [0.0, U_MAX] + [rng.random() for _ in range(n_random)]


def tape_inputs(desc, record):
    """model input of one sample op: unit draws for uniform-based samplers, drawn integers otherwise"""
    return [frac_str(x) if t == "u" else int(x) for t, x in record]


def run_domain_ops(case, name, which, desc, dom):
    """sample / cast / is_valid on one real Domain object"""
    rng = case.rng
    tag = kind_tag(desc)
    members = []
    n_random = 3 if case.spec["n_points"] <= 6 else 8
    for u in draws_for(desc, rng, n_random):
        rs = TapeRandomState([u])
        inp = {"op": "sample", "hp": name, "which": which, "size": 1}
        try:
            v = dom.sample(random_state=rs)
        except Exception as e:  # noqa
            inp["draws"] = tape_inputs(desc, rs.record) or [frac_str(u)]
            case.lines.append((inp, {"err": errname(e)}))
            case.count("sample-raises:" + tag)
            if desc["k"] == "ordinal" and desc["kind"] != "equal" and len(desc["cats"]) == 1:
                case.finding("c07:ordinal-nn-single-category-sample-raises",
                             f"OrdinalNearestNeighbor with one category: sample() raises {type(e).__name__} ({e})",
                             {"domain": desc, "u": u})
            else:
                case.finding("c07:sample-raises:" + tag, f"{tag} sample() raised {type(e).__name__}: {e}",
                             {"domain": desc, "u": u})
            continue
        inp["draws"] = tape_inputs(desc, rs.record)
        case.lines.append((inp, {"vals": [val_wire(v)]}))
        case.count("sample:" + tag)
        case.count("draw:" + ("lo" if u == 0.0 else "hi" if u == U_MAX else "interior"))
        st, why = membership(desc, dom, v)
        if st == "ulp":
            case.ulp_excursions += 1
        elif st == "bad":
            if is_quantised_int_nondivisible(desc) and type(v) is int:
                case.finding("c07:qrandint-sample-outside-bounds",
                             f"{desc['k']}({desc['lo']},{desc['hi']},{desc['q']}) sampled {v!r}: {why} (quantisation step does not divide the bounds)",
                             {"domain": desc, "u": u, "value": repr(v)})
            elif desc["k"] == "lograndint" and type(v) is int and desc["hi"] >= 2 ** 40:
                case.finding("c07:lograndint-sample-outside-bounds-huge",
                             f"lograndint({desc['lo']},{desc['hi']}) sampled {v!r} with draw u={u!r}: {why} (exp(log(upper)) is off by more than 1/2 for bounds of this size and the sampler does not clip)",
                             {"domain": desc, "u": u, "value": repr(v)})
            else:
                case.finding("c07:sample-not-member:" + tag, f"{tag} sample {v!r}: {why}", {"domain": desc, "u": u, "value": repr(v)})
        else:
            members.append(v)
    # one list-valued sample (size = 3)
    us = [rng.random() for _ in range(3)]
    rs = TapeRandomState(us)
    inp = {"op": "sample", "hp": name, "which": which, "size": 3}
    try:
        vs = dom.sample(size=3, random_state=rs)
        inp["draws"] = tape_inputs(desc, rs.record)
        case.lines.append((inp, {"vals": [val_wire(v) for v in vs]}))
        for v in vs:
            st, why = membership(desc, dom, v)
            if st == "bad":
                if "type" in why and desc["k"] in ("qrandint", "qlograndint"):
                    case.finding("c07:qrandint-sample-list-not-int",
                                 f"{desc['k']}(...).sample(size=3) returned {type(v).__name__} elements for an integer domain",
                                 {"domain": desc, "value": repr(v)})
                elif is_quantised_int_nondivisible(desc):
                    case.finding("c07:qrandint-sample-outside-bounds",
                                 f"{desc['k']}({desc['lo']},{desc['hi']},{desc['q']}) sampled {v!r} (size=3): {why}",
                                 {"domain": desc, "value": repr(v)})
                elif desc["k"] == "lograndint" and type(v) is int and desc["hi"] >= 2 ** 40:
                    case.finding("c07:lograndint-sample-outside-bounds-huge",
                                 f"lograndint({desc['lo']},{desc['hi']}) sampled {v!r} (size=3): {why}",
                                 {"domain": desc, "value": repr(v)})
                else:
                    case.finding("c07:sample-not-member:" + tag, f"{tag} sample(size=3) {v!r}: {why}", {"domain": desc, "value": repr(v)})
            elif st == "ulp":
                case.ulp_excursions += 1
    except Exception as e:  # noqa
        inp["draws"] = tape_inputs(desc, rs.record) or [frac_str(u) for u in us]
        case.lines.append((inp, {"err": errname(e)}))
    # a few draws of a real RandomState (monitor only; the tape stub covers the model side)
    real = np.random.RandomState(rng.randrange(2 ** 31))
    for _ in range(4):
        try:
            v = dom.sample(random_state=real)
        except Exception:  # noqa  (already reported above)
            break
        st, why = membership(desc, dom, v)
        case.count("sample-real-rs")
        if st == "ulp":
            case.ulp_excursions += 1
        elif st == "bad":
            if is_quantised_int_nondivisible(desc) and type(v) is int:
                case.finding("c07:qrandint-sample-outside-bounds",
                             f"{desc['k']}({desc['lo']},{desc['hi']},{desc['q']}) sampled {v!r}: {why}", {"domain": desc, "value": repr(v)})
            elif desc["k"] == "lograndint" and type(v) is int and desc["hi"] >= 2 ** 40:
                case.finding("c07:lograndint-sample-outside-bounds-huge",
                             f"lograndint({desc['lo']},{desc['hi']}) sampled {v!r}: {why}", {"domain": desc, "value": repr(v)})
            else:
                case.finding("c07:sample-not-member:" + tag, f"{tag} sample {v!r}: {why}", {"domain": desc, "value": repr(v)})
        else:
            members.append(v)
    # listed members (every category / finite value; bounds of numeric domains)
    # (put first so that the bounds / first listed values are always among the encoded configurations)
    if isinstance(dom, CS.FiniteRange):
        members = list(dom.values[:8]) + members
    elif isinstance(dom, CS.Categorical):
        members = list(dom.categories) + members
    elif isinstance(dom, CS.Integer):
        members = [dom.lower, dom.upper] + members
    elif isinstance(dom, CS.Float):
        members = [float(dom.lower), float(dom.upper)] + members
    # cast of members, is_valid of members and of non-members
    seen = set()
    for v in members:
        key = (type(v).__name__, repr(v))
        if key in seen:
            continue
        seen.add(key)
        inp = {"op": "cast", "hp": name, "which": which, "value": val_wire(v)}
        try:
            c = dom.cast(v)
            case.lines.append((inp, {"val": val_wire(c)}))
            case.count("cast:" + tag)
            st, why = membership(desc, dom, c)
            if st == "bad":
                case.finding("c07:cast-not-member:" + tag, f"{tag}: cast({v!r}) = {c!r}: {why}", {"domain": desc, "value": repr(v)})
            elif not same_value(desc, dom, c, v) and not isinstance(dom, CS.FiniteRange):
                case.finding("c07:cast-changes-member:" + tag, f"{tag}: cast({v!r}) = {c!r}", {"domain": desc, "value": repr(v)})
        except Exception as e:  # noqa
            case.lines.append((inp, {"err": errname(e)}))
            case.finding("c07:cast-raises:" + tag, f"{tag}: cast({v!r}) raised {type(e).__name__}: {e}", {"domain": desc, "value": repr(v)})
        inp = {"op": "valid", "hp": name, "which": which, "value": val_wire(v)}
        try:
            case.lines.append((inp, {"valid": bool(dom.is_valid(v))}))
        except NotImplementedError:
            case.lines.append((inp, {"err": "not-implemented"}))
            case.count("is_valid-not-implemented")
    # cast of numbers that are not members (correspondence only: the property speaks of members)
    extra = []
    if isinstance(dom, CS.Integer):
        extra = [dom.lower + 0.5, dom.lower + 1.5, dom.upper - 0.3, float(dom.lower) + rng.random()]
    elif isinstance(dom, CS.FiniteRange):
        w = float(dom.upper - dom.lower)
        extra = [float(dom.lower) + w * rng.random(), float(dom.lower) + w * rng.random(), float(dom.upper) + abs(w) + 1.0]
        if not dom.log_scale:
            extra.append(float(dom.lower) - abs(w) - 1.0)
    elif isinstance(dom, CS.OrdinalNearestNeighbor):
        cs_ = [float(x) for x in dom.categories]
        extra = [cs_[0] + (cs_[-1] - cs_[0]) * rng.random() for _ in range(3)] + [cs_[-1] * 2 if cs_[-1] > 0 else cs_[-1] + 1.0]
        if dom.log_scale:
            extra = [e for e in extra if e > 0]
    elif isinstance(dom, CS.Categorical) and dom.value_type is float:
        extra = [c_ * (1.0 + 1e-5) for c_ in dom.categories[:3] if c_ != 0.0]
    for v in extra:
        if isinstance(v, float) and not math.isfinite(v):
            continue
        inp = {"op": "cast", "hp": name, "which": which, "value": val_wire(v), "member": False}
        try:
            c = dom.cast(v)
            case.lines.append((inp, {"val": val_wire(c)}))
            case.count("cast-nonmember:" + tag)
        except Exception as e:  # noqa
            case.lines.append((inp, {"err": errname(e)}))
    outsiders = []
    if isinstance(dom, (CS.Float, CS.Integer)):
        w = max(1, abs(dom.upper - dom.lower), abs(dom.upper), abs(dom.lower))
        outsiders = [dom.lower - w, dom.upper + w]
        if isinstance(dom, CS.Float):
            outsiders = [float(x) for x in outsiders if math.isfinite(float(x))]
    elif isinstance(dom, CS.Categorical):
        outsiders = ["__none__"] if dom.value_type is str else [dom.value_type(987654)]
        outsiders = [o for o in outsiders if o not in dom.categories]
    for v in outsiders:
        inp = {"op": "valid", "hp": name, "which": which, "value": val_wire(v)}
        try:
            case.lines.append((inp, {"valid": bool(dom.is_valid(v))}))
        except NotImplementedError:
            case.lines.append((inp, {"err": "not-implemented"}))
    return [m for m in members if membership(desc, dom, m)[0] == "ok"]


def range_kind(hp_range):
    return type(hp_range).__name__.replace("HyperparameterRange", "")


def slice_of(hr, name):
    return hr.encoded_ranges[name]


def check_decoded(case, hr, descs, doms, act_doms, act_descs, x, cfg, in_box, label):
    """monitor of one decoded configuration"""
    for name, v in cfg.items():
        desc, dom = descs[name], doms[name]
        tag = kind_tag(desc)
        st, why = membership(desc, dom, v)
        if st == "ulp":
            # decoding ends with a clip to [lower, upper]: a decoded value is a member exactly, also on the faces of the cube
            # (where the optimiser of the acquisition function puts its candidates)
            case.finding("c07:decode-not-member:" + tag, f"{tag}: from_ndarray gave {v!r} ({label}), outside [{dom.lower!r}, {dom.upper!r}] by "
                         f"rounding", {"domain": desc, "x": [float(t) for t in x], "value": repr(v)})
        elif st == "bad":
            case.finding("c07:decode-not-member:" + tag, f"{tag}: from_ndarray gave {v!r} ({label}): {why}",
                         {"domain": desc, "x": [float(t) for t in x], "value": repr(v)})
        if in_box and name in act_doms:
            ad, adesc = act_doms[name], act_descs[name]
            st, why = membership(adesc, ad, v, desc)
            if st == "ulp":
                case.ulp_excursions += 1
            elif st == "bad":
                s, e = slice_of(hr, name)
                xs = [float(t) for t in x[s:e]]
                rk = range_kind(hr._hp_ranges[hr.internal_keys.index(name)])
                detail = {"domain": desc, "active": adesc, "x_slice": xs, "value": repr(v), "bounds": [list(map(float, b)) for b in hr.get_ndarray_bounds()[s:e]]}
                if rk == "CategoricalNonBinary" and max(xs) <= 0.0:
                    case.finding("c07:onehot-zero-corner-inactive-category",
                                 f"one-hot categorical {desc['cats']!r} with active {adesc['cats']!r}: the all-zero corner of the bounds box decodes to the inactive category {v!r}", detail)
                elif rk == "Integer":
                    case.finding("c07:int-active-box-decodes-outside-active-range",
                                 f"{tag}({desc['lo']},{desc['hi']}) with active ({adesc['lo']},{adesc['hi']}): x={xs[0]!r} inside get_ndarray_bounds decodes to {v!r} outside the active range", detail)
                else:
                    case.finding("c07:decode-outside-active:" + rk, f"{tag} ({rk}): x slice {xs!r} inside the bounds box decodes to {v!r}: {why}", detail)


def run_case(spec):
    case = Case(spec)
    rng = case.rng
    descs = {h["name"]: h["dom"] for h in spec["hps"]}
    act_descs = {h["name"]: h["active"] for h in spec["hps"] if h.get("active")}
    doms = {n: build_domain(d) for n, d in descs.items()}
    act_doms = {n: build_domain(d) for n, d in act_descs.items()}
    for n, d in descs.items():
        case.count("kind:" + kind_tag(d))
        if d.get("lo") is not None and d.get("lo") == d.get("hi"):
            case.count("degenerate:lower==upper")
        if "cats" in d and len(d["cats"]) == 1:
            case.count("degenerate:one-category")
        if d.get("size") == 1:
            case.count("degenerate:size-1")
    header = {
        "stream": "domain",
        "eps": frac_str(HI.EPS), "c499": frac_str(0.499), "c001": frac_str(0.01),
        "hps": [{"name": h["name"], "dom": dom_wire(h["dom"]), "active": dom_wire(h["active"]) if h.get("active") else None}
                for h in spec["hps"]],
        "name_last_pos": spec.get("name_last_pos"),
        "prefix_keys": spec.get("prefix_keys"),
        "value_for_last_pos": None,
    }
    # ---- domain level
    members = {}
    act_members = {}
    pre_lines = []
    case.lines = pre_lines
    for n in descs:
        members[n] = run_domain_ops(case, n, "base", descs[n], doms[n])
        if n in act_doms:
            act_members[n] = run_domain_ops(case, n, "active", act_descs[n], act_doms[n])
    # ---- encoder
    cs = dict(doms)
    cs["constant_entry"] = 17  # constants are filtered out by HyperparameterRanges
    kwargs = {}
    if spec.get("name_last_pos"):
        kwargs["name_last_pos"] = spec["name_last_pos"]
        pool = act_members.get(spec["name_last_pos"], members[spec["name_last_pos"]])
        if spec.get("fix_last") and pool:
            kwargs["value_for_last_pos"] = rng.choice(pool)
            header["value_for_last_pos"] = val_wire(kwargs["value_for_last_pos"])
    if spec.get("prefix_keys"):
        kwargs["prefix_keys"] = list(spec["prefix_keys"])
    if act_doms:
        kwargs["active_config_space"] = dict(act_doms)
        case.count("with-active")
    if "value_for_last_pos" in kwargs:
        case.count("with-fixed-last")
    lines = []
    case.lines = lines
    try:
        hr = make_hyperparameter_ranges(cs, **kwargs)
        bounds = hr.get_ndarray_bounds()
    except Exception as e:  # noqa
        lines.append((header, {"err": errname(e)}))
        single_nn = [n for n, d in descs.items() if d["k"] == "ordinal" and d["kind"] != "equal" and len(d["cats"]) == 1]
        if single_nn:
            case.finding("c07:ordinal-nn-single-category-not-encodable",
                         f"OrdinalNearestNeighbor with one category cannot be encoded: make_hyperparameter_ranges raises {type(e).__name__} ({e})",
                         {"domain": descs[single_nn[0]]})
        else:
            case.finding("c07:ranges-constructor-raises", f"make_hyperparameter_ranges raised {type(e).__name__}: {e}",
                         {"hps": spec["hps"], "kwargs": {k: repr(v) for k, v in kwargs.items()}})
        case.count("ctor-error")
        # domain-level lines still need a constructed model: replay them behind a header without encoder
        hdr2 = dict(header)
        hdr2["domains_only"] = True
        case.lines = lines + [(hdr2, None)] + pre_lines
        run_json(case, spec, descs, doms, None)
        return finish(case)
    d_enc = int(hr.ndarray_size)
    lines.append((header, {"keys": list(hr.internal_keys), "ndarray_size": d_enc,
                           "bounds": [[frac_str(float(a)), frac_str(float(b))] for a, b in bounds]}))
    lines.extend(pre_lines)
    if len(bounds) != d_enc:
        case.finding("c07:bounds-wrong-length", f"get_ndarray_bounds has {len(bounds)} entries, ndarray_size {d_enc}")
    for a, b in bounds:
        if not (0.0 <= a <= b <= 1.0):
            case.finding("c07:bounds-outside-cube", f"ndarray bound ({a!r}, {b!r}) not inside [0,1] or reversed", {"hps": spec["hps"]})
    # member configurations -> encode -> decode
    names = list(descs)
    for i in range(spec["n_points"]):
        if any(not members[n] for n in names):
            break
        cfg = {n: (members[n][i] if i < len(members[n]) else rng.choice(members[n])) for n in names}
        inp = {"op": "encode", "config": {n: val_wire(v) for n, v in cfg.items()}}
        try:
            x = hr.to_ndarray(cfg)
        except Exception as e:  # noqa
            lines.append((inp, {"err": errname(e)}))
            case.finding("c07:encode-raises", f"to_ndarray of a member configuration raised {type(e).__name__}: {e}",
                         {"hps": spec["hps"], "config": {n: repr(v) for n, v in cfg.items()}})
            continue
        x = np.asarray(x, dtype=float).reshape(-1)
        lines.append((inp, {"vec": [frac_str(float(t)) for t in x]}))
        case.count("encode")
        if x.size != d_enc:
            case.finding("c07:encode-wrong-length", f"to_ndarray has length {x.size}, advertised {d_enc}", {"hps": spec["hps"]})
        if not all(0.0 <= float(t) <= 1.0 for t in x):
            case.finding("c07:encode-outside-cube", f"to_ndarray gave {list(map(float, x))!r}", {"hps": spec["hps"], "config": {n: repr(v) for n, v in cfg.items()}})
        inp = {"op": "decode", "x": [frac_str(float(t)) for t in x], "why": "roundtrip"}
        try:
            back = hr.from_ndarray(x)
        except Exception as e:  # noqa
            lines.append((inp, {"err": errname(e)}))
            case.finding("c07:decode-of-encoding-raises", f"from_ndarray(to_ndarray(c)) raised {type(e).__name__}: {e}", {"hps": spec["hps"]})
            continue
        lines.append((inp, {"config": {n: val_wire(v) for n, v in back.items()}}))
        case.count("roundtrip")
        for n in names:
            if isinstance(doms[n], CS.Float) and same_value(descs[n], doms[n], back[n], cfg[n]) and not within_rel(back[n], cfg[n]):
                case.ulp_excursions += 1
            if not same_value(descs[n], doms[n], back[n], cfg[n]):
                if descs[n]["k"] == "logfinrange" and descs[n]["cast_int"]:
                    case.finding("c07:logfinrange-castint-roundtrip-changes-value",
                                 f"logfinrange({descs[n]['lo']!r},{descs[n]['hi']!r},{descs[n]['size']},cast_int=True) with values {doms[n].values[:12]!r}: "
                                 f"from_ndarray(to_ndarray({cfg[n]!r})) = {back[n]!r} (nearest grid point in log space of the rounded value is another entry)",
                                 {"domain": descs[n], "value": repr(cfg[n]), "back": repr(back[n])})
                    continue
                if descs[n]["k"] in ("lograndint", "qlograndint") and descs[n]["hi"] >= 2 ** 40:
                    case.finding("c07:lograndint-roundtrip-inexact-huge",
                                 f"lograndint({descs[n]['lo']},{descs[n]['hi']}): from_ndarray(to_ndarray({cfg[n]!r})) = {back[n]!r} "
                                 f"(exp(log(k)) does not resolve integers of this size)",
                                 {"domain": descs[n], "value": repr(cfg[n]), "back": repr(back[n])})
                    continue
                if descs[n]["k"] == "reverseloguniform" and 0 < abs(float(cfg[n])) < 1e-6 and abs(float(back[n]) - float(cfg[n])) < 1e-9:
                    case.finding("c07:reverseloguniform-roundtrip-precision-near-zero",
                                 f"reverseloguniform({descs[n]['lo']!r},{descs[n]['hi']!r}): from_ndarray(to_ndarray({cfg[n]!r})) = {float(back[n])!r}, "
                                 f"relative error {abs(float(back[n]) - float(cfg[n])) / abs(float(cfg[n])):.2e} > 1e-7 (ReverseLogScaling computes log(1 - x) instead of log1p(-x))",
                                 {"domain": descs[n], "value": repr(cfg[n]), "back": repr(back[n])})
                    continue
                case.finding("c07:roundtrip-mismatch:" + kind_tag(descs[n]),
                             f"{kind_tag(descs[n])}: from_ndarray(to_ndarray({cfg[n]!r})) = {back[n]!r}",
                             {"domain": descs[n], "value": repr(cfg[n]), "back": repr(back[n])})
        check_decoded(case, hr, descs, doms, act_doms, act_descs, x, back, False, "round trip")
    # cube corners and interior points
    pts = []
    if d_enc <= 6:
        for m in range(2 ** d_enc):
            pts.append(([float((m >> j) & 1) for j in range(d_enc)], "corner"))
    else:
        for _ in range(48):
            pts.append(([float(rng.getrandbits(1)) for _ in range(d_enc)], "corner"))
        for j in range(d_enc):  # each coordinate at both ends against a random background
            for b in (0.0, 1.0):
                p = [float(rng.getrandbits(1)) for _ in range(d_enc)]
                p[j] = b
                pts.append((p, "corner"))
    for _ in range(spec["n_points"]):
        pts.append(([rng.random() for _ in range(d_enc)], "interior"))
    for _ in range(2):
        pts.append(([rng.choice([-HI.EPS, 1.0 + HI.EPS, 0.5, 0.0, 1.0]) for _ in range(d_enc)], "eps-margin"))
    if d_enc:
        p = [rng.random() for _ in range(d_enc)]
        p[rng.randrange(d_enc)] = rng.choice([-1e-6, 1.0 + 1e-6, -0.5, 2.0])
        pts.append((p, "outside"))
    # the bounds box (active sub-ranges / fixed last position)
    box = []
    if act_doms or "value_for_last_pos" in kwargs:
        free = [j for j, (a, b) in enumerate(bounds) if a != b]
        if len(free) <= 6:
            for m in range(2 ** len(free)):
                p = [float(a) for a, _ in bounds]
                for t, j in enumerate(free):
                    p[j] = float(bounds[j][(m >> t) & 1])
                box.append((p, "box-corner"))
        else:
            for _ in range(48):
                box.append(([float(b[rng.getrandbits(1)]) for b in bounds], "box-corner"))
        for _ in range(spec["n_points"]):
            box.append(([float(a + (b - a) * rng.random()) for a, b in bounds], "box-interior"))
    for p, label in pts + box:
        inp = {"op": "decode", "x": [frac_str(t) for t in p], "why": label}
        try:
            cfg = hr.from_ndarray(np.array(p, dtype=float))
        except Exception as e:  # noqa
            lines.append((inp, {"err": errname(e)}))
            case.count("decode-rejected:" + label)
            if label not in ("outside",) and not (label == "eps-margin"):
                case.finding("c07:decode-raises", f"from_ndarray raised {type(e).__name__}: {e} on a point of the unit cube ({label})",
                             {"hps": spec["hps"], "x": p})
            elif label == "eps-margin" and all(-HI.EPS <= t <= 1 + HI.EPS for t in p):
                case.finding("c07:decode-raises", f"from_ndarray raised {type(e).__name__}: {e} inside the EPS margin",
                             {"hps": spec["hps"], "x": p})
            continue
        lines.append((inp, {"config": {n: val_wire(v) for n, v in cfg.items()}}))
        case.count("decode:" + label)
        if label == "outside":
            # only one-hot coordinates are not range-checked by the code
            pass
        check_decoded(case, hr, descs, doms, act_doms, act_descs, p, cfg, label.startswith("box"), label)
        if label.startswith("box") and "value_for_last_pos" in kwargs:
            n = kwargs["name_last_pos"]
            if not same_value(descs[n], doms[n], cfg[n], kwargs["value_for_last_pos"]):
                if descs[n]["k"] in ("lograndint", "qlograndint") and descs[n]["hi"] >= 2 ** 40:
                    case.finding("c07:lograndint-roundtrip-inexact-huge",
                                 f"lograndint({descs[n]['lo']},{descs[n]['hi']}) as fixed last position: the bounds box decodes to {cfg[n]!r}, "
                                 f"value_for_last_pos {kwargs['value_for_last_pos']!r} (exp(log(k)) does not resolve integers of this size)",
                                 {"domain": descs[n], "value": repr(kwargs["value_for_last_pos"]), "back": repr(cfg[n])})
                    continue
                case.finding("c07:fixed-last-not-kept:" + kind_tag(descs[n]),
                             f"fixed last position {n}: box point decodes to {cfg[n]!r}, value_for_last_pos {kwargs['value_for_last_pos']!r}",
                             {"domain": descs[n]})
    run_moving_fixed(case, spec, header, hr, descs, doms, members, act_members, kwargs, rng)
    run_json(case, spec, descs, doms, hr)
    return finish(case)


def run_moving_fixed(case, spec, header, hr, descs, doms, members, act_members, kwargs, rng):
    """the fixed value of the last position is a mutable attribute which multi-fidelity searchers move from one
    resource level to the next on ONE ranges object: after every move the bounds box must pin the last position to
    the current value (or not pin it for None), sampled configurations carry it and encode inside the box, and the box
    decodes to it. Falsy members (0, 0.0, '') are legal fixed values and are tried first."""
    n = kwargs.get("name_last_pos")
    if n is None:
        return
    pool = list(act_members.get(n, members[n]))
    if not pool:
        return
    cands = []
    for c in (0, 0.0, ""):
        try:
            okc = membership(descs[n], doms[n], c)[0] == "ok" and (n not in act_members or any(same_value(descs[n], doms[n], c, m) for m in pool))
        except Exception:  # noqa
            okc = False
        if okc:
            cands.append(c)
    seq = cands[:1] + [rng.choice(pool), None, rng.choice(pool)]
    rs = np.random.RandomState(rng.randrange(2 ** 31))
    for v in seq:
        hr.value_for_last_pos = v
        hdr = dict(header)
        hdr["value_for_last_pos"] = None if v is None else val_wire(v)
        hdr["moved"] = True
        try:
            bounds = hr.get_ndarray_bounds()
        except Exception as e:  # noqa
            case.lines.append((hdr, {"err": errname(e)}))
            case.finding("c07:moved-fixed-bounds-raise", f"get_ndarray_bounds raised {type(e).__name__} after value_for_last_pos := {v!r}", {"domain": descs[n]})
            return
        d_enc = int(hr.ndarray_size)
        case.lines.append((hdr, {"keys": list(hr.internal_keys), "ndarray_size": d_enc,
                                 "bounds": [[frac_str(float(a)), frac_str(float(b))] for a, b in bounds]}))
        case.count("moved-fixed:" + ("none" if v is None else "falsy" if not v else "value"))
        huge = descs[n]["k"] in ("lograndint", "qlograndint") and descs[n]["hi"] >= 2 ** 40
        # sampled configurations carry the current value and encode inside the current box (also those drawn several at a time)
        if v is not None:
            try:
                many = hr.random_configs(rs, 3)
            except Exception:  # noqa (degenerate domains: reported by the domain-level checks)
                many = []
            for cfg in many:
                if not same_value(descs[n], doms[n], cfg[n], v):
                    case.finding("c07:moved-fixed-not-sampled:" + kind_tag(descs[n]),
                                 f"value_for_last_pos := {v!r} on an existing ranges object: random_configs gives {n}={cfg[n]!r}", {"domain": descs[n]})
                    break
        for _ in range(3):
            try:
                cfg = hr.random_config(rs)
                enc = hr.to_ndarray(cfg)
            except Exception:  # noqa (degenerate domains: reported by the domain-level checks)
                break
            if v is not None and not same_value(descs[n], doms[n], cfg[n], v):
                case.finding("c07:moved-fixed-not-sampled:" + kind_tag(descs[n]),
                             f"value_for_last_pos := {v!r} on an existing ranges object: random_config gives {n}={cfg[n]!r}", {"domain": descs[n]})
            if v is not None and membership(descs[n], doms[n], cfg[n])[0] == "ok" and not huge:
                st, en = hr.encoded_ranges[n]  # (the other coordinates are boxed by active sub-ranges, which sampling ignores)
                for x, (a, b) in list(zip(enc.reshape(-1), bounds))[st:en]:
                    if not (a - 1e-9 <= x <= b + 1e-9):
                        case.finding("c07:moved-fixed-sample-outside-box:" + kind_tag(descs[n]),
                                     f"value_for_last_pos := {v!r} on an existing ranges object: a sampled configuration encodes to {float(x)!r} outside "
                                     f"the bounds ({float(a)!r}, {float(b)!r})", {"domain": descs[n], "moved_to": repr(v)})
                        break
        # the box decodes to the current value
        if v is None:
            continue
        # encoding and decoding a GIVEN member configuration is not touched by the fixed value: data points of other
        # resource levels are encoded and decoded while the attribute is fixed (reference: the same object with the value
        # released)
        others = [w for w in pool if not same_value(descs[n], doms[n], w, v)]
        if others and not huge:
            try:
                cfg2 = dict(hr.random_config(rs))
                cfg2[n] = w = rng.choice(others)
                back = hr.from_ndarray(hr.to_ndarray(dict(cfg2)))
                hr.value_for_last_pos = None
                ref = hr.from_ndarray(hr.to_ndarray(dict(cfg2)))
            except Exception:  # noqa
                back = ref = None
            finally:
                hr.value_for_last_pos = v
            if back is not None:
                case.count("moved-fixed:roundtrip-of-other-value")
                if not same_value(descs[n], doms[n], back[n], ref[n]):
                    case.finding("c07:fixed-last-pos-roundtrip-changes-value:" + kind_tag(descs[n]),
                                 f"value_for_last_pos = {v!r}: the member configuration with {n}={w!r} encodes and decodes to {n}={back[n]!r} "
                                 f"(with the value released: {ref[n]!r})", {"domain": descs[n], "fixed": repr(v), "value": repr(w)})
        for t in (0.0, 1.0, rng.random()):
            pnt = [float(a + (b - a) * t) for a, b in bounds]
            inp = {"op": "decode", "x": [frac_str(z) for z in pnt], "why": "box-moved"}
            try:
                cfg = hr.from_ndarray(np.array(pnt, dtype=float))
            except Exception as e:  # noqa
                case.lines.append((inp, {"err": errname(e)}))
                continue
            case.lines.append((inp, {"config": {k: val_wire(w) for k, w in cfg.items()}}))
            if not same_value(descs[n], doms[n], cfg[n], v) and not huge:
                case.finding("c07:moved-fixed-not-kept:" + kind_tag(descs[n]),
                             f"value_for_last_pos := {v!r} on an existing ranges object: the bounds box decodes to {n}={cfg[n]!r}", {"domain": descs[n]})


def run_json(case, spec, descs, doms, hr):
    """config_space_to_json_dict -> JSON text -> config_space_from_json_dict"""
    inp = {"op": "json"}
    cs = dict(doms)
    cs["constant_entry"] = 17
    try:
        text = json.dumps(CS.config_space_to_json_dict(cs))
        back = CS.config_space_from_json_dict(json.loads(text))
    except Exception as e:  # noqa
        case.lines.append((inp, {"err": errname(e)}))
        case.count("json-raises")
        quant = [n for n, d in descs.items() if "q" in d]
        if quant:
            case.finding("c07:json-quantized-not-serialisable",
                         f"config space with a quantised domain ({descs[quant[0]]['k']}) cannot be written to JSON: {type(e).__name__}: {e}",
                         {"domain": descs[quant[0]]})
        else:
            case.finding("c07:json-raises", f"JSON round trip raised {type(e).__name__}: {e}", {"hps": spec["hps"]})
        return
    out = {"restored": {n: restored_wire(back[n]) for n in descs}}
    case.lines.append((inp, out))
    case.count("json")
    if back.get("constant_entry") != 17:
        case.finding("c07:json-constant-changed", "constant entry changed by the JSON round trip")
    for n, d in descs.items():
        want, got = dom_wire(d), out["restored"][n]
        tag = kind_tag(d)
        eq = False
        try:
            eq = bool(back[n] == doms[n]) and type(back[n]) is type(doms[n])
        except Exception:  # noqa
            pass
        if json.dumps(want, sort_keys=True) != json.dumps(got, sort_keys=True) or not eq:
            if d["k"] == "reverseloguniform" and got.get("scale") == "log":
                case.finding("c07:json-reverseloguniform-restored-as-loguniform",
                             f"reverseloguniform({d['lo']!r}, {d['hi']!r}) written to JSON and read back is a loguniform domain (== still answers True; encodings differ)",
                             {"domain": d})
            else:
                case.finding("c07:json-not-equal:" + tag, f"{tag}: restored domain differs: {got} (== gives {eq})", {"domain": d})
    if hr is not None and not any(f["signature"].startswith("c07:json") for f in case.findings):
        # equal encodings of the restored space on a few member configurations
        try:
            hr2 = make_hyperparameter_ranges(back)
            hr1 = make_hyperparameter_ranges(dict(doms))
            rs = np.random.RandomState(case.rng.randrange(2 ** 31))
            for _ in range(3):
                cfg = hr1.random_config(rs)
                if not all(membership(descs[n], doms[n], v)[0] == "ok" for n, v in cfg.items()):
                    continue
                a, b = hr1.to_ndarray(cfg), hr2.to_ndarray(cfg)
                if a.shape != b.shape or not np.array_equal(a, b):
                    case.finding("c07:json-encodes-differently", f"restored space encodes {cfg!r} as {b!r}, original {a!r}", {"hps": spec["hps"]})
        except Exception as e:  # noqa
            case.finding("c07:json-restored-space-raises", f"restored space: {type(e).__name__}: {e}", {"hps": spec["hps"]})


def finish(case):
    case.hist["ulp_excursions"] = case.ulp_excursions
    case.hist["lines"] = len(case.lines)
    return {"lines": case.lines, "monitor": case.findings, "meta": {"hist": case.hist, "n_lines": len(case.lines)}}


# ---------------------------------------------------------------------------------
# comparison of implementation output with model output


def _fl(s):
    return float(Fraction(s))


def _close(a, b, tol):
    """a: implementation float, b: model float, tol: absolute allowance computed by the driver
    from the conditioning of the expression; plus relative 1e-12 (DESIGN 2.1)"""
    return abs(a - b) <= tol + 1e-12 * max(abs(a), abs(b))


def val_match(iv, mv):
    if iv.get("t") != mv.get("t"):
        return False
    if "lo" in mv:  # an interval of admissible integers (free rounding decision on a huge value)
        return mv["lo"] <= iv["v"] <= mv["hi"]
    if iv["t"] == "float":
        return _close(_fl(iv["v"]), _fl(mv["v"]), _fl(mv.get("tol", "0")))
    return iv.get("v") == mv.get("v")


def val_match_any(iv, mv, alts):
    return val_match(iv, mv) or any(val_match(iv, a) for a in alts or [])


def compare(inp, impl, model):
    if impl is None:
        return None
    if "err" in impl:
        if "err" in model and model["err"].split(":")[0] == impl["err"].split(":")[0]:
            return None
        return f"impl raised {impl['err']}, model gave {json.dumps(model)[:300]}"
    if "err" in model:
        return f"model error {model['err']}, impl gave {json.dumps(impl)[:300]}"
    mo = model.get("out", {})
    if "stream" in inp:
        if mo.get("keys") != impl["keys"]:
            return f"internal keys impl {impl['keys']} model {mo.get('keys')}"
        if mo.get("ndarray_size") != impl["ndarray_size"]:
            return f"ndarray_size impl {impl['ndarray_size']} model {mo.get('ndarray_size')}"
        mb = mo.get("bounds", [])
        if len(mb) != len(impl["bounds"]):
            return f"bounds length impl {len(impl['bounds'])} model {len(mb)}"
        for j, (ib, m) in enumerate(zip(impl["bounds"], mb)):
            tol = _fl(m[2]) if len(m) > 2 else 0.0
            ok = _close(_fl(ib[0]), _fl(m[0]), tol) and _close(_fl(ib[1]), _fl(m[1]), tol)
            # fixed last position: alternatives of a free index decision of the encoder
            ok = ok or any(_close(_fl(ib[0]), _fl(c), tol) and _close(_fl(ib[1]), _fl(c), tol) for c in m[3:])
            if not ok:
                return f"bounds[{j}] impl {[_fl(t) for t in ib]} model {[_fl(t) for t in m[:2]]} tol {tol}"
        return None
    op = inp.get("op")
    if op == "sample":
        mv, alts = mo.get("vals", []), mo.get("alts", [])
        if len(mv) != len(impl["vals"]):
            return f"sample length impl {len(impl['vals'])} model {len(mv)}"
        for j, iv in enumerate(impl["vals"]):
            if not val_match_any(iv, mv[j], alts[j] if j < len(alts) else []):
                return f"sample[{j}] impl {iv} model {mv[j]} alts {alts[j] if j < len(alts) else []}"
        return None
    if op == "cast":
        if not val_match_any(impl["val"], mo.get("val", {}), mo.get("alts", [])):
            return f"cast impl {impl['val']} model {mo.get('val')} alts {mo.get('alts')}"
        return None
    if op == "valid":
        return None if mo.get("valid") == impl["valid"] else f"is_valid impl {impl['valid']} model {mo.get('valid')}"
    if op == "encode":
        mv = mo.get("vec", [])
        if len(mv) != len(impl["vec"]):
            return f"encode length impl {len(impl['vec'])} model {len(mv)}"
        for j, (a, m) in enumerate(zip(impl["vec"], mv)):
            # m = [value, tol, alternatives of a free index decision ...]
            if not any(_close(_fl(a), _fl(c), _fl(m[1])) for c in [m[0]] + list(m[2:])):
                return f"encode[{j}] impl {_fl(a)!r} model {_fl(m[0])!r} tol {_fl(m[1])!r} alts {[_fl(c) for c in m[2:]]}"
        return None
    if op == "decode":
        mc, alts = mo.get("config", {}), mo.get("alts", {})
        if sorted(mc) != sorted(impl["config"]):
            return f"decode keys impl {sorted(impl['config'])} model {sorted(mc)}"
        for n, iv in impl["config"].items():
            if not val_match_any(iv, mc[n], alts.get(n, [])):
                return f"decode[{n}] impl {iv} model {mc[n]} alts {alts.get(n, [])}"
        return None
    if op == "json":
        a, b = json.dumps(impl["restored"], sort_keys=True), json.dumps(mo.get("restored"), sort_keys=True)
        return None if a == b else f"json restored impl {a[:300]} model {b[:300]}"
    return f"unknown op {op}"
