"""
Streams `pareto` and `moasha` (C19).

`pareto`: the real `pareto_efficient`, `nondominated_sort`, `NonDominatedPriority`,
`FixedObjectivePriority` of /repo on generated point sets.  The return values of
`compute_epsilon_net` (float norms, numpy's global generator when `dim=None`) are recorded
by a delegating wrapper installed on the module attribute and sent to the model as tape.

`moasha`: the real `MOASHA` scheduler driven with scripted trials.  The bracket drawn in
`on_trial_add` from numpy's global generator is read back from `_trial_info`; the rung
milestones are read from the real `_Bracket` objects; the priorities a harness-side
subclass of the priority class saw/returned are logged for the monitor.
"""
import contextlib
import datetime
import io
import logging
import random
import warnings
from fractions import Fraction

import numpy as np

logging.disable(logging.CRITICAL)
warnings.filterwarnings("ignore", category=SyntaxWarning)

with contextlib.redirect_stdout(io.StringIO()):
    from syne_tune.backend.trial_status import Trial
    from syne_tune.optimizer.scheduler import SchedulerDecision
    from syne_tune.optimizer.schedulers.multiobjective import non_dominated_priority as ndp
    from syne_tune.optimizer.schedulers.multiobjective import multiobjective_priority as mop
    from syne_tune.optimizer.schedulers.multiobjective.moasha import MOASHA

from framework import frac_str

EPOCH0 = datetime.datetime(2020, 1, 1)
TIME = "epoch"
_REAL_EPS = ndp.compute_epsilon_net


class EpsRecorder:
    """context manager: records what the real compute_epsilon_net returned, in call order"""

    def __init__(self):
        self.tape = []

    def __enter__(self):
        def wrapper(X, dim=None):
            r = _REAL_EPS(X, dim=dim)
            self.tape.append([int(v) for v in r])
            return r

        ndp.compute_epsilon_net = wrapper
        return self

    def __exit__(self, *a):
        ndp.compute_epsilon_net = _REAL_EPS

    def take(self):
        t, self.tape = self.tape, []
        return t


def errname(e):
    if isinstance(e, AssertionError):
        return "assertion"
    if isinstance(e, KeyError):
        return "key-error"
    if isinstance(e, IndexError):
        return "index-error"
    return "other:" + type(e).__name__


def rows(X):
    return [[frac_str(float(v)) for v in row] for row in X]


# ---------------------------------------------------------------------------------
# brute-force definitions (used by the monitors only)


def dominates(a, b):
    return all(x <= y for x, y in zip(a, b)) and any(x < y for x, y in zip(a, b))


def brute_mask(P):
    return [not any(dominates(q, p) for q in P) for p in P]


def brute_layers(P):
    """layer number of every point: repeated removal of the non-dominated points"""
    layer = [None] * len(P)
    rem = list(range(len(P)))
    t = 0
    while rem:
        front = [i for i in rem if not any(dominates(P[j], P[i]) for j in rem)]
        if not front:  # cannot happen (dominance is a strict partial order)
            raise RuntimeError("empty front")
        for i in front:
            layer[i] = t
        rem = [i for i in rem if layer[i] is None]
        t += 1
    return layer


# ---------------------------------------------------------------------------------
# point sets


def gen_points(rng, n, d, style):
    if style == "grid":
        g = rng.choice([1, 2, 2, 3, 4])
        return [[float(rng.randint(0, g)) for _ in range(d)] for _ in range(n)]
    if style == "dup":
        pool = [[float(rng.randint(0, 3)) for _ in range(d)] for _ in range(max(1, n // 3))]
        return [list(rng.choice(pool)) for _ in range(n)]
    if style == "const":
        p = [rng.randint(-2, 2) / 2.0 for _ in range(d)]
        return [list(p) for _ in range(n)]
    if style == "chain":
        base = sorted(rng.randint(0, 20) for _ in range(n))
        P = [[float(b + rng.choice([0, 0, 1])) for _ in range(d)] for b in base]
        rng.shuffle(P)
        return P
    if style == "antichain":
        xs = rng.sample(range(-50, 50), min(n, 100))
        P = [[x / 4.0 if k % 2 == 0 else -x / 4.0 for k in range(d)] for x in xs]
        return P
    if style == "neg":
        return [[-float(rng.randint(0, 3)) + rng.choice([0.0, 0.0, 0.5]) for _ in range(d)] for _ in range(n)]
    # general position: doubles with full mantissa
    return [[rng.uniform(-1, 1) * rng.choice([1.0, 1.0, 1e-3, 1e3]) for _ in range(d)] for _ in range(n)]


STYLES = ["grid", "grid", "grid", "dup", "dup", "const", "chain", "antichain", "neg", "general", "general"]


def run_points(spec):
    """spec: {"kind":"points","seed":int,"n":int,"d":int,"style":str,"combos":[[dim,max_items,flatten],...]}"""
    rng = random.Random(spec["seed"])
    np.random.seed(spec["seed"] % (2 ** 32))
    n, d = spec["n"], spec["d"]
    P = gen_points(rng, n, d, spec["style"])
    n = len(P)
    X = np.array(P, dtype=float).reshape(n, d)
    lines = [({"stream": "pareto"}, None)]
    events = []
    XR = rows(X)
    # pareto_efficient
    try:
        mask = [bool(b) for b in ndp.pareto_efficient(X.copy())]
        lines.append(({"op": "pareto", "X": XR}, {"mask": mask}))
        events.append({"ev": "pareto", "P": P, "mask": mask})
    except Exception as e:  # noqa
        lines.append(({"op": "pareto", "X": XR}, {"err": errname(e)}))
        events.append({"ev": "pareto-error", "P": P, "err": errname(e)})
    with EpsRecorder() as rec:
        for dim, mx, flat in spec["combos"]:
            inp = {"op": "nds", "X": XR, "max_items": mx, "flatten": flat}
            try:
                r = ndp.nondominated_sort(X.copy(), dim=dim, max_items=mx, flatten=flat)
                r = [int(i) for i in r] if flat else [[int(i) for i in l] for l in r]
                inp["eps"] = rec.take()
                lines.append((inp, {"result": r, "contract": True}))
                events.append({"ev": "nds", "P": P, "dim": dim, "max_items": mx, "flatten": flat, "result": r})
            except Exception as e:  # noqa
                inp["eps"] = rec.take()
                lines.append((inp, {"err": errname(e)}))
                events.append({"ev": "nds-error", "P": P, "dim": dim, "max_items": mx, "err": errname(e)})
        for dim, mx, _ in spec["combos"][:3]:
            inp = {"op": "priority", "X": XR, "max_num_samples": mx}
            try:
                p = mop.NonDominatedPriority(dim=dim, max_num_samples=mx)(X.copy())
                p = [int(v) for v in p]
                inp["eps"] = rec.take()
                lines.append((inp, {"priorities": p, "contract": True}))
                events.append({"ev": "priority", "P": P, "dim": dim, "max_num_samples": mx, "priorities": p})
            except Exception as e:  # noqa
                inp["eps"] = rec.take()
                lines.append((inp, {"err": errname(e)}))
                events.append({"ev": "priority-error", "P": P, "dim": dim, "max_num_samples": mx, "err": errname(e)})
    if n > 0 and d > 0:
        fd = rng.randrange(d)
        try:
            p = mop.FixedObjectivePriority(dim=fd)(X.copy())
            lines.append(({"op": "fixed", "X": XR, "dim": fd}, {"priorities": [frac_str(float(v)) for v in p]}))
        except Exception as e:  # noqa
            lines.append(({"op": "fixed", "X": XR, "dim": fd}, {"err": errname(e)}))
    return {"lines": lines, "events": events}


# ---------------------------------------------------------------------------------
# MOASHA


class _Log:
    def __init__(self):
        self.calls = []

    def take(self):
        c, self.calls = self.calls, []
        return c


def make_priority(pspec, log):
    kind = pspec["kind"]
    if kind == "nds":
        base, kw = mop.NonDominatedPriority, {"dim": pspec.get("dim", 0), "max_num_samples": pspec.get("max_num_samples")}
    elif kind == "fixed":
        base, kw = mop.FixedObjectivePriority, {"dim": pspec.get("dim")}
    else:
        w = pspec.get("weights")
        base, kw = mop.LinearScalarizationPriority, {"weights": None if w is None else np.array(w, dtype=float)}

    class Rec(base):
        def priority_unsafe(self, objectives):
            p = super().priority_unsafe(objectives)
            log.calls.append(([[float(v) for v in row] for row in objectives], [float(v) for v in p]))
            return p

    return Rec(**kw)


def snapshot(sch):
    rungs = [
        [[frac_str(m), [[int(t), [frac_str(v) for v in met.values()]] for t, met in rec.items()]] for m, rec in b._rungs]
        for b in sch._brackets
    ]
    info = [[int(t), next(i for i, b in enumerate(sch._brackets) if b is br)] for t, br in sch._trial_info.items()]
    return {"rungs": rungs, "trial_info": info, "num_stopped": int(sch._num_stopped)}


def digest(bracket):
    """rungs are append-only: milestone, number of entries, last entry"""
    return [[m, len(rec), rec[-1] if rec else None] for m, rec in bracket]


def light(snap):
    return {"trial_info": snap["trial_info"], "num_stopped": snap["num_stopped"]}


def metric_values(seed, tid, r, k, style):
    rr = random.Random(seed * 7919 + tid * 104729 + r * 31)
    if style == "grid":
        return [float(rr.randint(0, 2)) for _ in range(k)]
    if style == "const":
        return [0.5] * k
    if style == "worsening":
        # every new trial is worse than all earlier ones: rank n-1 of n at its first rung
        return [float(tid) + r / 64.0] * k
    lat = random.Random(seed * 31 + tid)
    base = [lat.randrange(0, 32) for _ in range(k)]
    if style == "tradeoff" and k >= 2:
        base[1] = 31 - base[0]
    return [(b + rr.randrange(-4, 5) / (1.0 + r)) / 32.0 + (tid % 5) / 4096.0 for b in base]


def run_moasha(spec):
    """spec: {"kind":"moasha","seed","max_t","grace_period","rf":"5/2","rf_int":bool,"brackets",
              "mode": "min"|"max"|[..], "k": int, "priority": {...}, "n_workers", "max_events",
              "style", "p_jump", "p_late", "p_short"}"""
    rng = random.Random(spec["seed"])
    np.random.seed(spec["seed"] % (2 ** 32))
    k = spec["k"]
    metrics = [f"m{i}" for i in range(k)]
    log = _Log()
    prio = make_priority(spec["priority"], log)
    rf_frac = Fraction(spec["rf"])
    rf = int(rf_frac) if spec.get("rf_int") and rf_frac.denominator == 1 else float(rf_frac)
    max_t = spec["max_t"]
    sch = MOASHA(
        config_space={"x": 1}, metrics=metrics, mode=spec["mode"], time_attr=TIME,
        multiobjective_priority=prio, max_t=max_t, grace_period=spec["grace_period"],
        reduction_factor=rf, brackets=spec["brackets"],
    )
    ops = [frac_str(sch._metric_op[m]) for m in metrics]
    pk = {"kind": spec["priority"]["kind"] if spec["priority"]["kind"] in ("nds", "fixed") else "recorded"}
    if pk["kind"] == "nds":
        pk["max_num_samples"] = spec["priority"].get("max_num_samples")
    if pk["kind"] == "fixed":
        pk["dim"] = prio.dim
    header = {"stream": "moasha", "max_t": max_t, "rf": frac_str(sch._reduction_factor), "ops": ops,
              "brackets": [[frac_str(m) for m, _ in b._rungs] for b in sch._brackets], "priority": pk}
    lines = [(header, snapshot(sch))]
    events = []
    trials, workers, late = {}, {}, []
    next_id = 0
    sink = io.StringIO()
    last_rungs = [lines[0][1]["rungs"]]

    def feed(op, tid, r, fn):
        raw = metric_values(spec["seed"], tid, r, k, spec["style"])
        # training scripts list their metrics in any order (and the resource anywhere among them)
        items = [(m, v) for m, v in zip(metrics, raw)] + [(TIME, r)]
        if spec.get("shuffle_keys", True):
            random.Random(spec["seed"] * 31 + tid * 7 + r).shuffle(items)
        res = dict(items)
        inp = {"op": op, "trial": tid, "iter": r, "metrics": [frac_str(v) for v in raw]}
        before = snapshot(sch)
        try:
            with contextlib.redirect_stdout(sink):
                d = fn(trials[tid], res)
        except Exception as e:  # noqa
            inp["eps"] = rec.take()
            log.take()
            lines.append((inp, {"err": errname(e)}))
            events.append({"ev": op + "-error", "trial": tid, "iter": r, "err": errname(e),
                           "untracked": tid not in dict((x, y) for x, y in before["trial_info"])})
            return "ERR"
        calls = log.take()
        inp["eps"] = rec.take()
        if pk["kind"] == "recorded" and calls:
            inp["prio"] = [frac_str(v) for v in calls[-1][1]]
        out = {"contract": True}
        if op == "result":
            inp["hint"] = d == SchedulerDecision.CONTINUE
            out["decision"] = d
        else:
            inp["hint"] = True
        after = snapshot(sch)
        last_rungs[0] = after["rungs"]
        # the line carries the rungs of the trial's own bracket only (the monitor sees all of them)
        bidx = dict((x, y) for x, y in before["trial_info"]).get(tid)
        out.update({"bracket_rungs": None if bidx is None else digest(after["rungs"][bidx]),
                    "trial_info": after["trial_info"], "num_stopped": after["num_stopped"]})
        lines.append((inp, out))
        events.append({"ev": op, "trial": tid, "iter": r, "raw": raw, "decision": d, "before": before, "after": after,
                       "prio_calls": calls})
        return d

    with EpsRecorder() as rec:
        for _ in range(spec["max_events"]):
            acts = []
            if len(workers) < spec["n_workers"]:
                acts += ["add"] * 2
            if workers:
                acts += ["report"] * 6
            if late and rng.random() < spec.get("p_late", 0):
                acts = ["late"]
            a = rng.choice(acts)
            if a == "add":
                tid = next_id
                next_id += 1
                trials[tid] = Trial(trial_id=tid, config={"x": 1}, creation_time=EPOCH0)
                with contextlib.redirect_stdout(sink):
                    sch.on_trial_add(trials[tid])
                snap = snapshot(sch)
                br = dict((t, b) for t, b in snap["trial_info"])[tid]
                lines.append(({"op": "add", "trial": tid, "bracket": br}, light(snap)))
                events.append({"ev": "add", "trial": tid, "bracket": br, "rungs_changed": snap["rungs"] != last_rungs[0]})
                upto = max_t if rng.random() >= spec.get("p_short", 0) else rng.randint(1, max_t)
                start = 1 if rng.random() >= spec.get("p_jump", 0) else rng.randint(1, max(1, max_t // 2))
                workers[tid] = [start, upto]
            elif a == "report":
                tid = rng.choice(sorted(workers))
                r, upto = workers[tid]
                d = feed("result", tid, r, sch.on_trial_result)
                if d == "ERR":
                    break
                step = 1 if rng.random() >= spec.get("p_jump", 0) else rng.randint(1, 3)
                workers[tid][0] = r + step
                if d != SchedulerDecision.CONTINUE:
                    del workers[tid]
                    sch.on_trial_remove(trials[tid])
                    snap = snapshot(sch)
                    lines.append(({"op": "remove", "trial": tid}, light(snap)))
                    events.append({"ev": "remove", "trial": tid, "rungs_changed": snap["rungs"] != last_rungs[0]})
                    late.append((tid, r + 1))
                elif r >= upto:
                    # the training script ends by itself: the loop hands the last result to on_trial_complete
                    d2 = feed("complete", tid, r, sch.on_trial_complete)
                    del workers[tid]
                    if d2 == "ERR":
                        break
                    late.append((tid, r + 1))
            elif a == "late":
                tid, r = late.pop(rng.randrange(len(late)))
                # a report of a trial the scheduler no longer tracks (KeyError below max_t, STOP at max_t)
                feed("result", tid, min(r, max_t + 1), sch.on_trial_result)
    return {"lines": lines, "events": events, "rf": Fraction(sch._reduction_factor), "max_t": max_t,
            "milestones": [[Fraction(m) for m, _ in b._rungs] for b in sch._brackets]}
