"""
Stream `sim`: the real `UserBlackboxBackend` (`_BlackboxSimulatorBackend` →
`SimulatorBackend` → `LocalBackend` → `TrialBackend`) over a synthetic in-memory
`BlackboxTabular`, driven through its public API (`start_trial`, `resume_trial`,
`pause_trial`, `stop_trial`, `stop_all`, `fetch_status_results`, `busy_trial_ids`), the
real `SimulatorCallback.on_tuning_sleep` and `time_keeper.advance`.

Real wall-clock: `time_keeper.py` calls `time.time()`; the module attribute `time` of
`syne_tune.backend.simulator_backend.time_keeper` is replaced by a harness clock that only
moves when the scenario says so (`tick`), by dyadic amounts, so "real time spent outside
the backend" is an exact input.

All numbers are sent as the exact rational of the Python float; the model computes sums
with correctly rounded binary64 arithmetic, so values need not be dyadic (most generated
values are k/64, some are arbitrary doubles, the default delays 0.05 are used too).
"""
import ast
import contextlib
import inspect
import io
import logging
import random
import sys
import textwrap
from fractions import Fraction

logging.disable(logging.CRITICAL)

import numpy as np
import pandas as pd

# optional dependency whose import crashes in this sandbox (ConfigSpace / numpy ABI); the
# repository treats a failing import as "YAHPO not installed"
try:
    with contextlib.redirect_stdout(io.StringIO()), contextlib.redirect_stderr(io.StringIO()):
        import yahpo_gym  # noqa: F401
except Exception:  # noqa
    sys.modules["yahpo_gym"] = None
with contextlib.redirect_stdout(io.StringIO()):
    from syne_tune.blackbox_repository.blackbox_tabular import BlackboxTabular
    from syne_tune.blackbox_repository.simulated_tabular_backend import (
        UserBlackboxBackend, _BlackboxSimulatorBackend,
    )
from syne_tune.backend.simulator_backend.simulator_backend import SimulatorConfig, SimulatorBackend
from syne_tune.backend.simulator_backend.simulator_callback import SimulatorCallback
from syne_tune.backend.simulator_backend.events import (
    StartEvent, CompleteEvent, StopEvent, OnTrialResultEvent,
)
import syne_tune.backend.simulator_backend.time_keeper as tk_mod
from syne_tune.backend.trial_status import TrialResult, Status
from syne_tune.config_space import randint
from syne_tune.constants import ST_TUNER_TIME

from framework import frac_str, default_compare

RES, ET, MAXATTR = "epoch", "t", "epochs"


class HarnessClock:
    """stands in for the `time` module inside time_keeper.py"""

    def __init__(self):
        self.now = 1024.0

    def time(self):
        return self.now


CLOCK = HarnessClock()
tk_mod.time = CLOCK


def float_literals(fn):
    """distinct float literals in the source of a function"""
    tree = ast.parse(textwrap.dedent(inspect.getsource(fn)))
    return sorted({n.value for n in ast.walk(tree) if isinstance(n, ast.Constant) and isinstance(n.value, float)})


def code_constants():
    g = float_literals(SimulatorBackend._stop_or_pause_trial)
    m = float_literals(_BlackboxSimulatorBackend._run_job_and_collect_results)
    if len(g) != 1 or len(m) != 1:
        raise RuntimeError(f"cannot read the literal constants of the simulator: guards {g}, repair {m}")
    return g[0], m[0]


def dy(rng, lo, hi, den=64):
    return rng.randint(int(lo * den), int(hi * den)) / den


def make_table(tspec):
    """tspec: {"seed", "n_cfg", "n_seeds", "fids": [...], "n_obj", "tcol", "time": style, "vals": style}"""
    rng = random.Random(tspec["seed"])
    n_cfg, n_seeds, fids, n_obj, tcol = tspec["n_cfg"], tspec["n_seeds"], tspec["fids"], tspec["n_obj"], tspec["tcol"]
    ev = np.zeros((n_cfg, n_seeds, len(fids), n_obj))
    for c in range(n_cfg):
        for s in range(n_seeds):
            style = tspec["time"]
            if style == "mixed":
                style = rng.choice(["cumulative", "noisy", "nonmonotone", "flat", "float"])
            acc = 0.0
            for f in range(len(fids)):
                for o in range(n_obj):
                    if o == tcol:
                        if style == "cumulative":
                            acc += dy(rng, 1 / 64, 2)
                            v = acc
                        elif style == "noisy":
                            acc += dy(rng, 0, 1)
                            v = max(0.0, acc + dy(rng, -1, 1))
                        elif style == "nonmonotone":
                            v = dy(rng, 0, 4)
                        elif style == "flat":
                            v = 0.5
                        elif style == "unit":
                            v = float(f + 1)
                        else:  # arbitrary doubles
                            acc += rng.random()
                            v = acc
                    else:
                        v = dy(rng, -4, 4) if tspec.get("vals", "dyadic") == "dyadic" else rng.random()
                    ev[c, s, f, o] = v
    return ev


def build_backend(ctor, ev):
    n_cfg = ev.shape[0]
    hp = pd.DataFrame({"x": np.arange(n_cfg), "y": np.arange(n_cfg)[::-1]})
    if ctor["table"].get("swap_cols"):
        # the columns of the table in another order than the keys of the configuration space (the constructor only
        # compares the sets of names); the swapped pair (y, x) is a row of the table as well
        hp = hp[["y", "x"]]
    names = ["m%d" % i for i in range(ev.shape[3])]
    names[ctor["table"]["tcol"]] = ET
    fids = ctor["table"]["fids"]
    bb = BlackboxTabular(
        hyperparameters=hp, configuration_space={"x": randint(0, max(1, n_cfg - 1)), "y": randint(0, max(1, n_cfg - 1))},
        fidelity_space={RES: randint(1, max(fids))}, objectives_evaluations=ev,
        fidelity_values=np.array(fids), objectives_names=names)
    d = ctor["delays"]
    sc = SimulatorConfig(**{k: float(Fraction(v)) for k, v in d.items()})
    be = UserBlackboxBackend(
        blackbox=bb, elapsed_time_attr=ET, max_resource_attr=MAXATTR if ctor["max_resource_attr"] else None,
        seed=ctor["seed"], support_checkpointing=ctor["checkpointing"], simulator_config=sc,
        tuner_sleep_time=float(Fraction(ctor["sleep"])))
    cb = SimulatorCallback()
    cb._time_keeper = be.time_keeper
    cb._tuner_sleep_time = be.tuner_sleep_time
    return be, cb, names


def gen_ctor(rng):
    """constructor line of the protocol (plain data)"""
    F = rng.randint(1, 6)
    fids = list(range(1, F + 1))
    if rng.random() < 0.2:
        fids = sorted(rng.sample(range(1, 13), F))
    n_obj = rng.randint(1, 3)
    if rng.random() < 0.25:
        delays = {k: "1/20" for k in ("delay_on_trial_result", "delay_complete_after_final_report",
                                      "delay_complete_after_stop", "delay_start", "delay_stop")}
        delays = {k: frac_str(0.05) for k in delays}
    else:
        dr = dy(rng, 0, 1) if rng.random() < 0.7 else 0.0
        delays = {"delay_on_trial_result": frac_str(dr),
                  "delay_complete_after_final_report": frac_str(dr + (dy(rng, 0, 1) if rng.random() < 0.7 else 0.0)),
                  "delay_complete_after_stop": frac_str(dy(rng, 0, 1) if rng.random() < 0.7 else 0.0),
                  "delay_start": frac_str(dy(rng, 0, 1) if rng.random() < 0.7 else 0.0),
                  "delay_stop": frac_str(dy(rng, 0, 2) if rng.random() < 0.8 else 0.0)}
    guard, min_step = code_constants()
    table = {"seed": rng.randrange(10 ** 9), "n_cfg": rng.randint(1, 4), "n_seeds": rng.randint(1, 3),
             "fids": fids, "n_obj": n_obj, "tcol": rng.randrange(n_obj),
             "time": rng.choice(["cumulative", "cumulative", "noisy", "nonmonotone", "mixed", "flat", "float"]),
             "vals": rng.choice(["dyadic", "dyadic", "float"])}
    if rng.random() < 0.3:
        table["swap_cols"] = True
    n_seeds = table["n_seeds"]
    return {"delays": delays, "sleep": frac_str(rng.choice([0.0, 0.125, 0.25, 0.5, 1.0, 0.1])),
            "guard": frac_str(guard), "min_step": frac_str(min_step), "table": table,
            "checkpointing": rng.random() < 0.7, "max_resource_attr": rng.random() < 0.5,
            "seed": rng.randrange(n_seeds) if rng.random() < 0.4 else None}


def errname(e):
    if isinstance(e, AssertionError):
        return "assertion"
    if isinstance(e, KeyError):
        return "key-error"
    return "other:" + type(e).__name__


def kind_of(ev):
    if isinstance(ev, StartEvent):
        return ["start"]
    if isinstance(ev, CompleteEvent):
        return ["complete", ev.status]
    if isinstance(ev, StopEvent):
        return ["stop"]
    if isinstance(ev, OnTrialResultEvent):
        return ["result", int(ev.result[RES])]
    return ["?"]


def snapshot(be):
    heap = sorted(be._simulator_state.event_heap, key=lambda x: (x[0], x[1]))
    trials = []
    for t in range(len(be.trial_ids)):
        tr = be._trial_dict.get(t)
        if tr is None:
            break
        isres = isinstance(tr, TrialResult)
        trials.append([isres, getattr(tr, "status", Status.in_progress)])
    return {
        "now": frac_str(be.time_keeper.time()),
        "heap": [[frac_str(tm), int(c), int(e.trial_id), kind_of(e)] for tm, c, e in heap],
        "added": int(be._simulator_state.events_added),
        "next": sorted([int(t), len(l)] for t, l in be._next_results_to_fetch.items()),
        "seen": sorted([int(t), int(n)] for t, n in be._last_metric_seen_index.items()),
        "busy": sorted(int(t) for t in be._busy_trial_ids),
        "trials": trials,
        "seed_for": sorted([int(t), int(s)] for t, s in be._seed_for_trial.items()),
        "paused": sorted([int(t), int(r)] for t, r in be._resource_paused_for_trial.items()),
    }


def config_of(c):
    cfg = {"x": c["idx"], "y": c["n_cfg"] - 1 - c["idx"]}
    if c.get("max_res") is not None:
        cfg[MAXATTR] = c["max_res"]
    return cfg


def apply_op(be, cb, names, n_cfg, op):
    k = op["op"]
    out = {}
    seeds_before = dict(be._seed_for_trial)
    try:
        if k == "start":
            c = dict(op["cfg"], n_cfg=n_cfg)
            tr = be.start_trial(config_of(c))
            out["trial"] = int(tr.trial_id)
        elif k == "resume":
            nc = None if op.get("cfg") is None else config_of(dict(op["cfg"], n_cfg=n_cfg))
            be.resume_trial(op["trial"], new_config=nc)
        elif k == "pause":
            res = None if op.get("level") is None else {RES: op["level"]}
            be.pause_trial(op["trial"], result=res)
        elif k == "stop":
            be.stop_trial(op["trial"], result=None)
        elif k == "fetch":
            sd, res = be.fetch_status_results(list(op["ids"]))
            out["status"] = [[int(t), sd[t][1]] for t in op["ids"]]
            out["delivered"] = [[int(t), int(r[RES]), [frac_str(r[n]) for n in names], frac_str(r[ST_TUNER_TIME])]
                                for t, r in res]
        elif k == "busy":
            out["busy_ids"] = sorted(int(t) for t, _ in be.busy_trial_ids())
        elif k == "sleep":
            cb.on_tuning_sleep(0.0)
        elif k == "advance":
            be.time_keeper.advance(float(Fraction(op["dt"])))
        elif k == "tick":
            CLOCK.now += float(Fraction(op["dt"]))
        elif k == "stop_all":
            be.stop_all()
        else:
            raise ValueError(k)
    except Exception as e:  # noqa
        out = {"err": errname(e)}
    op["seeds"] = sorted([int(t), int(s)] for t, s in be._seed_for_trial.items() if t not in seeds_before)
    if "err" not in out:
        out.update(snapshot(be))
    return out


def compare(inp, impl, model):
    if impl is None:
        return None
    if "stream" in inp:
        return None if "out" in model else f"model init error {model}"
    if "err" in impl:
        if "err" not in model:
            return f"impl raised {impl['err']} model gave {str(model)[:200]}"
        n = len(impl["err"].split(":"))
        if model["err"].split(":")[:n] != impl["err"].split(":"):
            return f"impl raised {impl['err']} model raised {model['err']}"
        return None
    return default_compare(inp, impl, model)


def run_scenario(spec):
    """spec: {"ctor": {...}, "np_seed": int, "ops": [...]}  explicit history, or
             {"ctor": {...}, "np_seed": int, "seed": int, "steps": int, "n_workers": int, "p": {...}}.
    returns dict(lines, events, hist, table)"""
    ctor = dict(spec["ctor"])
    ev = make_table(ctor["table"])
    CLOCK.now = 1024.0
    np.random.seed(spec.get("np_seed", 0))
    be, cb, names = build_backend(ctor, ev)
    be.time_keeper.start_of_time()
    header = dict(ctor)
    header["stream"] = "sim"
    header["table"] = {"fids": [int(f) for f in ctor["table"]["fids"]], "tcol": int(ctor["table"]["tcol"]),
                       "num_seeds": int(ev.shape[1]),
                       "data": [[[[frac_str(float(v)) for v in ev[c, s, f]] for f in range(ev.shape[2])]
                                 for s in range(ev.shape[1])] for c in range(ev.shape[0])]}
    lines = [(header, {})]
    events = []
    hist = {}
    n_cfg = ev.shape[0]

    def count(k, n=1):
        hist[k] = hist.get(k, 0) + n

    def do(op):
        now_before = be.time_keeper.time()
        real_before = CLOCK.now - be.time_keeper._last_recent_exit
        out = apply_op(be, cb, names, n_cfg, op)
        op["_outside"] = frac_str(real_before)
        lines.append((op, out))
        events.append({"op": {k: v for k, v in op.items()}, "now_before": frac_str(now_before),
                       "now": frac_str(be.time_keeper.time()), "real": CLOCK.now,
                       "last_exit": be.time_keeper._last_recent_exit,
                       "out": {k: out[k] for k in ("delivered", "status", "err", "trial", "busy_ids") if k in out},
                       "heap_trials": sorted(set(int(e.trial_id) for _, _, e in be._simulator_state.event_heap)),
                       "seed_for": dict(be._seed_for_trial)})
        count("op:" + op["op"])
        if "err" in out:
            count("err:" + out["err"])
        return out

    if "ops" in spec:
        for op in spec["ops"]:
            out = do(dict(op))
            if "err" in out:
                break
        return {"lines": lines, "events": events, "hist": hist, "table": ev, "names": names}

    rng = random.Random(spec["seed"])
    p = spec.get("p", {})
    n_workers = spec.get("n_workers", 3)
    fids = ctor["table"]["fids"]
    running, paused = [], {}
    last_level = {}
    for _ in range(spec.get("steps", 40)):
        acts = ["sleep"] * 6
        if len(running) < n_workers:
            acts += ["start"] * 4
        if running:
            acts += ["fetch"] * 8
            if rng.random() < p.get("direct_cmd", 0.2):
                acts += ["pause", "stop"]
        if paused:
            acts += ["resume"] * 3
        acts += ["tick", "busy", "advance"]
        if be.trial_ids and rng.random() < p.get("odd_fetch", 0.15):
            acts += ["odd_fetch"]
        if be.trial_ids and rng.random() < p.get("bad", 0.04):
            acts += ["bad"]
        a = rng.choice(acts)
        out = None
        if a == "start":
            c = {"idx": rng.randrange(n_cfg)}
            if rng.random() < 0.5:
                c["max_res"] = rng.choice(fids + [max(fids) + 1] + ([0] if rng.random() < 0.05 else []))
            else:
                c["max_res"] = None
            out = do({"op": "start", "cfg": c})
            if "err" not in out:
                running.append(out["trial"])
        elif a == "sleep":
            out = do({"op": "sleep"})
        elif a == "advance":
            out = do({"op": "advance", "dt": frac_str(dy(rng, 0, 2))})
        elif a == "tick":
            out = do({"op": "tick", "dt": frac_str(dy(rng, 0, 1))})
        elif a == "busy":
            out = do({"op": "busy"})
        elif a in ("fetch", "odd_fetch"):
            if a == "fetch":
                ids = list(running)
            else:
                ids = [t for t in be.trial_ids if rng.random() < 0.5]
                count("fetch-subset")
            out = do({"op": "fetch", "ids": ids})
            if "err" in out:
                break
            # decisions of a scheduler, possibly in the middle of the batch
            done = set()
            for t, lv, _, _ in out["delivered"]:
                if t in done or t not in running:
                    continue
                last_level[t] = lv
                r = rng.random()
                if r < p.get("p_pause", 0.2):
                    lvl = lv if rng.random() < 0.9 else None
                    o2 = do({"op": "pause", "trial": t, "level": lvl})
                    if "err" in o2:
                        out = o2
                        break
                    done.add(t)
                    running.remove(t)
                    paused[t] = lvl
                    count("pause-after-result")
                    if rng.random() < p.get("p_resume_now", 0.35):
                        nc = None
                        if rng.random() < 0.3:
                            nc = {"idx": rng.randrange(n_cfg), "max_res": rng.choice(fids + [None])}
                        o3 = do({"op": "resume", "trial": t, "cfg": nc})
                        if "err" not in o3:
                            del paused[t]
                            running.append(t)
                            count("resume-immediately")
                elif r < p.get("p_pause", 0.2) + p.get("p_stop", 0.1):
                    o2 = do({"op": "stop", "trial": t})
                    if "err" in o2:
                        out = o2
                        break
                    done.add(t)
                    running.remove(t)
                    count("stop-after-result")
            for t, st in out.get("status", []) if "err" not in out else []:
                if st in (Status.completed, Status.failed) and t in running and t not in done:
                    running.remove(t)
                    count("completed-seen")
        elif a == "resume":
            t = rng.choice(sorted(paused))
            nc = None
            if rng.random() < 0.3:
                nc = {"idx": rng.randrange(n_cfg), "max_res": rng.choice(fids + [None])}
            out = do({"op": "resume", "trial": t, "cfg": nc})
            if "err" not in out:
                del paused[t]
                running.append(t)
                count("resume-later")
        elif a == "pause":
            t = rng.choice(running)
            out = do({"op": "pause", "trial": t, "level": last_level.get(t) if rng.random() < 0.8 else None})
            if "err" not in out:
                running.remove(t)
                paused[t] = last_level.get(t)
        elif a == "stop":
            t = rng.choice(running)
            out = do({"op": "stop", "trial": t})
            if "err" not in out:
                running.remove(t)
        elif a == "bad":
            n = len(be.trial_ids)
            op = rng.choice([{"op": "resume", "trial": rng.randrange(n), "cfg": None},
                             {"op": "resume", "trial": n + 1, "cfg": None},
                             {"op": "pause", "trial": n, "level": 1},
                             {"op": "advance", "dt": "-1/2"}])
            out = do(op)
            if "err" not in out and op["op"] == "resume":
                t = op["trial"]
                paused.pop(t, None)
                if t not in running:
                    running.append(t)
        if out is not None and "err" in out and out["err"] not in ("assertion", "other:AttributeError"):
            break
        if out is not None and "err" in out and a not in ("bad",):
            break
    else:
        if rng.random() < p.get("stop_all", 0.5):
            o = do({"op": "stop_all"})
            if "err" not in o:
                do({"op": "fetch", "ids": list(range(len(be.trial_ids)))})
    return {"lines": lines, "events": events, "hist": hist, "table": ev, "names": names}


# ---------------------------------------------------------------------------------
# reading of the property statements on an implementation trace (used by the C02 / C10 monitors)

TOL = Fraction(1, 2 ** 40)


def close(a, b):
    """equal up to floating-point round-off (the code computes sums of a few doubles)"""
    return abs(a - b) <= TOL * max(1, abs(a), abs(b))


def expected_run(ctor, ev, cfg, seed, paused_level):
    """what one run of a trial must report according to C10, in exact arithmetic:
    list of (level, [table values], elapsed') — levels inside [min fidelity, max_resource],
    after the paused level for a checkpointed resume; elapsed' = table time rebased by the time at
    the paused level, then made increasing by at least `min_step`"""
    fids = ctor["table"]["fids"]
    tcol = ctor["table"]["tcol"]
    min_step = Fraction(ctor["min_step"])
    hi = max(fids)
    if ctor["max_resource_attr"] and cfg.get("max_res") is not None:
        hi = cfg["max_res"]
    rows = []
    for i, f in enumerate(fids):
        if min(fids) <= f <= hi:
            rows.append((f, [Fraction(float(v)) for v in ev[cfg["idx"], seed, i]]))
    off = Fraction(0)
    if paused_level is not None and ctor["checkpointing"]:
        for f, vals in rows:
            if f == paused_level:
                off = vals[tcol]
        rows = [(f, vals) for f, vals in rows if f > paused_level]
    out = []
    prev = None
    for f, vals in rows:
        e = vals[tcol] - off
        e = max(e, min_step) if prev is None else max(e, prev + min_step)
        prev = e
        out.append((f, vals, e))
    return out


def reconstruct(spec, trace):
    """replays the observed operations (not the backend) and assigns every delivered result to
    the run it must stem from.  Returns (runs, deliveries, problems): runs[t] = list of dicts
    (start, expected, cfg, seed, paused); deliveries = list of dicts per delivered result."""
    ctor = spec["ctor"]
    ev = trace["table"]
    tcol = ctor["table"]["tcol"]
    d_start = Fraction(ctor["delays"]["delay_start"])
    d_res = Fraction(ctor["delays"]["delay_on_trial_result"])
    events = trace["events"]
    final_seeds = events[-1]["seed_for"] if events else {}
    runs, cfgs, paused, deliveries, problems = {}, {}, {}, [], []

    def seed_of(t):
        return ctor["seed"] if ctor["seed"] is not None else final_seeds.get(t)

    def new_run(t, now):
        sd = seed_of(t)
        exp = None
        if sd is not None:
            try:
                exp = expected_run(ctor, ev, cfgs[t], sd, paused.get(t))
            except Exception:  # configuration outside the table etc.: the backend must raise
                exp = None
        runs.setdefault(t, []).append({"start": Fraction(now) + d_start, "expected": exp, "cfg": dict(cfgs[t]),
                                      "seed": sd, "paused": paused.get(t)})

    for k, e in enumerate(events):
        op = e["op"]
        if "err" in e["out"]:
            continue
        if op["op"] == "start":
            t = e["out"]["trial"]
            cfgs[t] = dict(op["cfg"])
            new_run(t, e["now"])
        elif op["op"] == "resume":
            t = op["trial"]
            if op.get("cfg") is not None:
                cfgs[t] = dict(op["cfg"])
            new_run(t, e["now"])
        elif op["op"] == "pause":
            if op.get("level") is not None:
                paused[op["trial"]] = op["level"]
        elif op["op"] == "fetch":
            for t, lv, vals, tm in e["out"]["delivered"]:
                vals = [Fraction(v) for v in vals]
                tm = Fraction(tm)
                cands, near = [], []
                for ri, r in enumerate(runs.get(t, [])):
                    if r["expected"] is None:
                        continue
                    for idx, (f, tv, el) in enumerate(r["expected"]):
                        if f != lv:
                            continue
                        same_vals = all(a == b for j, (a, b) in enumerate(zip(vals, tv)) if j != tcol) and close(vals[tcol], el)
                        if same_vals and close(tm, r["start"] + el + d_res):
                            cands.append((ri, idx))
                        elif same_vals:
                            near.append((ri, idx, r["start"] + el + d_res))
                rec = {"event": k, "trial": t, "level": lv, "time": tm, "run": None, "idx": None}
                if cands:
                    rec["run"], rec["idx"] = cands[-1]
                else:
                    problems.append({"kind": "timestamp" if near else "values", "trial": t, "level": lv,
                                     "time": str(tm), "values": [str(v) for v in vals],
                                     "expected_stamps": [str(x[2]) for x in near], "event": k})
                deliveries.append(rec)
    return runs, deliveries, problems
