"""
Stream `gp` (C08, C09): the real Gaussian-process numerics of /repo
(`gpautograd/posterior_state.py`, `posterior_utils.py`, `custom_op.py`,
`models/meanstd_acqfunc*.py`) against the `Rat` twin `lean/SyneTune/Model/GPExec.lean`.

Two kinds of cases

* exact twin (`exact08`, `exact09`): the real classes are driven with *stub* kernel / mean /
  predictor / random-state objects that return prescribed dyadic rationals, so that model
  and code see the same numbers; the model evaluates the same expressions exactly and the
  two are compared within a round-off bound scaled by the conditioning of the triangular
  factor (rule in `tol_for`).  `sqrt` enters the twin as a hint checked by squaring; the success of
  `potrf` inside `AddJitterOp` is "all pivots positive" in exact arithmetic, with the outcomes for
  pivots within 2^-40 of zero (and for the loop bound within 2^-30) reported as alternatives
  (free decisions).
* end to end (`e2e08`, `e2e09_fit`, `e2e09_acq`, `heads`): real kernels / likelihood / predictor
  against independent dense references (exact `Fraction` linear algebra on the kernel
  matrices the real kernel objects produce; Richardson-extrapolated central differences).
  These produce monitor findings only (no model lines).
"""
import logging
import math
import random
from fractions import Fraction

import numpy as np

logging.disable(logging.CRITICAL)
import warnings  # noqa: E402
warnings.filterwarnings("ignore", category=RuntimeWarning)  # log(0) in nll of a singular factor (corpus case)

import autograd.numpy as anp  # noqa: E402
from scipy.linalg import LinAlgError  # noqa: E402

from syne_tune.optimizer.schedulers.searchers.bayesopt.gpautograd import constants as C  # noqa: E402
from syne_tune.optimizer.schedulers.searchers.bayesopt.gpautograd.kernel import (  # noqa: E402
    KernelFunction, Matern52, ProductKernelFunction, ExponentialDecayResourcesKernelFunction,
    ExponentialDecayResourcesMeanFunction,
)
from syne_tune.optimizer.schedulers.searchers.bayesopt.gpautograd.mean import (  # noqa: E402
    MeanFunction, ScalarMeanFunction, ZeroMeanFunction,
)
from syne_tune.optimizer.schedulers.searchers.bayesopt.gpautograd.warping import WarpedKernel, Warping  # noqa: E402
from syne_tune.optimizer.schedulers.searchers.bayesopt.gpautograd.posterior_state import (  # noqa: E402
    GaussProcPosteriorState, IncrementalUpdateGPPosteriorState,
)
from syne_tune.optimizer.schedulers.searchers.bayesopt.gpautograd import custom_op  # noqa: E402
from syne_tune.optimizer.schedulers.searchers.bayesopt.gpautograd.likelihood import (  # noqa: E402
    GaussianProcessMarginalLikelihood,
)
from syne_tune.optimizer.schedulers.searchers.bayesopt.gpautograd.optimization_utils import (  # noqa: E402
    create_lbfgs_arguments, ParamVecDictConverter,
)
from syne_tune.optimizer.schedulers.searchers.bayesopt.models import meanstd_acqfunc_impl as AF  # noqa: E402
from syne_tune.optimizer.schedulers.searchers.bayesopt.tuning_algorithms.base_classes import Predictor  # noqa: E402

from framework import frac_str  # noqa: E402

U = 2.0 ** -53
JOINT_JITTER = 1e-5      # literal in sample_posterior_joint
STD_CLAMP = 1e-10        # literal in get_quantiles


def header():
    return {"stream": "gp", "min_var": frac_str(C.MIN_POSTERIOR_VARIANCE),
            "min_chol_diag": frac_str(C.MIN_CHOLESKY_DIAGONAL_VALUE),
            "joint_jitter": frac_str(JOINT_JITTER), "std_clamp": frac_str(STD_CLAMP),
            "jitter_init_factor": frac_str(C.NOISE_VARIANCE_LOWER_BOUND),
            "jitter_growth": frac_str(custom_op.JITTER_GROWTH),
            "jitter_ub_factor": frac_str(custom_op.JITTER_UPPERBOUND_FACTOR)}


def fl(x):
    """numpy -> nested python floats"""
    return np.asarray(x, dtype=float).tolist()


def fs(x):
    """numpy -> nested exact rational strings"""
    a = np.asarray(x, dtype=float)
    if a.ndim == 0:
        return frac_str(float(a))
    return [fs(r) for r in a]


def dy(rng, lo, hi, q):
    """dyadic rational in [lo, hi] on the grid 1/q (q a power of two)"""
    return rng.randint(int(lo * q), int(hi * q)) / q


# ---------------------------------------------------------------------------------
# stubs


def ids(X):
    return np.asarray(X, dtype=float)[:, 0].astype(int)


class TableKernel(KernelFunction):
    """kernel on integer point ids: k(i, j) = G[i, j] (prescribed numbers)"""

    def __init__(self, G, **kw):
        super().__init__(dimension=1, **kw)
        self.G = np.array(G, dtype=float)

    def forward(self, X1, X2):
        return self.G[np.ix_(ids(X1), ids(X2))]

    def diagonal(self, X):
        i = ids(X)
        return self.G[i, i]

    def diagonal_depends_on_X(self):
        return True

    def param_encoding_pairs(self):
        return []

    def get_params(self):
        return {}

    def set_params(self, param_dict):
        pass


class TableMean(MeanFunction):
    def __init__(self, mu, **kw):
        super().__init__(**kw)
        self.mu = np.array(mu, dtype=float)

    def forward(self, X):
        return self.mu[ids(X)]

    def param_encoding_pairs(self):
        return []

    def get_params(self):
        return {}

    def set_params(self, param_dict):
        pass


class StubNormal:
    """random_state whose `normal` returns the prescribed arrays in turn"""

    def __init__(self, draws):
        self.draws = list(draws)
        self.k = 0

    def normal(self, *a, size=None, **kw):
        d = np.array(self.draws[self.k], dtype=float)
        self.k += 1
        if size is not None:
            assert tuple(np.atleast_1d(size)) == d.shape, (size, d.shape)
        return d


def errname(e):
    if isinstance(e, AssertionError):
        return "assertion"
    if isinstance(e, (LinAlgError, np.linalg.LinAlgError)):
        return "singular"
    return "other:" + type(e).__name__


# ---------------------------------------------------------------------------------
# exact twin, C08


def gen_exact08(rng, tier):
    big = tier == "thorough"
    n = rng.choice([1, 2, 2, 3, 3, 4, 5, 6] + ([7, 8, 10] if big else []))
    m = rng.choice([1, 1, 1, 2, 3, 5])
    t = rng.choice([1, 2, 3, 4])
    return {"kind": "exact08", "seed": rng.randrange(10 ** 9), "n": n, "m": m, "t": t,
            "pow2diag": rng.random() < 0.35, "neg_diag": rng.random() < 0.15,
            "tuple_scale": rng.random() < 0.6, "clamp_update": rng.random() < 0.15,
            "clamp_var": rng.random() < 0.15, "garbage_upper": rng.random() < 0.05,
            "zero_mean": rng.random() < 0.3, "singular": rng.random() < 0.02,
            "mask": rng.random() < 0.4}


def build_exact08(spec):
    rng = random.Random(spec["seed"])
    n, m, t = spec["n"], spec["m"], spec["t"]
    L = np.zeros((n, n))
    for i in range(n):
        for j in range(i):
            L[i, j] = dy(rng, -1, 1, 16)
        L[i, i] = rng.choice([0.5, 1.0, 2.0]) if spec["pow2diag"] else dy(rng, 0.5, 2.5, 16)
        if spec["neg_diag"] and rng.random() < 0.5:
            L[i, i] = -L[i, i]
    if spec["garbage_upper"]:
        for i in range(n):
            for j in range(i + 1, n):
                L[i, j] = dy(rng, -1, 1, 8)
    if spec["singular"]:
        k = rng.randrange(n)
        L[k, k] = 0.0
    P = np.array([[dy(rng, -2, 2, 32) for _ in range(m)] for _ in range(n)]).reshape(n, m)
    N = n + t + 1  # ids: 0..n-1 train, n..n+t-1 test, n+t the new point
    G = np.zeros((N, N))
    for i in range(N):
        for j in range(i + 1):
            G[i, j] = G[j, i] = dy(rng, -1, 1, 32)
    scale = rng.choice([0.5, 2.0, 4.0] if spec["pow2diag"] else [0.5, 0.75, 1.25, 2.0, 3.0]) if spec["tuple_scale"] else 1.0
    mu = np.zeros(N) if spec["zero_mean"] else np.array([dy(rng, -1, 1, 16) for _ in range(N)])
    noise = dy(rng, 1 / 64, 1, 64)
    # test-point prior variances large enough to keep the joint covariance positive definite
    Lt = np.tril(L)
    ok = not spec["singular"]
    if ok:
        V = np.linalg.solve(Lt, G[:n, n:n + t] * scale)
        vv = V.T @ V
        c = math.ceil(float(np.abs(vv).sum(axis=1).max()) / scale) + 2
        for a in range(t):
            for b in range(t):
                G[n + a, n + b] = (c if a == b else 0.0) + (dy(rng, -0.25, 0.25, 32) if a != b else dy(rng, 0, 1, 32))
                G[n + b, n + a] = G[n + a, n + b]
        if spec["clamp_var"]:
            G[n, n] = dy(rng, 0, 0.25, 32)  # marginal variance of the first test point gets clamped
        lv = np.linalg.solve(Lt, G[:n, N - 1] * scale)
        ll = float(lv @ lv)
        if spec["clamp_update"]:
            G[N - 1, N - 1] = math.floor(max(0.0, ll - noise) / scale * 16) / 16 - dy(rng, 0, 1, 16)
        elif spec["pow2diag"]:
            lam = dy(rng, 0.25, 2, 16)
            lvq = fsolve_lower(Lt, [Fraction(x) * Fraction(scale) for x in G[:n, N - 1]])
            kd = (sum(x * x for x in lvq) + Fraction(lam) ** 2 - Fraction(noise)) / Fraction(scale)
            G[N - 1, N - 1] = float(kd)
            if Fraction(G[N - 1, N - 1]) != kd:
                G[N - 1, N - 1] = math.ceil((ll + 0.25) / scale * 16) / 16
        else:
            G[N - 1, N - 1] = math.ceil((ll + dy(rng, 0.125, 2, 16)) / scale * 16) / 16
    target = np.array([dy(rng, -2, 2, 32) for _ in range(m)])
    n01 = np.array([dy(rng, -2, 2, 16) for _ in range(m)])
    mask = [rng.random() < 0.5 for _ in range(m)] if spec["mask"] else None
    return dict(n=n, m=m, t=t, L=L, P=P, G=G, scale=scale, mu=mu, noise=noise, target=target, n01=n01, mask=mask, N=N)


def rng_case(spec, salt):
    return random.Random(spec["seed"] * 31 + salt)


def fsolve_lower(L, b):
    """exact forward substitution (Fractions) — used by generators and references only"""
    n = len(b)
    x = []
    for i in range(n):
        s = b[i] - sum(Fraction(L[i][j]) * x[j] for j in range(i))
        x.append(s / Fraction(L[i][i]))
    return x


def make_state(d, L=None, P=None, nfeat=None):
    kern = TableKernel(d["G"])
    mean = TableMean(d["mu"])
    kernel = (kern, np.array([d["scale"]])) if d["scale"] != 1.0 or d.get("force_tuple") else kern
    n = d["n"] if nfeat is None else nfeat
    feats = np.arange(n, dtype=float).reshape(-1, 1)
    return IncrementalUpdateGPPosteriorState(
        features=feats, targets=None, mean=mean, kernel=kernel, noise_variance=np.array([d["noise"]]),
        chol_fact=np.array(d["L"] if L is None else L), pred_mat=np.array(d["P"] if P is None else P))


def cond_of(L):
    Lt = np.tril(np.asarray(L, dtype=float))
    if np.any(np.diag(Lt) == 0):
        return float("inf")
    return float(np.linalg.cond(Lt))


def run_exact08(spec):
    d = build_exact08(spec)
    n, m, t, N = d["n"], d["m"], d["t"], d["N"]
    lines = [(header(), {})]
    hist = {"exact08": 1, f"n={n}": 1, f"m={m}": 1}
    cond = cond_of(d["L"])
    base = {"L": fs(d["L"]), "P": fs(d["P"]), "scale": frac_str(d["scale"])}
    test = np.arange(n, n + t, dtype=float).reshape(-1, 1)
    G, sc = d["G"], d["scale"]
    st = make_state(d)

    def call(f):
        try:
            return f(), None
        except Exception as e:  # noqa
            return None, {"err": errname(e)}

    # predict
    inp = dict(base, op="predict", Ks=fs(G[:n, n:n + t]), kd=fs(np.diag(G)[n:n + t]), ms=fs(d["mu"][n:n + t]))
    r, err = call(lambda: st.predict(test))
    if err:
        lines.append((inp, err)); hist["err:" + err["err"]] = 1
    else:
        means, variances = r
        lines.append((inp, {"means": fl(means), "vars": fl(variances), "_cond": cond}))
        hist["var_clamped"] = int(np.sum(np.asarray(variances) <= C.MIN_POSTERIOR_VARIANCE))
    # nll (assertion for m > 1)
    inp = dict(base, op="nll")
    r, err = call(lambda: float(st.neg_log_likelihood()))
    lines.append((inp, err if err else {"nll": r, "_cond": cond}))
    if err:
        hist["err:nll:" + err["err"]] = 1
    # joint
    S = t + 1
    draws = []
    for s in range(S):
        a = np.zeros((t, m, 1))
        if s < t:
            a[s, :, 0] = 1.0
        draws.append(a)
    inp = dict(base, op="joint", Ks=fs(G[:n, n:n + t]), Kss=fs(G[n:n + t, n:n + t]), ms=fs(d["mu"][n:n + t]))
    r, err = call(lambda: st.sample_joint(test, num_samples=S, random_state=StubNormal(draws)))
    if err:
        lines.append((inp, err)); hist["err:joint:" + err["err"]] = 1
    else:
        smp = np.asarray(r).reshape(t, m, S)
        mean = smp[:, :, t]
        lf = smp[:, 0, :t] - mean[:, [0]]
        shared = all(np.allclose(smp[:, j, :t] - mean[:, [j]], lf, rtol=1e-12, atol=1e-12) for j in range(m))
        lines.append((inp, {"mean": fl(mean), "sys": fl(lf @ lf.T), "_cond": cond, "_shared": bool(shared)}))
    # AddJitterOp forward on a dyadic symmetric matrix of a random definiteness class
    cls = rng_case(spec, 7).choice(["pd", "pd", "psd", "indef", "neg", "hopeless"])
    rj = rng_case(spec, 8)
    q = max(1, min(n, 4))
    Bm = np.array([[dy(rj, -1, 1, 8) for _ in range(q)] for _ in range(q)]).reshape(q, q)
    xj = Bm @ Bm.T
    if cls == "pd":
        xj = xj + np.eye(q) * dy(rj, 0.125, 1, 8)
    elif cls == "psd" and q >= 2:
        Bm[:, -1] = 0
        xj = Bm @ Bm.T
    elif cls == "indef":
        xj = xj - np.eye(q) * dy(rj, 0.125, 2, 8)
    elif cls == "neg":
        xj = -xj - np.eye(q) * rj.choice([0.5, 8.0, 64.0, 512.0])
    elif cls == "hopeless":
        xj = xj - np.eye(q) * rj.choice([1024.0, 4096.0, 1e5])
    sig = rj.choice([0.0, 2.0 ** -20, 0.125])
    hist["add_jitter:" + cls] = 1
    r, err = call(lambda: custom_op.AddJitterOp(custom_op.flatten_and_concat(xj, np.array([sig])),
                                                initial_jitter_factor=C.NOISE_VARIANCE_LOWER_BOUND))
    lines.append(({"op": "add_jitter", "x": fs(xj), "sigsq": frac_str(sig)}, err if err else {"sys": fl(r), "_cond": 1.0}))
    if err:
        hist["add_jitter_assertion"] = 1
    # update
    xnew = np.array([[float(N - 1)]])
    upd = dict(base, kvec=fs(G[:n, N - 1]), kdiag=frac_str(G[N - 1, N - 1]), noise=frac_str(d["noise"]),
               mscal=frac_str(d["mu"][N - 1]))
    r, err = call(lambda: st.update(xnew, d["target"].reshape(1, -1)))
    inp = dict(upd, op="update", target=fs(d["target"]))
    st2 = None
    if err:
        inp["sqrt_hints"] = []
        lines.append((inp, err)); hist["err:update:" + err["err"]] = 1
    else:
        st2 = r
        L2, P2 = np.asarray(st2.chol_fact), np.asarray(st2.pred_mat)
        inp["sqrt_hints"] = [frac_str(float(L2[n, n]))]
        lines.append((inp, {"L": fl(L2), "P": fl(P2), "lscal": float(L2[n, n]), "_cond": cond,
                            "_lam": float(L2[n, n])}))
        hist["update_clamped"] = int(float(L2[n, n]) <= C.MIN_CHOLESKY_DIAGONAL_VALUE * (1 + 1e-9))
    # sample_and_update
    mask = d["mask"]
    n01 = np.array(d["n01"], dtype=float)
    eff = n01.copy()
    if mask is not None:
        eff[np.array(mask)] = 0.0
    r, err = call(lambda: st.sample_and_update(xnew, mean_impute_mask=(None if mask is None else np.array(mask)),
                                               random_state=StubNormal([n01.reshape(1, -1)])))
    inp = dict(upd, op="sample_update", n01=fs(eff))
    if err:
        inp["sqrt_hints"] = []
        lines.append((inp, err))
    else:
        tgt, st3 = r
        L3, P3 = np.asarray(st3.chol_fact), np.asarray(st3.pred_mat)
        lv = L3[n, :n]
        pstd = math.sqrt(max(float(G[N - 1, N - 1] * sc - np.sum(lv * lv)), C.MIN_POSTERIOR_VARIANCE))
        inp["sqrt_hints"] = [frac_str(float(L3[n, n])), frac_str(pstd)]
        lines.append((inp, {"target": fl(np.asarray(tgt).reshape(-1)), "L": fl(L3), "P": fl(P3), "_cond": cond,
                            "_lam": float(L3[n, n])}))
    # predictions from the updated state (the updated arrays are the new exact inputs)
    if st2 is not None and abs(float(np.asarray(st2.chol_fact)[n, n])) > 1e-6:
        L2, P2 = np.asarray(st2.chol_fact), np.asarray(st2.pred_mat)
        idx = list(range(n)) + [N - 1]
        inp = {"op": "predict", "L": fs(L2), "P": fs(P2), "scale": frac_str(sc),
               "Ks": fs(G[np.ix_(idx, range(n, n + t))]), "kd": fs(np.diag(G)[n:n + t]), "ms": fs(d["mu"][n:n + t])}
        feats2 = np.array(idx, dtype=float).reshape(-1, 1)
        assert np.array_equal(np.asarray(st2.features), feats2)
        means, variances = st2.predict(test)
        lines.append((inp, {"means": fl(means), "vars": fl(variances), "_cond": cond_of(L2)}))
        hist["predict_after_update"] = 1
    return {"lines": lines, "monitor": [], "meta": {"hist": hist, "nontrivial": n >= 2 and not spec["singular"]}}


# ---------------------------------------------------------------------------------
# comparison of a model line with the implementation's floats


def tol_for(cond, scale, k=2):
    """round-off allowance for a quantity obtained through `k` chained triangular solves with a
    factor of condition number `cond`, entries of magnitude `scale`: 2^-53 * 64 * (1+cond)^k *
    scale, never below 1e-13*scale and never above 1e-6*scale (generators keep cond small)."""
    if not math.isfinite(cond):
        return 1e-6 * scale
    return min(1e-6, max(1e-13, 64 * U * (1.0 + cond) ** k)) * scale


def to_float(x):
    if isinstance(x, list):
        return [to_float(y) for y in x]
    if isinstance(x, str):
        return float(Fraction(x))
    return float(x)


def maxdiff(a, b):
    a, b = np.asarray(a, dtype=float), np.asarray(b, dtype=float)
    if a.shape != b.shape:
        return float("inf"), 1.0
    if a.size == 0:
        return 0.0, 1.0
    return float(np.max(np.abs(a - b))), float(max(1.0, np.max(np.abs(a)), np.max(np.abs(b))))


STATS = {"max_rel_dev": 0.0}


def compare(inp, impl, model):
    if impl is None or "stream" in inp:
        return None
    if "err" in impl:
        if "err" in model and model["err"].split(":")[0] == impl["err"].split(":")[0]:
            return None
        if impl["err"] == "assertion" and inp.get("op") in ("joint", "add_jitter") and "out" in model:
            if any(o["assert"] for o in model["out"]["outcomes"]):
                STATS["jitter_assertions"] = STATS.get("jitter_assertions", 0) + 1
                return None
        return f"impl raised {impl['err']}, model gave {str(model)[:200]}"
    if "err" in model:
        return f"model error {model['err']}, impl gave {str(impl)[:200]}"
    mo = model["out"]
    cond = impl.get("_cond", 1.0)
    op = inp["op"]

    def chk(key, mval, k=2, extra=1.0):
        dlt, sc = maxdiff(impl[key], mval)
        tol = tol_for(cond, sc, k) * extra
        rel = dlt / sc
        if dlt <= tol and rel > STATS["max_rel_dev"]:
            STATS["max_rel_dev"] = rel
        if dlt <= tol and rel > STATS.get("dev:" + op + "." + key, 0.0):
            STATS["dev:" + op + "." + key] = rel
            STATS["at:" + op + "." + key] = (cond, tol / sc)
        if not dlt <= tol:
            return f"{op}.{key}: |impl - model| = {dlt:.3e} > tol {tol:.3e} (cond {cond:.3g}); impl {str(impl[key])[:160]} model {str(mval)[:160]}"
        return None

    def chk_outcomes():
        # AddJitterOp: the implementation's matrix must be one of the model's outcomes (one, or two when
        # the loop bound is a free decision); the jitter is a product of up to 14 floats: 32 ulp extra
        last = "no outcome"
        for o in mo["outcomes"]:
            if o["assert"]:
                last = "model: assertion (jitter upper bound), impl returned a matrix"
                continue
            r = chk("sys", to_float(o["sys"]), k=2, extra=8 * (1 + float(Fraction(o["jitter"]))))
            if r is None:
                if o["steps"] > 0:
                    STATS["jitter_cases"] = STATS.get("jitter_cases", 0) + 1
                return None
            last = r
        return last

    if op == "predict":
        return chk("means", to_float(mo["means"])) or chk("vars", to_float(mo["vars"]))
    if op == "nll":
        dap = Fraction(mo["diag_abs_prod"])
        if dap <= 0:  # log(0) = -inf in the code (numpy warning, no exception)
            return None if impl["nll"] == float("-inf") else f"nll: zero diagonal, impl returned {impl['nll']}"
        logdap = math.log(dap.numerator) - math.log(dap.denominator)
        ref = 0.5 * (mo["size"] * math.log(2 * math.pi) + 2.0 * logdap) + 0.5 * float(Fraction(mo["sqnorm"]))
        return chk("nll", ref, k=0, extra=16 * max(1, mo["size"]))
    if op == "joint":
        if not impl["_shared"]:
            return "joint: fantasy columns do not share one covariance factor"
        r = chk("mean", to_float(mo["mean"]))
        if r:
            return r
        return r or chk_outcomes()
    if op == "add_jitter":
        return chk_outcomes()
    if op in ("update", "sample_update"):
        r = None
        if op == "sample_update":
            r = chk("target", to_float(mo["target"]))
        r = r or chk("L", to_float(mo["L"]), k=1)
        if r:
            return r
        # P: the old rows are copied; the new row is (target - m(x) - l.P) / lambda: the round-off of the
        # numerator (operands of magnitude `opmag`) is amplified by 1/lambda
        Li, Pi, Pm = np.asarray(impl["L"]), np.asarray(impl["P"]), np.asarray(to_float(mo["P"]))
        n = len(Pi) - 1
        if Pm.shape != Pi.shape:
            return f"{op}.P: shape impl {Pi.shape} model {Pm.shape}"
        if n and not np.array_equal(Pi[:n], Pm[:n]):
            return f"{op}.P: old rows changed: impl {Pi[:n].tolist()} model {Pm[:n].tolist()}"
        tgt = np.asarray(to_float(inp["target"])) if op == "update" else np.asarray(impl["target"])
        lv, lam = Li[n, :n], abs(float(Li[n, n]))
        opmag = max(1.0, float(np.max(np.abs(tgt) + abs(float(Fraction(inp["mscal"]))) + np.abs(lv) @ np.abs(Pi[:n]))) if tgt.size else 1.0)
        amp = max(1.0, 1.0 / lam) if lam > 0 else 1.0
        dlt = float(np.max(np.abs(Pi[n] - Pm[n]))) if tgt.size else 0.0
        tol = tol_for(cond, opmag, 2) * amp
        key = "dev:" + op + ".P_new_row/(opmag/lambda)"
        if dlt <= tol:
            STATS[key] = max(STATS.get(key, 0.0), dlt / (opmag * amp))
            return None
        return f"{op}.P new row: |impl - model| = {dlt:.3e} > tol {tol:.3e} (cond {cond:.3g}, lambda {lam:.3g})"
    if op == "chol_bwd":
        return chk("abar", to_float(mo["abar"]), k=2)
    if op == "jitter_vjp":
        return chk("vec", to_float(mo["vec"]), k=0)
    if op in ("ei", "lcb"):
        r = None
        for key in ("u", "hval", "hval_alone", "dmean", "dstd"):
            if key in impl:
                r = r or chk(key, to_float(mo[key]), k=0, extra=64)
        return r
    return f"unknown op {op}"


# ---------------------------------------------------------------------------------
# exact twin, C09


class StubPredictor(Predictor):
    """predictor with prescribed predictive moments; records the head gradients it is handed"""

    def __init__(self, preds, bests, flat):
        super().__init__(state=None, active_metric=None)
        self.preds, self.bests, self.flat = preds, bests, flat
        self.recorded = None

    def predict(self, inputs):
        n = inputs.shape[0]
        out = []
        for p in self.preds:
            mu = np.array(p["mean"], dtype=float)
            mean = np.full((n,), mu[0]) if (self.flat and mu.size == 1) else np.tile(mu.reshape(1, -1), (n, 1))
            out.append({"mean": mean, "std": np.full((n,), float(p["std"]))})
        return out

    def current_best(self):
        return [np.array(b, dtype=float) for b in self.bests]

    def backward_gradient(self, input, head_gradients):
        self.recorded = [{k: np.array(v, dtype=float).reshape(-1) for k, v in hg.items()} for hg in head_gradients]
        return [np.zeros_like(input) for _ in head_gradients]


def gen_exact09(rng, tier):
    return {"kind": "exact09", "seed": rng.randrange(10 ** 9), "n": rng.choice([1, 2, 3, 4, 5, 6] + ([8, 10] if tier == "thorough" else [])),
            "nf": rng.choice([1, 1, 2, 3, 5, 8]), "S": rng.choice([1, 1, 1, 2, 3]), "flat": rng.random() < 0.5,
            "tiny_std": rng.random() < 0.05}


def close(a, b, rel=1e-12):
    a, b = np.asarray(a, dtype=float).reshape(-1), np.asarray(b, dtype=float).reshape(-1)
    return a.shape == b.shape and bool(np.all(np.abs(a - b) <= rel * np.maximum(1.0, np.maximum(np.abs(a), np.abs(b)))))


def run_exact09(spec):
    rng = random.Random(spec["seed"])
    n, nf, S = spec["n"], spec["nf"], spec["S"]
    lines = [(header(), {})]
    mon = []
    hist = {"exact09": 1, f"nf={nf}": 1, f"mcmc_samples={S}": 1}
    # --- cholesky backward
    L = np.zeros((n, n))
    for i in range(n):
        for j in range(i):
            L[i, j] = dy(rng, -1, 1, 16)
        L[i, i] = dy(rng, 0.5, 2.5, 16)
    Lbar = np.array([[dy(rng, -2, 2, 16) for _ in range(n)] for _ in range(n)]).reshape(n, n)
    abar = custom_op.cholesky_factorization_backward(L, Lbar)
    lines.append(({"op": "chol_bwd", "L": fs(L), "Lbar": fs(Lbar)}, {"abar": fl(abar), "_cond": cond_of(L)}))
    # direct reading of the adjoint identity on the implementation's output
    dL = np.tril(np.array([[dy(rng, -1, 1, 16) for _ in range(n)] for _ in range(n)]).reshape(n, n))
    dA = dL @ L.T + L @ dL.T
    lhs, rhs = float(np.sum(np.asarray(abar) * dA)), float(np.sum(np.tril(Lbar) * dL))
    if abs(lhs - rhs) > tol_for(cond_of(L), max(1.0, abs(lhs), abs(rhs), float(np.abs(abar).max()) * float(np.abs(dA).max()) * n * n), 2):
        mon.append({"signature": "c09:cholesky-backward-not-adjoint", "what":
                    f"<abar, dL L^T + L dL^T> = {lhs} but <lbar, dL> = {rhs} (n={n})", "detail": {"L": fl(L), "Lbar": fl(Lbar), "dL": fl(dL)}})
    # --- jitter vjp
    g = np.array([[dy(rng, -2, 2, 16) for _ in range(n)] for _ in range(n)]).reshape(n, n)
    inputs = np.append((L @ L.T).reshape(-1), 0.25)
    vec = custom_op.AddJitterOp_vjp(None, inputs)(g)
    lines.append(({"op": "jitter_vjp", "g": fs(g)}, {"vec": fl(vec), "_cond": 1.0}))
    # --- EI / LCB heads through the real acquisition-function classes
    jitter = rng.choice([0.01, 0.0, 0.125])
    preds, bests = [], []
    for s in range(S):
        std = dy(rng, 0.125, 3, 64)
        if spec["tiny_std"] and s == 0:
            std = 2.0 ** -40  # below the 1e-10 clamp of get_quantiles
        preds.append({"mean": [dy(rng, -2, 2, 64) for _ in range(nf)], "std": std})
        bests.append([dy(rng, -2, 2, 64) for _ in range(nf)])
    x = np.array([0.25, 0.5])
    for kind in ("ei", "lcb"):
        sp = StubPredictor(preds, bests, spec["flat"])
        kappa = dy(rng, 0.25, 3, 16)
        acq = AF.EIAcquisitionFunction(sp, jitter=jitter) if kind == "ei" else AF.LCBAcquisitionFunction(sp, kappa=kappa)
        fval, grad = acq.compute_acq_with_gradient(x)
        alone = acq.compute_acq(x)
        rec = sp.recorded
        hvals = []
        for s in range(S):
            mean = np.array(preds[s]["mean"], dtype=float)
            std = np.array([preds[s]["std"]], dtype=float)
            best = np.array(bests[s], dtype=float).reshape(1, -1)
            name = acq.active_metric
            hg = acq._compute_head_and_gradient({name: {"mean": mean.copy(), "std": std.copy()}}, best)
            h1 = acq._compute_head({name: {"mean": mean.reshape(1, -1).copy(), "std": std.reshape(1, 1).copy()}}, best)
            hvals.append(float(hg.hval))
            out = {"hval": float(hg.hval), "hval_alone": float(np.asarray(h1).reshape(-1)[0]),
                   "dmean": fl(np.asarray(hg.gradient[name]["mean"]).reshape(-1)),
                   "dstd": float(np.asarray(hg.gradient[name]["std"]).reshape(-1)[0]), "_cond": 1.0}
            if kind == "ei":
                phi, Phi, u = AF.get_quantiles(jitter, best, mean.copy(), std.copy())
                out["u"] = fl(np.asarray(u).reshape(-1))
                inp = {"op": "ei", "mean": fs(mean), "best": fs(best.reshape(-1)), "std": frac_str(float(std[0])),
                       "jitter": frac_str(jitter), "Phi": fs(np.asarray(Phi).reshape(-1)), "phi": fs(np.asarray(phi).reshape(-1))}
                # the trusted special functions against scipy
                from scipy.stats import norm
                uu = np.asarray(u).reshape(-1)
                if not (close(np.asarray(phi).reshape(-1), norm.pdf(uu), 1e-12) and
                        np.all(np.abs(np.asarray(Phi).reshape(-1) - norm.cdf(uu)) <= 1e-14 + 1e-12 * norm.cdf(uu))):
                    mon.append({"signature": "c09:ei-quantiles-not-gaussian", "what":
                                f"get_quantiles phi/Phi differ from scipy.stats.norm at u={uu.tolist()}", "detail": None})
                if float(hg.hval) > 0:
                    mon.append({"signature": "c09:ei-negative", "what": f"expected improvement {-float(hg.hval)} < 0", "detail": inp})
            else:
                inp = {"op": "lcb", "mean": fs(mean), "std": frac_str(float(std[0])), "kappa": frac_str(kappa)}
            lines.append((inp, out))
            # glue: head gradients handed to the predictor are those of this sample
            if not (close(rec[s]["mean"], out["dmean"]) and close(rec[s]["std"], [out["dstd"]])):
                mon.append({"signature": "c09:head-gradient-glue", "what":
                            f"{kind}: head gradients passed to backward_gradient for sample {s} differ from _compute_head_and_gradient", "detail": inp})
        if not close([fval], [float(np.mean(hvals))]):
            mon.append({"signature": "c09:value-with-gradient-differs", "what":
                        f"{kind}: compute_acq_with_gradient value {fval} != mean of head values {np.mean(hvals)}", "detail": None})
        if not close([fval], np.asarray(alone).reshape(-1)):
            mon.append({"signature": "c09:value-with-gradient-differs", "what":
                        f"{kind}: compute_acq_with_gradient value {fval} != compute_acq {alone}", "detail":
                        {"preds": preds, "bests": bests, "jitter": jitter}})
    return {"lines": lines, "monitor": mon, "meta": {"hist": hist, "nontrivial": n >= 2 and nf >= 1}}


# ---------------------------------------------------------------------------------
# end to end, C08: real kernels against exact dense linear algebra


def fr_mat(A):
    A = np.asarray(A, dtype=float)
    return [[Fraction(float(x)) for x in row] for row in A.reshape(A.shape[0], -1)]


def fr_solve(A, B):
    """exact Gauss elimination: returns (X with A X = B, det A); A, B lists of Fractions"""
    n = len(A)
    M = [list(A[i]) + list(B[i]) for i in range(n)]
    det = Fraction(1)
    for c in range(n):
        p = next((r for r in range(c, n) if M[r][c] != 0), None)
        if p is None:
            return None, Fraction(0)
        if p != c:
            M[c], M[p] = M[p], M[c]
            det = -det
        det *= M[c][c]
        inv = 1 / M[c][c]
        M[c] = [x * inv for x in M[c]]
        for r in range(n):
            if r != c and M[r][c] != 0:
                f = M[r][c]
                M[r] = [a - f * b for a, b in zip(M[r], M[c])]
    return [row[n:] for row in M], det


def fr_log(q):
    return math.log(q.numerator) - math.log(q.denominator)


E2E_KINDS = ["matern", "matern_ard", "warped", "warped2", "product", "expdecay", "tuple_scale", "warped_product", "freezethaw"]


def build_model(kind, d, zero_mean, delta_fixed=None, encoding="logarithm"):
    """returns (kernel object, mean, kernel argument for the posterior state, likelihood)"""
    scale_arr = None
    if kind == "matern":
        k = Matern52(d, encoding_type=encoding)
    elif kind == "matern_ard":
        k = Matern52(d, ARD=True, encoding_type=encoding)
    elif kind == "warped":
        k = WarpedKernel(Matern52(d, ARD=True, encoding_type=encoding), [Warping(d, (0, max(1, d - 1)))])
    elif kind == "warped2":
        # two warping blocks on non-contiguous coordinate ranges (what `kernel_with_warping` builds when a
        # categorical hyperparameter sits between numerical ones); needs d >= 3
        dd = max(3, d)
        k = WarpedKernel(Matern52(dd, ARD=True, encoding_type=encoding), [Warping(dd, (0, 1)), Warping(dd, (2, dd))])
    elif kind == "product":
        d1 = max(1, d // 2)
        k = ProductKernelFunction(Matern52(d1, ARD=True, encoding_type=encoding), Matern52(max(1, d - d1), encoding_type=encoding))
    elif kind == "expdecay":
        # delta free (default), or fixed to a value of [0, 1] (the constructor allows every value in between)
        k = ExponentialDecayResourcesKernelFunction(Matern52(max(1, d - 1), ARD=True, encoding_type=encoding), ScalarMeanFunction(),
                                                    delta_fixed_value=delta_fixed)
    elif kind == "tuple_scale":
        k = Matern52(d, ARD=True, has_covariance_scale=False, encoding_type=encoding)
    elif kind == "warped_product":
        # input warping around a product of a stationary factor and a factor whose diagonal depends on the input
        # (exponential-decay resource kernel, resource = last coordinate); the warping covers the resource
        k1 = Matern52(1, ARD=True, encoding_type=encoding)
        k2 = ExponentialDecayResourcesKernelFunction(Matern52(1, ARD=True, encoding_type=encoding), ScalarMeanFunction(), delta_fixed_value=delta_fixed)
        k = WarpedKernel(ProductKernelFunction(k1, k2), [Warping(3, (2, 3))])
    elif kind == "freezethaw":
        # freeze-thaw resource kernel used as a plain kernel over (x, r): learning curves of the SAME configuration are correlated
        from syne_tune.optimizer.schedulers.searchers.bayesopt.gpautograd.kernel.freeze_thaw import (
            FreezeThawKernelFunction, FreezeThawMeanFunction)
        k = FreezeThawKernelFunction(Matern52(max(1, d - 1), ARD=True, encoding_type=encoding), ScalarMeanFunction())
    else:
        raise ValueError(kind)
    if kind == "freezethaw":
        mean = FreezeThawMeanFunction(k)
    elif kind == "expdecay":
        mean = ExponentialDecayResourcesMeanFunction(k)
    else:
        mean = ZeroMeanFunction() if zero_mean else ScalarMeanFunction()
    lik = GaussianProcessMarginalLikelihood(kernel=k, mean=mean)
    lik.initialize(force_reinit=True)
    return k, mean, lik


def kernel_dim(kind, d):
    if kind == "product":
        d1 = max(1, d // 2)
        return d1 + max(1, d - d1)
    if kind in ("expdecay", "freezethaw"):
        return max(1, d - 1) + 1
    if kind == "warped2":
        return max(3, d)
    if kind == "warped_product":
        return 3
    return d


def randomize_params(rng, lik, noise_lo=1e-6, noise_hi=1.0, span=2.0, span_hi=None):
    """random point inside the box constraints (internal = log encoding), moderate range; `span_hi`: upper end of the range of
    the kernel parameters (the positive encoding softrelu(x) + lower is the identity up to rounding for large x)"""
    _, pd = create_lbfgs_arguments(lik, [None])
    conv = ParamVecDictConverter(pd)
    box = lik.box_constraints_internal()
    vec = []
    for name, shape in zip(conv.names, conv.shapes):
        lo, hi = box.get(name, (None, None))
        lo = -span if lo is None else max(float(lo), -span)
        wide = span_hi if (span_hi is not None and "inverse_bandwidth" in name) else span   # (a large covariance scale over a
        hi = wide if hi is None else min(float(hi), wide)                                   # small noise variance is ill-conditioned)
        if "noise_variance" in name:
            lo, hi = math.log(noise_lo), math.log(noise_hi)
        for _ in range(int(sum(shape))):
            vec.append(rng.uniform(lo, hi))
    vec = np.array(vec)
    conv.from_vec(vec)
    return conv, vec


def gen_e2e08(rng, tier):
    big = tier == "thorough"
    return {"kind": "e2e08", "seed": rng.randrange(10 ** 9), "model": rng.choice(E2E_KINDS),
            "d": rng.choice([1, 2, 3, 4, 4, 11, 13]), "n": rng.choice([1, 2, 3, 5, 7] + ([10, 14] if big else [])),
            "m": rng.choice([1, 1, 2, 4]), "t": rng.choice([1, 3, 5]), "zero_mean": rng.random() < 0.4,
            "dups": rng.choice(["none", "none", "dup", "near"]), "small_noise": rng.random() < 0.2,
            "delta_fixed": rng.choice([None, None, 0.0, 1.0, 0.25, 0.7]),
            # parameter encoding of the Matern kernels: the default logarithm or softrelu(x) + lower (`encoding_type="positive"`)
            "encoding": rng.choice(["logarithm", "logarithm", "positive"])}


def features_for(rng, kind, d, n, dups):
    dk = kernel_dim(kind, d)
    X = np.array([[rng.random() for _ in range(dk)] for _ in range(n)]).reshape(n, dk)
    if kind == "expdecay":
        X[:, -1] = [float(rng.randint(1, 9)) for _ in range(n)]
    if kind == "freezethaw":
        # a few configurations, each at several resource levels (rows of one configuration in arbitrary positions)
        pool = [[rng.random() for _ in range(dk - 1)] for _ in range(max(1, min(3, n)))]
        for i in range(n):
            X[i, :-1] = pool[rng.randrange(len(pool))] if rng.random() < 0.8 else [rng.random() for _ in range(dk - 1)]
            X[i, -1] = float(rng.randint(1, 9))
    if n >= 2 and dups == "dup":
        X[n - 1] = X[0]
    if n >= 2 and dups == "near":
        X[n - 1] = X[0]
        X[n - 1, 0] = min(1.0, X[0, 0] + 2.0 ** -24)
    return X


def dense_reference(Kf, s2, Rf, Ksf, kd, ms):
    """exact dense formulas on the given (exact) matrices"""
    n = len(Kf)
    A = [[Kf[i][j] + (s2 if i == j else 0) for j in range(n)] for i in range(n)]
    t = len(ms)
    m = len(Rf[0]) if n else 0
    rhs = [list(Rf[i]) + list(Ksf[i]) for i in range(n)]
    X, det = fr_solve(A, rhs)
    if X is None:
        return None
    AiR = [r[:m] for r in X]
    AiK = [r[m:] for r in X]
    mean = [[sum(Ksf[i][a] * AiR[i][j] for i in range(n)) + ms[a] for j in range(m)] for a in range(t)]
    cov = [[sum(Ksf[i][a] * AiK[i][b] for i in range(n)) for b in range(t)] for a in range(t)]
    var = [kd[a] - cov[a][a] for a in range(t)]
    quad = [sum(Rf[i][j] * AiR[i][j] for i in range(n)) for j in range(m)]
    return {"mean": mean, "var": var, "cov_red": cov, "quad": quad, "det": det}


def F(sig, what, detail=None):
    return {"signature": sig, "what": what, "detail": detail}


def run_e2e08(spec):
    rng = random.Random(spec["seed"])
    kind, d, n, m, t = spec["model"], spec["d"], spec["n"], spec["m"], spec["t"]
    hist = {"e2e08": 1, "model:" + kind: 1, "dups:" + spec["dups"]: 1}
    mon = []
    k, mean, lik = build_model(kind, d, spec["zero_mean"], spec.get("delta_fixed"), spec.get("encoding") or "logarithm")
    if kind == "expdecay":
        hist["expdecay_delta:" + ("free" if spec.get("delta_fixed") is None else str(spec["delta_fixed"]))] = 1
    randomize_params(rng, lik, noise_lo=(1e-8 if spec["small_noise"] else 1e-4),
                     span_hi=(rng.choice([2.0, 45.0, 90.0]) if spec.get("encoding") == "positive" else None))
    hist["encoding:" + (spec.get("encoding") or "logarithm")] = 1
    scale = None
    if kind == "tuple_scale":
        scale = np.array([math.exp(rng.uniform(-1.5, 1.5))])
        karg = (k, scale)
    else:
        karg = k
    X = features_for(rng, kind, d, n, spec["dups"])
    Xs = features_for(rng, kind, d, t, "none")
    if n >= 1 and t >= 2:
        Xs[0] = X[0]  # one test point on top of a training point
    if kind == "freezethaw" and n >= 1:
        for a in range(t):   # test points: observed configurations at other resource levels, and new configurations
            if rng.random() < 0.7:
                Xs[a, :-1] = X[rng.randrange(n), :-1]
    xnew = features_for(rng, kind, d, 1, "none")
    Y = np.array([[rng.gauss(0, 1) for _ in range(m)] for _ in range(n)]).reshape(n, m)
    ynew = np.array([[rng.gauss(0, 1) for _ in range(m)]])
    noise = lik.get_noise_variance(as_ndarray=True)
    s2 = float(np.asarray(noise).reshape(-1)[0])
    # the caller's arrays are buffers which it refills after the state has been built (the state is a value: predictions,
    # samples and updates of it are those of the data it was built from)
    Xbuf, Ybuf = np.array(X, copy=True), np.array(Y, copy=True)
    st = IncrementalUpdateGPPosteriorState(Xbuf, Ybuf, mean, karg, noise_variance=noise)
    Xbuf[...] = np.array([[rng.random() for _ in range(X.shape[1])] for _ in range(X.shape[0])]).reshape(X.shape)
    Ybuf[...] = 7.0
    L, P = np.asarray(st.chol_fact), np.asarray(st.pred_mat)
    sc = 1.0 if scale is None else float(scale[0])

    def kmat(A, B):
        return np.asarray(k(A, B)) * sc

    def kdiag(A):
        return np.asarray(k.diagonal(A)).reshape(-1) * sc

    def mvec(A):
        return np.asarray(mean(A)).reshape(-1)

    K = kmat(X, X)
    # parameters written through the dictionary interface (`get_params` / `set_params`, what the searchers use to carry the
    # surrogate's parameters from one fit to the next) are the same kernel
    try:
        pd0 = k.get_params()
        k.set_params(dict(pd0))
        K_again = kmat(X, X)
        pd1 = k.get_params()
        # (softrelu and its inverse are not exact inverses in floating point for large arguments: 1e-9 / 1e-7 there)
        ptol, ktol = (1e-9, 1e-7) if spec.get("encoding") == "positive" else (1e-12, 1e-12)
        if set(pd0) != set(pd1) or any(abs(float(pd0[q]) - float(pd1[q])) > ptol * max(1.0, abs(float(pd0[q]))) for q in pd0) \
                or float(np.max(np.abs(K_again - K))) > ktol * max(1.0, float(np.abs(K).max())):
            mon.append(F("c08:kernel-params-roundtrip", f"kernel {kind} (dimension {X.shape[1]}): set_params(get_params()) changes the kernel "
                         f"(max deviation of k(X, X): {float(np.max(np.abs(K_again - K))):.3e})", {"spec": spec}))
        hist["params_roundtrip"] = 1
    except NotImplementedError:
        pass
    if kind == "freezethaw":
        # k((x, r), (x', r')) = k_x(x, x') + gamma^2 (kappa(r + r') - kappa(r) kappa(r')) [x = x']: the indicator by direct comparison
        from syne_tune.optimizer.schedulers.searchers.bayesopt.gpautograd.kernel.exponential_decay import (
            ExponentialDecayResourcesKernelFunction as _ED)
        al, ml, ga = (np.asarray(z, dtype=float).reshape(-1)[0] for z in k._get_params(X))

        def kap(r):
            # kappa(t) = (beta / (t + beta))^alpha with beta = alpha / mean_lam (the documented formula, written out here)
            beta_ = al / ml
            return (beta_ / (np.asarray(r, dtype=float) + beta_)) ** al
        for A, B, lbl in ((X, X, "k(X, X)"), (X, Xs, "k(X, X*)"), (Xs, Xs, "k(X*, X*)")):
            same = np.array([[float(np.array_equal(a_[:-1], b_[:-1])) for b_ in B] for a_ in A]).reshape(len(A), len(B))
            ra, rb = A[:, -1].reshape(-1, 1), B[:, -1].reshape(1, -1)
            Kc = np.asarray(k.kernel_x(A[:, :-1], B[:, :-1])) + ga ** 2 * (kap(ra + rb) - kap(ra) * kap(rb)) * same
            Kg = np.asarray(k(A, B))
            dl = float(np.max(np.abs(Kc - Kg))) if Kc.size else 0.0
            if not dl <= 1e-10 * max(1.0, float(np.abs(Kc).max()) if Kc.size else 1.0):
                mon.append(F("c08:kernel-composition", f"freeze-thaw kernel: {lbl} deviates by {dl:.3e} from k_x + gamma^2 (kappa(r+r') - "
                             f"kappa(r) kappa(r')) [same configuration]", {"spec": spec}))
                break
        hist["freezethaw_composition"] = 1
    # composite kernels: the value must be the composition of the parts (each part is the real object)
    if kind in ("warped", "warped2", "warped_product"):
        def warp(Z):
            for w in k.warpings:
                Z = np.asarray(w(Z))
            return Z
        Kc = np.asarray(k.kernel(warp(X), warp(Xs)))
        Kg = np.asarray(k(X, Xs))
        dl = float(np.max(np.abs(Kc - Kg))) if Kc.size else 0.0
        if not dl <= 1e-10 * max(1.0, float(np.abs(Kc).max())):
            mon.append(F("c08:kernel-composition", f"WarpedKernel with {len(k.warpings)} warping block(s): k(X, X*) deviates by "
                         f"{dl:.3e} from base_kernel(warp(X), warp(X*)) (all blocks applied in turn)", {"spec": spec}))
    # jitter added by AddJitterOp (not modelled): read off the factor
    jit = float(np.mean(np.diag(L @ L.T) - np.diag(K) - s2))
    kmax = max(1.0, float(np.abs(K).max()))
    if jit > 1e-11 * kmax * max(1, n):
        hist["jitter_added"] = 1
        s2eff = s2 + jit
    else:
        s2eff = s2
    A = K + s2eff * np.eye(n)
    cond = float(np.linalg.cond(A))
    hist["cond<1e4" if cond < 1e4 else ("cond<1e8" if cond < 1e8 else "cond>=1e8")] = 1
    if not math.isfinite(cond) or cond > 1e13:
        hist["skipped_ill_conditioned"] = 1
        return {"lines": [], "monitor": [], "meta": {"hist": hist, "nontrivial": False}}
    rel = min(1e-3, 512 * max(1, n) * U * cond + 1e-13)
    ymag = max(1.0, float(np.abs(Y).max()), float(np.abs(mvec(X)).max()))
    dev = {}

    def check(sig, what, got, ref, mag):
        got, ref = np.asarray(got, dtype=float), np.asarray(ref, dtype=float)
        if got.shape != ref.shape:
            mon.append(F(sig, f"{what}: shape {got.shape} vs dense {ref.shape}", {"spec": spec}))
            return
        dlt = float(np.max(np.abs(got - ref))) if got.size else 0.0
        tol = rel * mag
        dev[sig] = max(dev.get(sig, 0.0), dlt / tol)
        if not dlt <= tol:
            mon.append(F(sig, f"{what}: deviation {dlt:.3e} from the dense expression exceeds the conditioning-scaled "
                              f"round-off bound {tol:.3e} (cond(K+s2 I) = {cond:.3g}, model {kind}, n={n})",
                         {"got": got.tolist(), "dense": ref.tolist()}))

    # invariant of the state
    check("c08:state-invariant", "L L^T vs K + s2 I", L @ L.T, A, kmax * 4)
    Rm = Y - mvec(X).reshape(-1, 1)
    check("c08:state-invariant", "L P vs Y - m(X)", L @ P, Rm, ymag * 4 * max(1.0, float(np.abs(L).max())))
    # kernel diagonal (documented approximation: NUMERICAL_JITTER under the sqrt of Matern-5/2)
    kd = kdiag(Xs)
    kd_fwd = np.diag(kmat(Xs, Xs))
    if np.max(np.abs(kd - kd_fwd)) > 1e-7 * max(1.0, float(np.abs(kd).max())):
        mon.append(F("c08:kernel-diagonal-inconsistent", f"kernel.diagonal differs from diag kernel(X, X) by "
                     f"{np.max(np.abs(kd - kd_fwd)):.3e} (model {kind})", {"spec": spec}))
    # dense reference (exact rationals on the matrices the real kernel produced)
    Ks = kmat(X, Xs)
    ms = mvec(Xs)
    ref = dense_reference(fr_mat(K) if n else [], Fraction(s2eff), fr_mat(Rm) if n else [], fr_mat(Ks) if n else [],
                          [Fraction(float(x)) for x in kd], [Fraction(float(x)) for x in ms])
    if ref is None:
        hist["skipped_singular_exact"] = 1
        return {"lines": [], "monitor": mon, "meta": {"hist": hist, "nontrivial": False}}
    means, variances = st.predict(Xs)
    means, variances = np.asarray(means), np.asarray(variances)
    ksmag = max(1.0, float(np.abs(Ks).max()) if n else 1.0)
    check("c08:mean-not-dense", "predictive mean", means, to_float([[float(x) for x in r] for r in ref["mean"]]),
          ymag * ksmag * max(1, n))
    vref = np.maximum(np.array([float(x) for x in ref["var"]]), C.MIN_POSTERIOR_VARIANCE)
    check("c08:variance-not-dense", "predictive variance", variances, vref, max(1.0, float(np.abs(kd).max())) * ksmag)
    if np.any(variances < C.MIN_POSTERIOR_VARIANCE) or np.any(variances > kd * (1 + 1e-12) + 1e-300 + np.maximum(0, C.MIN_POSTERIOR_VARIANCE - kd)):
        mon.append(F("c08:variance-out-of-bounds", f"variance {variances.tolist()} outside [floor, prior {kd.tolist()}]", {"spec": spec}))
    hist["var_at_floor"] = int(np.sum(variances <= C.MIN_POSTERIOR_VARIANCE))
    # likelihood (single column)
    st1 = GaussProcPosteriorState(X, Y[:, [0]], mean, karg, noise_variance=noise)
    nll = float(st1.neg_log_likelihood())
    if ref["det"] > 0:
        nref = 0.5 * float(ref["quad"][0]) + 0.5 * fr_log(ref["det"]) + 0.5 * n * math.log(2 * math.pi)
        check("c08:nll-not-dense", "negative log marginal likelihood", [nll], [nref],
              max(1.0, abs(nref), float(ref["quad"][0])) * max(1, n))
    if m > 1:
        try:
            st.neg_log_likelihood()
            mon.append(F("c08:nll-accepts-fantasies", "neg_log_likelihood accepted a fantasy matrix", None))
        except AssertionError:
            hist["nll_assertion"] = 1
    # joint covariance through prescribed N(0,1) draws
    S = t + 1
    draws = []
    for s in range(S):
        a = np.zeros((t, m, 1))
        if s < t:
            a[s, :, 0] = 1.0
        draws.append(a)
    smp = np.asarray(st.sample_joint(Xs, num_samples=S, random_state=StubNormal(draws))).reshape(t, m, S)
    jm = smp[:, :, t]
    lf = smp[:, 0, :t] - jm[:, [0]]
    cov_impl = lf @ lf.T
    Kss = kmat(Xs, Xs)
    cov_ref = Kss - np.array([[float(x) for x in r] for r in ref["cov_red"]]) + JOINT_JITTER * np.eye(t)
    dj = cov_impl - cov_ref
    cj = float(np.mean(np.diag(dj)))
    kssmag = max(1.0, float(np.abs(Kss).max())) * ksmag
    if cj > 10 * rel * kssmag and np.max(np.abs(dj - cj * np.eye(t))) <= rel * kssmag * 4:
        hist["joint_jitter_added"] = 1  # AddJitterOp increased the jitter: covariance + c I
    else:
        check("c08:joint-cov-not-dense", "covariance of joint samples", cov_impl, cov_ref, kssmag * 4)
    check("c08:mean-not-dense", "mean of joint samples", jm, means, ymag * ksmag * max(1, n))
    for j in range(1, m):
        if not np.allclose(smp[:, j, :t] - jm[:, [j]], lf, rtol=1e-10, atol=1e-12 * kssmag):
            mon.append(F("c08:fantasy-columns-dependent", "joint samples of different fantasy columns use different covariance factors", None))
    # fantasies: column j alone
    for j in range(m if m > 1 else 0):
        sj = GaussProcPosteriorState(X, Y[:, [j]], mean, karg, noise_variance=noise)
        mj, vj = sj.predict(Xs)
        if not (np.allclose(np.asarray(mj).reshape(-1), means[:, j], rtol=max(1e-10, rel), atol=max(1e-12, rel) * ymag) and
                np.allclose(np.asarray(vj), variances, rtol=max(1e-12, rel), atol=max(1e-13, rel) * max(1.0, float(np.abs(kd).max())))):  # (a variance
            # near zero - test point on a training point - is a difference of numbers of the prior variance's magnitude)
            mon.append(F("c08:fantasy-columns-dependent", f"column {j} of the fantasy predictions differs from the single-target prediction", {"spec": spec}))
    # update = recompute
    st_u = st.update(xnew, ynew)
    # a second child of the same parent (another candidate fantasised from the same posterior): the first child is a value of its own
    xsib = features_for(rng, kind, d, 1, "none")
    try:
        st.update(xsib, np.array([[rng.gauss(0, 1) for _ in range(m)]]))
        hist["sibling_update"] = 1
    except Exception:  # noqa
        pass
    X2, Y2 = np.vstack([X, xnew]), np.vstack([Y, ynew])
    st_r = GaussProcPosteriorState(X2, Y2, mean, karg, noise_variance=noise)
    K2 = kmat(X2, X2)
    Lr = np.asarray(st_r.chol_fact)
    jit_r = float(np.mean(np.diag(Lr @ Lr.T) - np.diag(K2) - s2))
    # `cholesky_update` takes the new diagonal entry from `kernel.diagonal`, the batch computation from
    # `kernel(X, X)`; for Matern-5/2 these differ by ~5e-10 relative (NUMERICAL_JITTER under the sqrt)
    eps_k = abs(float(kdiag(xnew)[0]) - float(K2[n, n]))
    K2[n, n] = float(kdiag(xnew)[0])
    hist["kernel_diag_vs_forward>1e-12"] = int(eps_k > 1e-12 * max(1.0, abs(float(K2[n, n]))))
    A2 = K2 + s2eff * np.eye(n + 1)
    A2[n, n] = K2[n, n] + s2  # the update uses the nominal noise variance for the new diagonal entry
    cond2 = float(np.linalg.cond(A2))
    if math.isfinite(cond2) and cond2 < 1e13:
        rel_save = rel
        rel = min(1e-3, 512 * (n + 1) * U * cond2 + 1e-13)
        Ks2 = kmat(X2, Xs)
        Rm2 = Y2 - mvec(X2).reshape(-1, 1)
        A2f = fr_mat(K2)
        for i in range(n + 1):
            A2f[i][i] += Fraction(s2eff) if i < n else Fraction(s2)
        sol, _ = fr_solve(A2f, [list(a) + list(b) for a, b in zip(fr_mat(Rm2), fr_mat(Ks2))])
        if sol is not None:
            AiR = [r[:m] for r in sol]
            AiK = [r[m:] for r in sol]
            Ks2f = fr_mat(Ks2)
            mref = [[float(sum(Ks2f[i][a] * AiR[i][j] for i in range(n + 1))) + float(ms[a]) for j in range(m)] for a in range(t)]
            vref2 = np.maximum([float(Fraction(float(kd[a])) - sum(Ks2f[i][a] * AiK[i][a] for i in range(n + 1))) for a in range(t)],
                               C.MIN_POSTERIOR_VARIANCE)
            mu_u, var_u = st_u.predict(Xs)
            ymag2 = max(ymag, float(np.abs(ynew).max()))
            ks2mag = max(1.0, float(np.abs(Ks2).max()))
            check("c08:update-not-recompute", "mean after incremental update vs dense on the extended data",
                  np.asarray(mu_u), mref, ymag2 * ks2mag * (n + 1))
            check("c08:update-not-recompute", "variance after incremental update vs dense on the extended data",
                  np.asarray(var_u), vref2, max(1.0, float(np.abs(kd).max())) * ks2mag)
            if abs(jit_r - (s2eff - s2)) <= 1e-11 * kmax * (n + 1) and s2eff == s2:
                mu_r, var_r = st_r.predict(Xs)
                # perturbation bound for the differing diagonal entry: cond * |dA| / |A|
                rel = rel + 4 * cond2 * eps_k / max(float(np.abs(A2).max()), 1e-300)
                check("c08:update-not-recompute", "mean after incremental update vs recomputed state",
                      np.asarray(mu_u), np.asarray(mu_r), ymag2 * ks2mag * (n + 1) * 2)
                check("c08:update-not-recompute", "variance after incremental update vs recomputed state",
                      np.asarray(var_u), np.asarray(var_r), max(1.0, float(np.abs(kd).max())) * ks2mag * 2)
                hist["update_vs_recompute"] = 1
        rel = rel_save
    return {"lines": [], "monitor": mon,
            "meta": {"hist": hist, "nontrivial": n >= 2 and cond < 1e13, "dev": dev, "cond": cond}}


# ---------------------------------------------------------------------------------
# end to end, C09: gradients against Richardson-extrapolated central differences


def richardson(f, x, i, h):
    """central differences with steps h and h/2 and their Richardson extrapolation.
    returns (extrapolated value, error estimate)"""
    def cd(hh):
        e = np.zeros_like(x)
        e[i] = hh
        return (f(x + e) - f(x - e)) / (2 * hh)
    d1, d2 = cd(h), cd(h / 2)
    r = (4 * d2 - d1) / 3
    return r, abs(r - d2)


def fd_tol(g, r, err, fscale):
    """finite-difference comparison rule: |g - r| <= 50*err_est + 1e-6*max(|g|,|r|) + 1e-9*fscale/h-free floor.
    `err` is |Richardson - D(h/2)|, an estimate of the truncation + round-off error of the reference."""
    return 50 * err + 1e-6 * max(abs(g), abs(r)) + 1e-8 * max(1.0, fscale)


def gen_e2e09_fit(rng, tier):
    return {"kind": "e2e09_fit", "seed": rng.randrange(10 ** 9), "model": rng.choice(E2E_KINDS[:5]),
            "d": rng.choice([1, 2, 3]), "n": rng.choice([1, 2, 3, 5, 8] + ([12] if tier == "thorough" else [])),
            "zero_mean": rng.random() < 0.3,
            # Box-Cox target transform incl. the lambda = 0 (log) corner and values next to it
            "boxcox": rng.choice([None, None, None, "0", "0", "0.5", "-0.3", "5e-8", "random"]),
            "verbose": rng.random() < 0.25, "at_init": rng.random() < 0.25, "at_bound": rng.random() < 0.3,
            "yscale": rng.choice([None, None, None, 300, 3000]), "encoding": rng.choice(["logarithm", "logarithm", "positive"])}


class _NotANumber(Exception):
    pass


def run_e2e09_fit(spec):
    try:
        return _run_e2e09_fit(spec)
    except _NotANumber as e:
        return {"lines": [], "monitor": [F("c09:criterion-not-a-number", str(e), {"spec": spec})],
                "meta": {"hist": {"e2e09_fit": 1}, "nontrivial": True, "dev": {}}}


def _run_e2e09_fit(spec):
    """gradient of the fitting criterion (neg. log marginal likelihood + hyperpriors) w.r.t. every
    internal parameter, from the real `create_lbfgs_arguments` objective"""
    rng = random.Random(spec["seed"])
    kind, d, n = spec["model"], spec["d"], spec["n"]
    hist = {"e2e09_fit": 1, "fit_model:" + kind: 1}
    mon = []
    k, mean, lik = build_model(kind, d, spec["zero_mean"], None, spec.get("encoding") or "logarithm")
    hist["fit_encoding:" + (spec.get("encoding") or "logarithm")] = 1
    X = features_for(rng, kind, d, n, "none")
    y = np.array([[math.sin(3 * X[i, 0]) + 0.3 * rng.gauss(0, 1)] for i in range(n)])
    if spec.get("yscale") and not spec.get("boxcox"):
        y = y * float(spec["yscale"])   # targets that are not normalised (e.g. a runtime in milliseconds): large gradients
        hist["fit_target_scale:%s" % spec["yscale"]] = 1
    bc = spec.get("boxcox")
    if bc is not None:
        from syne_tune.optimizer.schedulers.searchers.bayesopt.gpautograd.target_transform import BoxCoxTargetTransform
        tt = BoxCoxTargetTransform(initial_boxcox_lambda=None if bc == "random" else float(bc))
        lik = GaussianProcessMarginalLikelihood(kernel=k, mean=mean, target_transform=tt)
        lik.initialize(force_reinit=True)
        y = np.exp(y)                       # Box-Cox needs positive targets
        hist["boxcox:" + bc] = 1
    data = {"features": X, "targets": y}
    if spec.get("fit_start", True) and kind != "expdecay":
        # what `fit` does first: the likelihood (target transform, mean) adapts to the data set - e.g. the Box-Cox lambda is
        # held fixed for fewer than 5 observations; whatever mode it is in, the gradient is the derivative of the value
        try:
            lik.on_fit_start(data)
            hist["fit_start_called"] = 1
        except Exception:  # noqa
            hist["fit_start_raised"] = 1
    if spec.get("at_init"):
        # the initial parameter vector (where every fit starts: warping powers exactly 1, default bandwidths, ...)
        _, pd_i = create_lbfgs_arguments(lik, [data])
        conv = ParamVecDictConverter(pd_i)
        vec = np.asarray(conv.to_vec(), dtype=float)
        hist["fit_at_initial_parameters"] = 1
    else:
        conv, vec = randomize_params(rng, lik, noise_lo=1e-3, noise_hi=1.0, span=1.5)
    if spec.get("at_bound") and len(vec):
        # a parameter exactly on a bound of its box (noise variance at its floor after a fit on noise-free data, ...): the gradient
        # there is still the derivative of the criterion
        box = lik.box_constraints_internal()
        names_b = [(nm, ix) for nm, ix in conv.name_to_index.items() if box.get(nm) and any(b is not None for b in box[nm])]
        if names_b:
            nm, ix = rng.choice(sorted(names_b, key=lambda z: z[0]))
            lo_b, hi_b = box[nm]
            bval = lo_b if (hi_b is None or (lo_b is not None and rng.random() < 0.5)) else hi_b
            vec[int(rng.choice(list(ix)))] = float(bval)
            hist["fit_at_box_bound"] = 1
    if bc is not None and bc != "random":
        tt.set_boxcox_lambda(float(bc))
        _, pd0 = create_lbfgs_arguments(lik, [data])
        vec = np.asarray(ParamVecDictConverter(pd0).to_vec(), dtype=float)
    obj, pd = create_lbfgs_arguments(lik, [data], verbose=bool(spec.get("verbose")))  # (logging is disabled in this module)
    hist["fit_verbose:" + str(bool(spec.get("verbose")))] = 1
    conv = ParamVecDictConverter(pd)
    def scalar(z):
        try:
            return float(np.asarray(z, dtype=float).reshape(-1)[0])
        except (TypeError, ValueError):
            # e.g. an autograd box of an earlier, finished trace left in a parameter
            raise _NotANumber(f"the criterion is not a number but {type(z).__name__}: {str(z)[:120]}")

    if (spec.get("encoding") == "positive") and len(vec) and float(np.max(vec)) > 700.0:
        # softrelu(x) = log(1 + exp(x)) overflows for x > 709 although the box of e.g. the covariance scale reaches 1000
        try:
            v0 = scalar(obj(vec.copy())[0])
            bad = not math.isfinite(v0)
        except _NotANumber:
            raise
        except Exception as e:  # noqa
            bad = True
        if bad:
            return {"lines": [], "monitor": [F("c09:positive-encoding-overflows-inside-box",
                                               f"encoding_type='positive': a parameter vector inside the box constraints (internal value "
                                               f"{float(np.max(vec)):.6g} > 709) makes the fitting criterion overflow (exp in softrelu)",
                                               {"spec": spec})],
                    "meta": {"hist": dict(hist, positive_encoding_overflow=1), "nontrivial": True, "dev": {}}}
    val, grad = obj(vec.copy())
    val, grad = scalar(val), np.asarray(grad, dtype=float)
    conv.from_vec(vec.copy())

    def f(v):
        return scalar(obj(v.copy())[0])
    worst = 0.0
    for i in range(len(vec)):
        r, err = richardson(f, vec, i, 1e-3)
        tol = fd_tol(grad[i], r, err, abs(val))
        worst = max(worst, abs(grad[i] - r) / tol)
        if not abs(grad[i] - r) <= tol:
            name = [nm for nm, ix in conv.name_to_index.items() if i in ix]
            mon.append(F("c09:fit-gradient-not-derivative",
                         f"d criterion / d {name} = {grad[i]:.10g} from autograd, {r:.10g} by Richardson central differences "
                         f"(error estimate {err:.2e}, model {kind}, n={n})", {"spec": spec, "index": i}))
    # the optimiser evaluates ONE objective many times in a row, at points that often differ in a few coordinates only: value and
    # gradient are functions of the point, not of what was evaluated before (reference: a freshly created objective)
    if len(vec):
        x1 = vec.copy()
        j1 = rng.randrange(len(vec))
        x1[j1] += rng.choice([-0.07, 0.05, 0.11])
        v_again, g_again = obj(x1.copy())
        obj_fresh, _pd = create_lbfgs_arguments(lik, [data])
        v_fresh, g_fresh = obj_fresh(x1.copy())
        g_again, g_fresh = np.asarray(g_again, dtype=float), np.asarray(g_fresh, dtype=float)
        hist["fit_objective_reused"] = 1
        if not close([scalar(v_again)], [scalar(v_fresh)], 1e-9) or not close(g_again, g_fresh, 1e-8):
            bad = int(np.argmax(np.abs(g_again - g_fresh)))
            name = [nm for nm, ix in conv.name_to_index.items() if bad in ix]
            mon.append(F("c09:fit-gradient-depends-on-history",
                         f"the objective evaluated at a second point (coordinate {j1} moved) returns d criterion / d {name} = {g_again[bad]:.10g}, "
                         f"a freshly created objective returns {g_fresh[bad]:.10g} at the same point (values {scalar(v_again):.10g} / "
                         f"{scalar(v_fresh):.10g})", {"spec": spec}))
    # value returned with the gradient equals the value alone
    from syne_tune.optimizer.schedulers.searchers.bayesopt.gpautograd.optimization_utils import add_regularizer_to_criterion
    conv.from_vec(vec.copy())
    alone = scalar(add_regularizer_to_criterion(lik, [data]))
    if not close([val], [alone]):
        mon.append(F("c09:value-with-gradient-differs", f"criterion with gradient {val} != criterion alone {alone}", {"spec": spec}))
    hist["fit_params_checked"] = len(vec)
    return {"lines": [], "monitor": mon, "meta": {"hist": hist, "nontrivial": True, "dev": {"c09:fit-gradient": worst}}}


def gen_e2e09_acq(rng, tier):
    return {"kind": "e2e09_acq", "seed": rng.randrange(10 ** 9), "d": rng.choice([1, 2, 3]),
            "n": rng.choice([3, 4, 6, 9]), "pending": rng.choice([0, 0, 1, 2]), "nf": rng.choice([1, 2, 4]),
            "ard": rng.random() < 0.5, "acq": rng.choice(["ei", "ei", "lcb", "cei", "eipu"]), "normalize": rng.random() < 0.7,
            "shuffled": rng.random() < 0.5,
            # posterior samples of the objective's / the second output's surrogate (two-output acquisition functions)
            "nsamp": rng.choice([[1, 1], [1, 1], [3, 1], [1, 2], [2, 3], [2, 2]]),
            "resource_kernel": rng.choice([None, None, None, "exp-decay-sum", "exp-decay-combined"])}


def run_e2e09_acq(spec):
    """compute_acq_with_gradient of EI / LCB on a real GP predictor (with fantasies for pending
    evaluations) against finite differences of compute_acq; EI <= 0 and closed form."""
    from scipy.stats import norm
    from syne_tune.optimizer.schedulers.searchers.bayesopt.datatypes.common import dictionarize_objective, INTERNAL_METRIC_NAME
    from syne_tune.optimizer.schedulers.searchers.utils.hp_ranges_factory import make_hyperparameter_ranges
    from syne_tune.config_space import uniform
    from syne_tune.optimizer.schedulers.searchers.bayesopt.models.gp_model import GaussProcEmpiricalBayesEstimator
    from syne_tune.optimizer.schedulers.searchers.bayesopt.utils.test_objects import create_tuning_job_state
    from syne_tune.optimizer.schedulers.searchers.bayesopt.gpautograd.gp_regression import GaussianProcessRegression
    rng = random.Random(spec["seed"])
    d, n = spec["d"], spec["n"]
    hist = {"e2e09_acq": 1, "acq:" + spec["acq"]: 1, f"pending={spec['pending']}": 1}
    mon = []
    cs = {f"x{i}": uniform(0.0, 1.0) for i in range(d)}
    hp = make_hyperparameter_ranges(cs)
    Xt = [tuple(rng.random() for _ in range(d)) for _ in range(n)]
    Ys = [dictionarize_objective(math.sin(3 * x[0]) + sum(z * z for z in x[1:]) + 0.1 * rng.gauss(0, 1)) for x in Xt]
    pend = [tuple(rng.random() for _ in range(d)) for _ in range(spec["pending"])]
    state = create_tuning_job_state(hp_ranges=hp, cand_tuples=list(Xt), metrics=Ys, pending_tuples=pend or None)
    rk = spec.get("resource_kernel")
    if rk and d >= 2 and spec["acq"] in ("ei", "lcb"):
        # a kernel over (x, r) whose prior variance k((x, r), (x, r)) depends on the input: exponential-decay resource kernels
        # (the last coordinate is the resource); every coordinate of the acquisition gradient is checked, also that one
        from syne_tune.optimizer.schedulers.searchers.bayesopt.models.kernel_factory import resource_kernel_factory
        kernel_r, mean_r = resource_kernel_factory(rk, kernel_x=Matern52(dimension=d - 1, ARD=spec["ard"]), mean_x=ScalarMeanFunction())
        gpm = GaussianProcessRegression(kernel=kernel_r, mean=mean_r, random_seed=spec["seed"] % 1000)
        hist["acq_resource_kernel:" + rk] = 1
    else:
        gpm = GaussianProcessRegression(kernel=Matern52(d, ARD=spec["ard"]), random_seed=spec["seed"] % 1000)
    params = gpm.get_params()
    for key in params:
        if key == "noise_variance":
            params[key] = math.exp(rng.uniform(math.log(1e-3), math.log(0.3)))
            if spec.get("near_data"):
                params[key] = 1e-8 * math.exp(rng.uniform(0, 1.5))   # an (almost) noise-free objective
        elif key.startswith("kernel_inv_bw"):
            params[key] = math.exp(rng.uniform(-1, 1.2))
        elif key == "kernel_covariance_scale":
            params[key] = math.exp(rng.uniform(-1, 1))
        elif key == "mean_mean_value":
            params[key] = rng.uniform(-0.5, 0.5)
    gpm.set_params(params)
    est = GaussProcEmpiricalBayesEstimator(active_metric=INTERNAL_METRIC_NAME, gpmodel=gpm,
                                           num_fantasy_samples=spec["nf"], normalize_targets=spec["normalize"])
    np_state = np.random.get_state()
    np.random.seed(spec["seed"] % (2 ** 31))
    try:
        pred = est.fit_from_state(state, update_params=False)
    finally:
        np.random.set_state(np_state)
    if spec["acq"] in ("cei", "eipu"):
        return _run_two_output_acq(spec, rng, hist, hp, Xt, d, n)
    if spec["acq"] == "ei":
        acq = AF.EIAcquisitionFunction(pred)
    else:
        acq = AF.LCBAcquisitionFunction(pred, kappa=rng.uniform(0.3, 3))
    worst = 0.0
    npts = 0
    for _ in range(6):
        x = np.array([rng.uniform(0.05, 0.95) for _ in range(d)])
        h_fd = 1e-4
        if spec.get("near_data"):
            # next to an observed configuration of a noise-free objective: the posterior standard deviation is tiny and its part of
            # the gradient is what moves the acquisition value
            x0 = np.array(Xt[rng.randrange(n)])
            dist = 10 ** rng.uniform(-4, -3)
            dirn = np.array([rng.choice([-1.0, 1.0]) * rng.uniform(0.3, 1) for _ in range(d)])
            x = np.clip(x0 + dist * dirn / np.linalg.norm(dirn), 0.001, 0.999)
            h_fd = dist / 40
            hist["acq_point_next_to_data"] = hist.get("acq_point_next_to_data", 0) + 1
        p = pred.predict(x.reshape(1, -1))[0]
        mu, sd = np.asarray(p["mean"]).reshape(-1), float(np.asarray(p["std"]).reshape(-1)[0])
        if spec["acq"] == "ei":
            best = np.asarray(pred.current_best()[0]).reshape(-1)
            u = (best - mu - acq.jitter) / max(sd, 1e-10)
            if np.max(np.abs(u)) > 3.5:
                hist["ei_point_skipped_tail"] = hist.get("ei_point_skipped_tail", 0) + 1
                continue
        npts += 1
        fval, grad = acq.compute_acq_with_gradient(x.copy())
        alone = float(np.asarray(acq.compute_acq(x.copy())).reshape(-1)[0])
        if not close([fval], [alone]):
            mon.append(F("c09:value-with-gradient-differs",
                         f"{spec['acq']}: compute_acq_with_gradient value {fval} != compute_acq {alone} at {x.tolist()}", {"spec": spec}))
        if spec["acq"] == "ei":
            if alone > 0:
                mon.append(F("c09:ei-negative", f"expected improvement {-alone} < 0 at {x.tolist()}", {"spec": spec}))
            closed = -float(np.mean(sd * (u * norm.cdf(u) + norm.pdf(u))))
            if abs(closed - alone) > 1e-10 * max(1.0, abs(closed)) + 1e-13:
                mon.append(F("c09:ei-not-closed-form", f"EI head {alone} differs from closed form {closed} (scipy.stats.norm) at {x.tolist()}",
                             {"spec": spec}))

        def f(v):
            return float(np.asarray(acq.compute_acq(v.copy())).reshape(-1)[0])
        grad = np.asarray(grad, dtype=float).reshape(-1)
        for i in range(d):
            r, err = richardson(f, x, i, h_fd)
            tol = fd_tol(grad[i], r, err, abs(alone))
            if spec.get("near_data"):
                # (the kernel matrix is ill-conditioned here: value and gradient are computed along different routes and agree
                # to about condition number x unit round-off only)
                tol = 50 * err + 1.5e-3 * max(abs(grad[i]), abs(r)) + 1e-13 * max(1.0, abs(alone)) / h_fd
            worst = max(worst, abs(grad[i] - r) / tol)
            if not abs(grad[i] - r) <= tol:
                mon.append(F("c09:acq-gradient-not-derivative",
                             f"{spec['acq']}: d acq / d x[{i}] = {grad[i]:.10g} from compute_acq_with_gradient, {r:.10g} by Richardson "
                             f"central differences (error estimate {err:.2e}, nf={spec['nf']}, pending={spec['pending']})",
                             {"spec": spec, "x": x.tolist()}))
    # the same acquisition-function object evaluated on an overriding predictor (different data, different incumbent)
    # after it has been used on its own one
    if spec.get("override", True):
        Xb = [tuple(rng.random() for _ in range(d)) for _ in range(n + 1)]
        Yb = [dictionarize_objective(-1.5 + math.cos(2 * x[0]) + 0.1 * rng.gauss(0, 1)) for x in Xb]
        state_b = create_tuning_job_state(hp_ranges=hp, cand_tuples=list(Xb), metrics=Yb, pending_tuples=pend or None)
        np_state = np.random.get_state()
        np.random.seed((spec["seed"] + 1) % (2 ** 31))
        try:
            pred_b = est.fit_from_state(state_b, update_params=False)
        finally:
            np.random.set_state(np_state)
        fresh = AF.EIAcquisitionFunction(pred_b) if spec["acq"] == "ei" else AF.LCBAcquisitionFunction(pred_b, kappa=acq.kappa)
        for _ in range(3):
            x = np.array([rng.uniform(0.05, 0.95) for _ in range(d)])
            fval, grad = acq.compute_acq_with_gradient(x.copy(), predictor=pred_b)
            alone = float(np.asarray(acq.compute_acq(x.copy(), predictor=pred_b)).reshape(-1)[0])
            ref = float(np.asarray(fresh.compute_acq(x.copy())).reshape(-1)[0])
            hist["acq_override_points"] = hist.get("acq_override_points", 0) + 1
            if not close([fval], [alone]) or not close([alone], [ref]):
                mon.append(F("c09:value-with-gradient-differs",
                             f"{spec['acq']} on an overriding predictor: compute_acq_with_gradient value {fval}, compute_acq {alone}, "
                             f"a fresh acquisition function on that predictor {ref} at {x.tolist()}", {"spec": spec}))
                break

            def fb(v):
                return float(np.asarray(acq.compute_acq(v.copy(), predictor=pred_b)).reshape(-1)[0])
            grad = np.asarray(grad, dtype=float).reshape(-1)
            if abs(alone) < 1e-8:
                continue  # far tail of EI: the differences are below the resolution of the quotient
            for i in range(d):
                r, err = richardson(fb, x, i, 1e-4)
                tol = fd_tol(grad[i], r, err, abs(alone))
                if not abs(grad[i] - r) <= tol:
                    mon.append(F("c09:acq-gradient-not-derivative",
                                 f"{spec['acq']} on an overriding predictor: d acq / d x[{i}] = {grad[i]:.10g}, {r:.10g} by Richardson "
                                 f"central differences (error estimate {err:.2e})", {"spec": spec, "x": x.tolist()}))
        # ... and the first predictor object used again after its estimator has been fitted to other data: whatever
        # posterior it now stands for, value and gradient have to come from the same one
        for _ in range(2):
            x = np.array([rng.uniform(0.05, 0.95) for _ in range(d)])
            fval, grad = acq.compute_acq_with_gradient(x.copy())
            alone = float(np.asarray(acq.compute_acq(x.copy())).reshape(-1)[0])
            hist["acq_reused_predictor_points"] = hist.get("acq_reused_predictor_points", 0) + 1
            if not close([fval], [alone]):
                mon.append(F("c09:value-with-gradient-differs",
                             f"{spec['acq']}, predictor used again after its estimator was refitted: compute_acq_with_gradient value {fval}, "
                             f"compute_acq {alone} at {x.tolist()}", {"spec": spec}))
                break
            if abs(alone) < 1e-8:
                continue

            def fr(v):
                return float(np.asarray(acq.compute_acq(v.copy())).reshape(-1)[0])
            grad = np.asarray(grad, dtype=float).reshape(-1)
            for i in range(d):
                r, err = richardson(fr, x, i, 1e-4)
                tol = fd_tol(grad[i], r, err, abs(alone))
                if not abs(grad[i] - r) <= tol:
                    mon.append(F("c09:acq-gradient-not-derivative",
                                 f"{spec['acq']}, predictor used again after its estimator was refitted: d acq / d x[{i}] = {grad[i]:.10g}, "
                                 f"{r:.10g} by Richardson central differences (error estimate {err:.2e})", {"spec": spec, "x": x.tolist()}))
    hist["acq_points_checked"] = npts
    return {"lines": [], "monitor": mon, "meta": {"hist": hist, "nontrivial": npts > 0, "dev": {"c09:acq-gradient": worst}}}


def _run_two_output_acq(spec, rng, hist, hp, Xt, d, n):
    """constrained EI / EI per unit cost on TWO real GP predictors (objective + constraint or cost); the dictionary of
    predictors lists the active metric first or second: `compute_acq_with_gradient` must return the value of `compute_acq`
    and its derivative either way"""
    from syne_tune.optimizer.schedulers.searchers.bayesopt.datatypes.common import INTERNAL_METRIC_NAME
    from syne_tune.optimizer.schedulers.searchers.bayesopt.models.gp_model import GaussProcEmpiricalBayesEstimator
    from syne_tune.optimizer.schedulers.searchers.bayesopt.utils.test_objects import create_tuning_job_state
    from syne_tune.optimizer.schedulers.searchers.bayesopt.gpautograd.gp_regression import GaussianProcessRegression
    mon = []
    sec = "constraint_metric" if spec["acq"] == "cei" else "cost_metric"
    Ys = []
    for x in Xt:
        y = math.sin(3 * x[0]) + sum(z * z for z in x[1:]) + 0.1 * rng.gauss(0, 1)
        c = (x[0] - 0.6 + 0.05 * rng.gauss(0, 1)) if spec["acq"] == "cei" else (0.5 + x[0] + 0.05 * abs(rng.gauss(0, 1)))
        Ys.append({INTERNAL_METRIC_NAME: y, sec: c})
    if spec["acq"] == "cei" and not any(y[sec] <= 0 for y in Ys):
        Ys[0][sec] = -0.2  # at least one feasible observation: a feasible incumbent exists
    state = create_tuning_job_state(hp_ranges=hp, cand_tuples=list(Xt), metrics=Ys)
    preds = {}
    # number of posterior samples of the surrogate's parameters per output (1 = empirical Bayes; > 1 = what an MCMC fit gives:
    # `predict` / `current_best` / `backward_gradient` are lists over the samples); the two outputs may have DIFFERENT numbers
    nsamp = spec.get("nsamp") or [1, 1]
    for name, ns in zip((INTERNAL_METRIC_NAME, sec), nsamp):
        parts = []
        for _s in range(ns):
            gpm = GaussianProcessRegression(kernel=Matern52(d, ARD=spec["ard"]), random_seed=spec["seed"] % 1000)
            params = gpm.get_params()
            for key in params:
                if key == "noise_variance":
                    params[key] = math.exp(rng.uniform(math.log(1e-3), math.log(0.3)))
                elif key.startswith("kernel_inv_bw"):
                    params[key] = math.exp(rng.uniform(-1, 1.2))
                elif key == "kernel_covariance_scale":
                    params[key] = math.exp(rng.uniform(-1, 1))
            gpm.set_params(params)
            est = GaussProcEmpiricalBayesEstimator(active_metric=name, gpmodel=gpm, num_fantasy_samples=1, normalize_targets=spec["normalize"])
            parts.append(est.fit_from_state(state, update_params=False))
        preds[name] = parts[0] if ns == 1 else SamplesOfPredictors(parts)
    hist["acq_samples:%dx%d" % tuple(nsamp)] = 1
    order = [sec, INTERNAL_METRIC_NAME] if spec.get("shuffled") else [INTERNAL_METRIC_NAME, sec]
    pdict = {k: preds[k] for k in order}
    hist["acq_dict_order:" + ("active-second" if spec.get("shuffled") else "active-first")] = 1
    try:
        if spec["acq"] == "cei":
            acq = AF.CEIAcquisitionFunction(pdict, active_metric=INTERNAL_METRIC_NAME)
        else:
            acq = AF.EIpuAcquisitionFunction(pdict, active_metric=INTERNAL_METRIC_NAME, exponent_cost=rng.choice([1.0, 0.5]))
    except Exception as e:  # noqa
        return {"lines": [], "monitor": [F("c09:acq-constructor-raises", f"{spec['acq']} with predictors {order}: {type(e).__name__}: {e}", {"spec": spec})],
                "meta": {"hist": hist, "nontrivial": False}}
    worst, npts = 0.0, 0
    for _ in range(5):
        x = np.array([rng.uniform(0.05, 0.95) for _ in range(d)])
        fval, grad = acq.compute_acq_with_gradient(x.copy())
        alone = float(np.asarray(acq.compute_acq(x.copy())).reshape(-1)[0])
        if abs(alone) < 1e-7:
            hist["ei_point_skipped_tail"] = hist.get("ei_point_skipped_tail", 0) + 1
            continue
        npts += 1
        if not close([fval], [alone]):
            mon.append(F("c09:value-with-gradient-differs",
                         f"{spec['acq']} (predictor dictionary order {order}): compute_acq_with_gradient value {fval} != compute_acq {alone} "
                         f"at {x.tolist()}", {"spec": spec}))
            break

        def f(v):
            return float(np.asarray(acq.compute_acq(v.copy())).reshape(-1)[0])
        grad = np.asarray(grad, dtype=float).reshape(-1)
        for i in range(d):
            r, err = richardson(f, x, i, 1e-4)
            tol = fd_tol(grad[i], r, err, abs(alone))
            worst = max(worst, abs(grad[i] - r) / tol)
            if not abs(grad[i] - r) <= tol:
                mon.append(F("c09:acq-gradient-not-derivative",
                             f"{spec['acq']} (predictor dictionary order {order}): d acq / d x[{i}] = {grad[i]:.10g}, {r:.10g} by Richardson "
                             f"central differences (error estimate {err:.2e})", {"spec": spec, "x": x.tolist()}))
    hist["acq_points_checked"] = npts
    return {"lines": [], "monitor": mon, "meta": {"hist": hist, "nontrivial": npts > 0, "dev": {"c09:acq-gradient": worst}}}


from syne_tune.optimizer.schedulers.searchers.bayesopt.models.model_base import BasePredictor as _BasePredictor  # noqa: E402


def gen_gpm08(rng, tier):
    return {"kind": "gpm08", "seed": rng.randrange(10 ** 9), "d": rng.choice([1, 2, 3]), "n1": rng.choice([3, 5, 6]),
            "n2": rng.choice([2, 4, 5]), "t": rng.choice([1, 3, 6]), "ard": rng.random() < 0.6, "n_starts": rng.choice([1, 2]),
            "fail_second_fit": rng.random() < 0.6}


def run_gpm08(spec):
    """the surrogate object itself (GaussianProcessRegression): whatever was done to it before - fit, parameters set by hand and the
    posterior recomputed for the SAME data dictionary, a later fit on more data in which every restart of the optimiser fails - its
    predictions are those of the posterior state built from scratch for the data it was last given and its current parameters"""
    from autograd.tracer import isbox
    from syne_tune.optimizer.schedulers.searchers.bayesopt.gpautograd.gp_regression import GaussianProcessRegression
    from syne_tune.optimizer.schedulers.searchers.bayesopt.gpautograd.constants import OptimizationConfig
    rng = random.Random(spec["seed"])
    d = spec["d"]

    class Flaky(Matern52):
        fail_in_trace = False

        def forward(self, X1, X2):
            if self.fail_in_trace and isbox(self._covariance_scale()):
                raise np.linalg.LinAlgError("simulated numerical failure inside the optimiser")
            return super().forward(X1, X2)

    def mk(n):
        X = np.array([[rng.random() for _ in range(d)] for _ in range(n)]).reshape(n, d)
        y = np.array([[math.sin(4 * X[i, 0]) + X[i, -1] + 0.1 * rng.gauss(0, 1)] for i in range(n)])
        return X, y
    X1, y1 = mk(spec["n1"])
    Xn, yn = mk(spec["n2"])
    X2, y2 = np.vstack([X1, Xn]), np.vstack([y1, yn])
    Xs = np.array([[rng.random() for _ in range(d)] for _ in range(spec["t"])]).reshape(spec["t"], d)
    kern = Flaky(dimension=d, ARD=spec["ard"])
    gpm = GaussianProcessRegression(kernel=kern, random_seed=spec["seed"] % 1000,
                                    optimization_config=OptimizationConfig(lbfgs_tol=1e-6, lbfgs_maxiter=15, verbose=False,
                                                                           n_starts=spec["n_starts"]))
    mon, hist = [], {"gpm08": 1}

    def judge(step, data):
        lik = gpm.likelihood
        ref = GaussProcPosteriorState(data["features"], data["targets"], lik.mean, lik.kernel,
                                      noise_variance=lik.get_noise_variance(as_ndarray=True))
        m_ref, v_ref = (np.asarray(z, dtype=float) for z in ref.predict(Xs))
        m, v = (np.asarray(z, dtype=float) for z in gpm.predict(Xs)[0])
        nd = int(gpm.states[0].num_data)
        if nd != data["features"].shape[0] or not (np.allclose(m.reshape(-1), m_ref.reshape(-1), rtol=1e-8, atol=1e-9)
                                                   and np.allclose(v.reshape(-1), v_ref.reshape(-1), rtol=1e-8, atol=1e-10)):
            mon.append(F("c08:surrogate-state-stale", f"GaussianProcessRegression after {step}: its posterior holds {nd} data points "
                         f"(given {data['features'].shape[0]}); predictive means deviate by {float(np.max(np.abs(m.reshape(-1) - m_ref.reshape(-1)))):.3e} "
                         f"from the posterior state built from scratch for that data and the current parameters", {"spec": spec}))
            return False
        return True

    data1 = {"features": X1, "targets": y1}
    gpm.fit(data1)
    ok = judge("fit(data1)", data1)
    if ok:
        params = gpm.get_params()
        for key in params:
            if key == "noise_variance":
                params[key] = math.exp(rng.uniform(math.log(1e-3), math.log(0.3)))
            elif key.startswith("kernel_inv_bw"):
                params[key] = math.exp(rng.uniform(-1, 1.2))
            elif key == "kernel_covariance_scale":
                params[key] = math.exp(rng.uniform(-1, 1))
        gpm.set_params(params)
        gpm.recompute_states(data1)   # the very same dictionary object as before
        ok = judge("set_params + recompute_states(data1)", data1)
        hist["gpm08:recompute-same-dict"] = 1
    if ok:
        data2 = {"features": X2, "targets": y2}
        kern.fail_in_trace = bool(spec["fail_second_fit"])
        try:
            gpm.fit(data2)
        finally:
            kern.fail_in_trace = False
        judge("fit(data2)" + (" with every restart of the optimiser failing" if spec["fail_second_fit"] else ""), data2)
        hist["gpm08:second-fit:" + ("all-restarts-fail" if spec["fail_second_fit"] else "normal")] = 1
    return {"lines": [], "monitor": mon, "meta": {"hist": hist, "nontrivial": True, "dev": {}}}


def gen_e2e09_indep(rng, tier):
    return {"kind": "e2e09_indep", "seed": rng.randrange(10 ** 9), "d": rng.choice([1, 2, 3]),
            "rungs": rng.choice([[1, 3, 9], [1, 2, 4, 8], [2, 4], [1, 3]]), "acq": rng.choice(["ei", "lcb"]),
            "normalize": rng.choice(["data", "data", "none", "negative-mean"]), "ard": rng.random() < 0.6}


def run_e2e09_indep(spec):
    """acquisition gradient for the multi-fidelity surrogate with one independent GP per rung level (`gp_independent`,
    IndependentGPPerResourceModel): the gradient w.r.t. the encoded configuration (the resource coordinate is fixed) returned
    by compute_acq_with_gradient is the derivative of compute_acq at every rung level; target normalisation with mean != std"""
    from syne_tune.config_space import uniform
    from syne_tune.optimizer.schedulers.searchers.utils.hp_ranges_factory import make_hyperparameter_ranges
    from syne_tune.optimizer.schedulers.searchers.bayesopt.datatypes.common import INTERNAL_METRIC_NAME
    from syne_tune.optimizer.schedulers.searchers.bayesopt.datatypes.tuning_job_state import TuningJobState
    from syne_tune.optimizer.schedulers.searchers.bayesopt.gpautograd.independent.gpind_model import IndependentGPPerResourceModel
    from syne_tune.optimizer.schedulers.searchers.bayesopt.models.gp_model import GaussProcPredictor
    rng = random.Random(spec["seed"])
    d, rungs = spec["d"], spec["rungs"]
    r_min, r_max = rungs[0], rungs[-1]
    hist = {"e2e09_indep": 1, "indep_normalize:" + spec["normalize"]: 1, "indep_acq:" + spec["acq"]: 1}

    def enc_r(r):
        return (r - r_min + 0.5) / (r_max - r_min + 1)

    feats, raw = [], []
    shift = -3.0 if spec["normalize"] == "negative-mean" else 0.4
    for j, r in enumerate(rungs):
        for _ in range(max(3, 8 - 2 * j)):
            x = [rng.uniform(0.05, 0.95) for _ in range(d)]
            raw.append(shift + 0.3 * (x[0] - 0.4) ** 2 + 0.2 * math.sin(3.0 * x[-1]) + 0.3 / r + 0.02 * rng.gauss(0, 1))
            feats.append(x + [enc_r(r)])
    features, raw = np.array(feats), np.array(raw)
    if spec["normalize"] == "none":
        mean, std = 0.0, 1.0
    else:
        mean, std = float(np.mean(raw)), float(np.std(raw))
    targets = ((raw - mean) / std).reshape((-1, 1))
    gpmodel = IndependentGPPerResourceModel(kernel=Matern52(dimension=d, ARD=spec["ard"], has_covariance_scale=False),
                                            mean_factory=lambda resource: ScalarMeanFunction(),
                                            resource_attr_range=(r_min, r_max), random_seed=spec["seed"] % 1000)
    gpmodel.create_likelihood(list(rungs))
    params = gpmodel.get_params()
    for key in params:
        if key.startswith("kernel_inv_bw"):
            params[key] = math.exp(rng.uniform(-0.5, 1.2))
        elif key == "noise_variance":
            params[key] = math.exp(rng.uniform(math.log(1e-3), math.log(0.1)))
        elif key.startswith("covariance_scale"):
            params[key] = math.exp(rng.uniform(-0.7, 0.7))
    gpmodel.set_params(params)
    mon = []
    # the fitting criterion of this surrogate (one covariance scale and mean per rung level): gradient = derivative of the value
    try:
        data_i = {"features": features, "targets": targets}
        obj_i, pd_i = create_lbfgs_arguments(gpmodel.likelihood, [data_i])
        conv_i = ParamVecDictConverter(pd_i)
        vec_i = np.asarray(conv_i.to_vec(), dtype=float)
        vec_i = vec_i + np.array([rng.uniform(-0.3, 0.3) for _ in range(len(vec_i))])
        val_i, grad_i = obj_i(vec_i.copy())
        val_i, grad_i = float(np.asarray(val_i).reshape(-1)[0]), np.asarray(grad_i, dtype=float)

        def f_i(v):
            return float(np.asarray(obj_i(v.copy())[0]).reshape(-1)[0])
        for i in rng.sample(range(len(vec_i)), min(len(vec_i), 6)):
            rr, err = richardson(f_i, vec_i, i, 1e-3)
            if not abs(grad_i[i] - rr) <= fd_tol(grad_i[i], rr, err, abs(val_i)):
                name = [nm for nm, ix in conv_i.name_to_index.items() if i in ix]
                mon.append(F("c09:fit-gradient-not-derivative",
                             f"gp_independent (one GP per rung level): d criterion / d {name} = {grad_i[i]:.10g} from autograd, {rr:.10g} by "
                             f"Richardson central differences (error estimate {err:.2e})", {"spec": spec, "index": i}))
                break
        hist["indep_fit_gradient_checked"] = 1
        gpmodel.set_params(params)
    except _NotANumber as e:
        mon.append(F("c09:criterion-not-a-number", str(e), {"spec": spec}))
    gpmodel.recompute_states({"features": features, "targets": targets})
    hp = make_hyperparameter_ranges({"x%d" % i: uniform(0.0, 1.0) for i in range(d)})
    predictor = GaussProcPredictor(state=TuningJobState.empty_state(hp), gpmodel=gpmodel, fantasy_samples=[],
                                   active_metric=INTERNAL_METRIC_NAME, normalize_mean=mean, normalize_std=std)
    worst, npts = 0.0, 0
    acq = AF.LCBAcquisitionFunction(predictor, kappa=rng.choice([0.5, 1.5])) if spec["acq"] == "lcb" else None
    for r in rungs:
        for _ in range(2):
            x = np.array([rng.uniform(0.08, 0.92) for _ in range(d)] + [enc_r(r)])
            if acq is None:
                # EI needs the incumbent: taken as the smallest (normalised back) target
                class _Best:  # noqa
                    pass
                a = AF.EIAcquisitionFunction.__new__(AF.EIAcquisitionFunction)
                AF.EIAcquisitionFunction.__init__(a, predictor)
                a._get_current_bests_internal = lambda predictor_, _b=float(np.min(raw)): _ConstBest(_b)
                use = a
            else:
                use = acq
            fval, grad = use.compute_acq_with_gradient(x.copy())
            alone = float(np.asarray(use.compute_acq(x.copy())).reshape(-1)[0])
            if abs(alone) < 1e-7:
                hist["indep_point_skipped_tail"] = hist.get("indep_point_skipped_tail", 0) + 1
                continue
            npts += 1
            if not close([fval], [alone]):
                mon.append(F("c09:value-with-gradient-differs", f"gp_independent, {spec['acq']}: compute_acq_with_gradient value {fval} != "
                             f"compute_acq {alone} at rung level {r}", {"spec": spec}))
                break

            def f(v, use=use):
                return float(np.asarray(use.compute_acq(v.copy())).reshape(-1)[0])
            grad = np.asarray(grad, dtype=float).reshape(-1)
            for i in range(d):
                rr, err = richardson(f, x, i, 1e-4)
                tol = fd_tol(grad[i], rr, err, abs(alone))
                worst = max(worst, abs(grad[i] - rr) / tol)
                if not abs(grad[i] - rr) <= tol:
                    mon.append(F("c09:acq-gradient-not-derivative",
                                 f"gp_independent (one GP per rung level), {spec['acq']}, targets normalised with mean {mean:.4g} std {std:.4g}: "
                                 f"d acq / d x[{i}] = {grad[i]:.10g} at rung level {r}, {rr:.10g} by Richardson central differences "
                                 f"(error estimate {err:.2e})", {"spec": spec, "x": x.tolist()}))
    hist["acq_points_checked"] = npts
    return {"lines": [], "monitor": mon[:3], "meta": {"hist": hist, "nontrivial": npts > 0, "dev": {"c09:acq-gradient": worst}}}


class _ConstBest:
    """CurrentBestProvider with a fixed incumbent"""

    def __init__(self, b):
        self.b = np.array([b])

    def __call__(self, positions):
        return self.b


class SamplesOfPredictors(_BasePredictor):
    """several real single-sample GP predictors (each with its own kernel parameters) presented as ONE predictor with that
    many posterior samples, the way an MCMC-fitted surrogate presents itself: lists over the samples"""

    def __init__(self, parts):
        super().__init__(state=parts[0].state, active_metric=parts[0].active_metric)
        self.parts = parts

    def keys_predict(self):
        return self.parts[0].keys_predict()

    def predict(self, inputs):
        return [q for p in self.parts for q in p.predict(inputs)]

    def hp_ranges_for_prediction(self):
        return self.parts[0].hp_ranges_for_prediction()

    def current_best(self):
        return [q for p in self.parts for q in p.current_best()]

    def predict_mean_current_candidates(self):
        return [q for p in self.parts for q in p.predict_mean_current_candidates()]

    def backward_gradient(self, input, head_gradients):
        assert len(head_gradients) == len(self.parts)
        return [p.backward_gradient(input, [hg])[0] for p, hg in zip(self.parts, head_gradients)]


class StubOutput(Predictor):
    def __init__(self, keys):
        super().__init__(state=None, active_metric=None)
        self._keys = set(keys)

    def keys_predict(self):
        return self._keys


def gen_heads(rng, tier):
    return {"kind": "heads", "seed": rng.randrange(10 ** 9), "head": rng.choice(["ei", "lcb", "eipu", "cei", "cei_infeasible"]),
            "nf": rng.choice([1, 1, 2, 3, 6]), "tail": rng.random() < 0.35}


def run_heads(spec):
    """head gradients of every acquisition head (`_compute_head_and_gradient`) against finite
    differences of the head value (`_compute_head`) in the predictive moments; hval consistency."""
    rng = random.Random(spec["seed"])
    nf, head = spec["nf"], spec["head"]
    hist = {"heads": 1, "head:" + head: 1}
    mon = []
    act, sec = "active", "secondary"
    if head == "ei":
        acq = AF.EIAcquisitionFunction(StubOutput({"mean", "std"}), jitter=rng.choice([0.01, 0.1]))
        names = {act: None}
        acq.active_metric  # noqa
    elif head == "lcb":
        acq = AF.LCBAcquisitionFunction(StubOutput({"mean", "std"}), kappa=rng.uniform(0.3, 3))
    elif head == "eipu":
        acq = AF.EIpuAcquisitionFunction({act: StubOutput({"mean", "std"}), sec: StubOutput({"mean"})},
                                         active_metric=act, exponent_cost=rng.choice([1.0, 0.5, 0.25]))
    else:
        acq = AF.CEIAcquisitionFunction({act: StubOutput({"mean", "std"}), sec: StubOutput({"mean", "std"})}, active_metric=act)
    am = acq.active_metric
    outs = [am] + [o for o in acq.predictor_output_names if o != am]
    # point in moment space: vector z = [mean_active (nf), std_active, (mean_sec (1 or nf), std_sec)]
    nsec = rng.choice([1, nf]) if head in ("eipu", "cei", "cei_infeasible") else 0
    z = [rng.uniform(-1, 1) for _ in range(nf)] + [rng.uniform(0.3, 2)]
    if head == "eipu":
        z += [rng.uniform(0.5, 3) for _ in range(nsec)]
    elif head.startswith("cei"):
        nsec = 1
        z += [rng.uniform(-1, 1), rng.uniform(0.3, 2)]
    z = np.array(z)
    best = np.array([rng.uniform(-1, 1) for _ in range(nf)]).reshape(1, -1)
    if head == "ei" and spec.get("tail"):
        z[nf] = rng.uniform(0.05, 0.5)
        for j in range(nf):
            z[j] = best[0, j] + z[nf] * rng.uniform(4.0, 9.0)
    if head == "cei_infeasible":
        best[0, rng.randrange(nf)] = np.nan
    if head == "lcb":
        best = None

    def preds(v, row):
        d = {am: {"mean": (v[:nf].reshape(1, -1) if row else v[:nf].copy()), "std": (v[nf:nf + 1].reshape(1, 1) if row else v[nf:nf + 1].copy())}}
        if head == "eipu":
            c = v[nf + 1:nf + 1 + nsec]
            d[outs[1]] = {"mean": c.reshape(1, -1) if row else c.copy()}
        elif head.startswith("cei"):
            d[outs[1]] = {"mean": (v[nf + 1:nf + 2].reshape(1, -1) if row else v[nf + 1:nf + 2].copy()),
                          "std": (v[nf + 2:nf + 3].reshape(1, 1) if row else v[nf + 2:nf + 3].copy())}
        return d

    def f(v):
        return float(np.asarray(acq._compute_head(preds(v.copy(), True), best)).reshape(-1)[0])

    hg = acq._compute_head_and_gradient(preds(z.copy(), False), best)
    g = list(np.asarray(hg.gradient[am]["mean"]).reshape(-1)) + list(np.asarray(hg.gradient[am]["std"]).reshape(-1))
    if head == "eipu":
        g += list(np.asarray(hg.gradient[outs[1]]["mean"]).reshape(-1))
    elif head.startswith("cei"):
        g += list(np.asarray(hg.gradient[outs[1]]["mean"]).reshape(-1)) + list(np.asarray(hg.gradient[outs[1]]["std"]).reshape(-1))
    g = np.array(g, dtype=float)
    val = f(z)
    if not close([float(hg.hval)], [val]):
        mon.append(F("c09:value-with-gradient-differs", f"head {head}: hval with gradient {float(hg.hval)} != head value {val}", {"spec": spec}))
    if head in ("ei", "eipu", "cei", "cei_infeasible") and val > 0:
        mon.append(F("c09:ei-negative", f"head {head}: value {val} > 0 (improvement negative)", {"spec": spec}))
    worst = 0.0
    if head == "ei" and spec.get("tail"):
        # far lower tail of the improvement (the mean 4-9 predictive standard deviations above the incumbent): finite
        # differences cannot resolve these values; the closed form can - EI = mean_j sd (u_j Phi(u_j) + phi(u_j)) >= 0
        # and d(-EI)/d mean_j = Phi(u_j) / nf, with Phi accurate in the tail (scipy's ndtr)
        from scipy.stats import norm
        sd = float(z[nf])
        u = (best.reshape(-1) - z[:nf] - acq.jitter) / sd
        closed = -float(np.mean(sd * (u * norm.cdf(u) + norm.pdf(u))))
        hist["ei_tail_points"] = 1
        if abs(val - closed) > 1e-6 * abs(closed):
            mon.append(F("c09:ei-not-closed-form", f"EI head {val!r} differs from the closed form {closed!r} in the lower tail (u = {u.tolist()})",
                         {"spec": spec}))
        gm = g[:nf]
        want = norm.cdf(u) / nf
        if np.any(np.abs(gm - want) > 1e-6 * np.abs(want)):
            mon.append(F("c09:head-gradient-not-derivative", f"head ei, lower tail: d h / d mean = {gm.tolist()}, the derivative Phi(u)/nf is "
                                                             f"{want.tolist()} (u = {u.tolist()})", {"spec": spec}))
    elif len(g) != len(z):
        mon.append(F("c09:head-gradient-shape", f"head {head}: {len(g)} gradient entries for {len(z)} moments", {"spec": spec}))
    else:
        for i in range(len(z)):
            r, err = richardson(f, z, i, 1e-3)
            tol = fd_tol(g[i], r, err, abs(val))
            worst = max(worst, abs(g[i] - r) / tol)
            if not abs(g[i] - r) <= tol:
                what = "mean" if i < nf else ("std" if i == nf else "secondary")
                mon.append(F("c09:head-gradient-not-derivative",
                             f"head {head}: d h / d {what}[{i}] = {g[i]:.10g} from _compute_head_and_gradient, {r:.10g} by Richardson "
                             f"central differences of _compute_head (error estimate {err:.2e}, nf={nf})", {"spec": spec, "z": z.tolist()}))
    return {"lines": [], "monitor": mon, "meta": {"hist": hist, "nontrivial": True, "dev": {"c09:head-gradient:" + head: worst}}}
