"""
Stream `pbt`: the real `PopulationBasedTraining` scheduler of /repo driven through its public
methods (`suggest`, `on_trial_add`, `on_trial_result`, `on_trial_remove`, `on_trial_error`,
`on_trial_complete`) by scripted workers, the way `Tuner` would, except that `suggest` calls are
interleaved freely with results: an entry of `_trial_decisions_stack` may wait while results of
other trials (also of the trial it names as clone source) arrive.

Observed, without touching /repo:
  * the pick `random_state.choice(upper_quantile)` of `_get_trial_id_to_continue` — a recording
    proxy around this instance's `_random_state` (it delegates everything to the real generator);
    the pick is an INPUT of the model (FREE), its membership in the upper quantile is checked by
    the model (FORCED),
  * what `_quantiles()` returned — an instance attribute that calls the class's method and
    keeps the result,
  * `_trial_state` and `_trial_decisions_stack` after every call.

Lines for `lean/SyneTune/Drivers/Pbt.lean` (see there) with the implementation's answers, plus the
raw event log read by the monitors

    monitor_c20(spec, events)   direct reading of C20 (PBT part) on the real trace
        c20:pbt-sched:source-stopped-at-push     a clone source is pushed although the scheduler has
                                                 already answered STOP for it (or it is the trial
                                                 being stopped right now)            -> finding
        c20:pbt-sched:source-without-result      a clone source that never reported (has no
                                                 checkpoint to clone from)           -> finding
        c20:pbt-sched:not-stopped-at-max-t       a result with cost >= max_t not answered STOP
        c20:pbt-sched:stop-not-marked            STOP answered, `stopped` flag not set
        c20:pbt-sched:perturbation-interval      below max_t: CONTINUE without recomputation strictly inside the
                                                 perturbation interval, quantiles recomputed outside
        c20:pbt-sched:source-worse-than-stopped-trial   (documented fractions) the clone source's metric is worse
                                                 than that of the trial it replaces
        c20:pbt-sched:clone-source-differs-from-decision / queued-decision-ignored / clone-without-decision /
        stop-without-replacement                 the stack is not served newest-first / not at all
        c20:pbt-sched:source-stopped-before-pop  informational only (counted in meta.hist): the
                                                 source was answered STOP between push and pop, the
                                                 known open finding c20:pbt-source-checkpoint-deleted
    monitor_c15(spec)           the twin experiment (mode flipped, metrics negated, same seeds)
                                answers the same: c15:pbt-sched:min-max-twin-differs

All numbers are dyadic rationals (exact in floating point) unless the style says otherwise; every
float is sent as its exact rational.  Deterministic from `spec["seed"]`.
"""
import datetime
import logging
import math
import random
import sys
from fractions import Fraction

logging.disable(logging.CRITICAL)
sys.modules.setdefault("yahpo_gym", None)  # broken optional binary dependency in this sandbox; import guarded in /repo

from syne_tune.backend.trial_status import Trial
from syne_tune.config_space import choice, randint, uniform
from syne_tune.optimizer.scheduler import SchedulerDecision
from syne_tune.optimizer.schedulers.pbt import PopulationBasedTraining

from framework import frac_str

METRIC, RES = "loss", "epoch"
EPOCH0 = datetime.datetime(2020, 1, 1)

# quantile fractions: dyadic values, decimal values whose product with a population count is not exact in binary
# (0.2 * 5 rounds DOWN onto 1.0: the code's ceiling is 1 where the exact one is 2), the two ends of the documented range,
# values just inside, and what the constructor also lets through (negative) or rejects (> 0.5)
FRACTIONS = {
    "dyadic": [0.25, 0.25, 0.125, 0.375, 0.3125, 0.0625],
    "decimal": [0.1, 0.2, 0.3, 0.4, 0.34, 1.0 / 3.0, 0.45, 0.15],
    "zero": [0.0],
    "half": [0.5],
    "near-edge": [0.499999, 1e-9, 2.0 ** -40, 0.5 - 2.0 ** -30],
    "negative": [-0.25, -0.3, -0.1, -0.2, -0.5, -1.5],
    "rejected": [0.5000001, 0.75, 1.0],
}


class PickRecorder:
    """delegates to the real generator; records arguments and result of every `choice`"""

    def __init__(self, inner):
        self._inner = inner
        self.picks = []

    def choice(self, a, *args, **kw):
        r = self._inner.choice(a, *args, **kw)
        if isinstance(a, list) and not args and not kw:
            # `_get_trial_id_to_continue`; the other caller is `Categorical.sample` inside `_explore`
            # (`choice(len(categories), size=size)`), which is not a decision
            self.picks.append(([int(x) for x in a], int(r)))
        return r

    def __getattr__(self, name):
        return getattr(self._inner, name)


def make_scheduler(ctor):
    cs = {"x": uniform(0, 1), "n": randint(1, 8), "c": choice(["a", "b", "c"])}
    sch = PopulationBasedTraining(
        cs, metric=METRIC, mode=ctor["mode"], resource_attr=RES, max_t=ctor["max_t"],
        population_size=ctor.get("population_size", 4),
        perturbation_interval=float(Fraction(ctor["interval"])),
        quantile_fraction=float(Fraction(ctor["frac"])),
        resample_probability=ctor.get("resample_probability", 0.25),
        random_seed=ctor.get("random_seed", 0), search_options={"debug_log": False})
    rec = PickRecorder(sch._random_state)
    sch._random_state = rec
    qcalls = []
    real_quantiles = sch._quantiles  # bound method of the real class

    def quantiles():
        n = sum(1 for st in sch._trial_state.values() if not st.stopped and st.last_score is not None)
        lo, up = real_quantiles()
        qcalls.append({"n": n, "lower": [int(x) for x in lo], "upper": [int(x) for x in up],
                       "khint": int(math.ceil(n * sch._quantile_fraction))})
        return lo, up

    sch._quantiles = quantiles
    return sch, rec, qcalls


def record(sch, tid):
    st = sch._trial_state.get(tid)
    if st is None:
        return None
    return [int(tid), None if st.last_score is None else frac_str(st.last_score), frac_str(st.last_perturbation_time),
            bool(st.stopped)]


def snapshot(sch, touched=None):
    """`_trial_state` and `_trial_decisions_stack` as the driver prints them: records of the trials not marked stopped in
    insertion order, ids of the stopped ones, and the full record of the trial the operation names"""
    out = {
        "stopped": sorted(int(k) for k, st in sch._trial_state.items() if st.stopped),
        "stack": [int(e[0]) for e in sch._trial_decisions_stack],
        "n_trials": len(sch._trial_state),
        "alive": [record(sch, k)[:3] for k, st in sch._trial_state.items() if not st.stopped],
    }
    if touched is not None:
        out["touched"] = record(sch, touched)
    return out


def errname(e):
    if isinstance(e, AssertionError):
        return "assertion"
    if isinstance(e, KeyError):
        return "key-error"
    return "other:" + type(e).__name__


def metric_value(seed, tid, step, style):
    rr = random.Random(seed * 7919 + tid * 104729 + step)
    if style == "ties":
        return rr.randrange(0, 4) / 4.0
    if style == "const":
        return 0.5
    if style == "two":
        return float(rr.randrange(0, 2))
    if style == "noisy":
        return rr.randrange(0, 256) / 256.0
    if style == "neg":
        return metric_value(seed, tid, step, "general") - 0.5
    if style == "tiny":
        return metric_value(seed, tid, step, "general") * 2.0 ** -30
    if style == "huge":
        return metric_value(seed, tid, step, "general") * 2.0 ** 40
    if style == "improving":
        lat = random.Random(seed * 31 + tid).randrange(0, 32)
        return (lat + 2 * step + rr.randrange(0, 4)) / 64.0
    lat = random.Random(seed * 31 + tid).randrange(0, 64)
    return (lat * 4 + rr.randrange(-16, 17)) / 256.0 + (tid % 7) / 8192.0


def cost_step(rng, style):
    if style == "unit":
        return 1
    if style == "two":
        return 2
    if style == "half":
        return 0.5
    if style == "irregular":
        return rng.choice([0.25, 0.5, 1, 1, 1.5, 2, 3])
    return rng.choice([1, 1, 1, 2])


class Worker:
    def __init__(self, tid, upto):
        self.tid, self.cost, self.step, self.upto = tid, 0, 0, upto


def run_scenario(spec):
    """spec: {"ctor": {"mode", "max_t", "interval", "frac", "population_size", "random_seed"}, "seed", "n_workers",
              "max_events", "style", "cost_style", "w_suggest", "p_fail", "p_late", "p_short", "negate"}
    returns dict(lines=[(input, impl_out)], events=[...], sched=<scheduler or None>)"""
    ctor = dict(spec["ctor"])
    rng = random.Random(spec["seed"])
    header = {"stream": "pbt", "max_t": frac_str(ctor["max_t"]), "interval": ctor["interval"], "frac": ctor["frac"],
              "mode": ctor["mode"]}
    try:
        sch, rec, qcalls = make_scheduler(ctor)
    except AssertionError:
        return {"lines": [(header, {"err": "assertion"})], "events": [{"ev": "ctor-rejected"}], "sched": None}
    lines = [(header, dict(accepted=True, **snapshot(sch)))]
    events = []
    workers, trials, late = {}, {}, []
    next_id = 0
    max_t = ctor["max_t"]
    style = spec.get("style", "general")
    sign = -1.0 if spec.get("negate") else 1.0
    w_suggest = spec.get("w_suggest", 1.0)

    def do_result(tid, cost, step):
        v = sign * metric_value(spec["seed"], tid, step, style)
        n_pick, n_q = len(rec.picks), len(qcalls)
        before = snapshot(sch)
        inp = {"op": "result", "trial": tid, "cost": frac_str(cost), "metric": frac_str(v), "pick": None, "khint": None}
        err = None
        try:
            d = sch.on_trial_result(trials[tid], {METRIC: v, RES: cost})
        except Exception as e:  # noqa
            if type(e).__name__ == "CaseTimeout":
                raise
            err, d = errname(e), None
        picked = rec.picks[n_pick:]
        qs = qcalls[n_q:]
        if picked:
            inp["pick"] = picked[-1][1]
        if qs:
            inp["khint"] = qs[-1]["khint"]
        after = snapshot(sch, tid)
        pushed = len(after["stack"]) == len(before["stack"]) + 1 and after["stack"][:-1] == before["stack"]
        ev = {"ev": "result", "trial": tid, "cost": cost, "metric": v, "decision": d, "err": err,
              "picked": picked[-1][1] if picked else None, "choice_from": picked[-1][0] if picked else None,
              "n_choice_calls": len(picked), "quantiles": qs[-1] if qs else None, "n_quantile_calls": len(qs),
              "pushed": pushed, "source": after["stack"][-1] if pushed else None,
              "before": before, "after": after}
        events.append(ev)
        if err is not None:
            lines.append((inp, dict(err=err, **after)))
            return None
        out = {"decision": d, "pushed": pushed, "source": after["stack"][-1] if pushed else None,
               "quantiles_called": bool(qs), "lower": qs[-1]["lower"] if qs else None,
               "upper": qs[-1]["upper"] if qs else None}
        out.update(after)
        lines.append((inp, out))
        return d

    n_events = 0
    while n_events < spec["max_events"]:
        n_events += 1
        acts, weights = [], []
        if len(workers) < spec["n_workers"]:
            acts.append("suggest")
            weights.append(2.0 * w_suggest)
        if workers:
            acts.append("report")
            weights.append(5.0)
            if spec.get("p_fail", 0) > 0 and rng.random() < spec["p_fail"]:
                acts, weights = ["fail"], [1.0]
        if late and rng.random() < spec.get("p_late", 0):
            acts, weights = ["late"], [1.0]
        if not acts:
            break
        a = rng.choices(acts, weights)[0]
        if a == "suggest":
            before = snapshot(sch)
            sg = sch.suggest(next_id)
            if sg is None:
                events.append({"ev": "suggest-none"})
                break
            after = snapshot(sch)
            src = None if sg.checkpoint_trial_id is None else int(sg.checkpoint_trial_id)
            out = {"suggestion": "fresh" if src is None else "clone", "source": src}
            out.update(after)
            lines.append(({"op": "suggest"}, out))
            tid = next_id
            next_id += 1
            events.append({"ev": "suggest", "new_trial": tid, "source": src, "spawn": bool(sg.spawn_new_trial_id),
                           "before": before, "after": after, "has_config": sg.config is not None})
            trials[tid] = Trial(trial_id=tid, config=sg.config, creation_time=EPOCH0)
            upto = max_t
            if rng.random() < spec.get("p_short", 0):
                upto = rng.randint(1, max(1, max_t - 1))  # a training script that ends by itself before max_t
            workers[tid] = Worker(tid, upto)
            sch.on_trial_add(trials[tid])
            lines.append(({"op": "add", "trial": tid}, snapshot(sch, tid)))
            events.append({"ev": "add", "trial": tid})
        elif a == "report":
            tid = rng.choice(sorted(workers))
            w = workers[tid]
            w.cost += cost_step(rng, spec.get("cost_style", "mostly-unit"))
            w.step += 1
            d = do_result(tid, w.cost, w.step)
            if d is None:
                # the scheduler raised (only possible with a quantile fraction outside the documented range): the
                # tuner would end here; the harness goes on with the trial failed
                del workers[tid]
                sch.on_trial_error(trials[tid])
                lines.append(({"op": "error", "trial": tid}, snapshot(sch)))
                events.append({"ev": "error", "trial": tid})
            elif d != SchedulerDecision.CONTINUE:
                del workers[tid]
                sch.on_trial_remove(trials[tid])
                lines.append(({"op": "remove", "trial": tid}, snapshot(sch)))
                events.append({"ev": "remove", "trial": tid, "decision": d})
                late.append((tid, w.cost + 1, w.step + 1))
            elif w.cost >= w.upto:
                sch.on_trial_complete(trials[tid], {METRIC: sign * metric_value(spec["seed"], tid, w.step, style), RES: w.cost})
                lines.append(({"op": "complete", "trial": tid}, snapshot(sch)))
                events.append({"ev": "complete", "trial": tid})
                del workers[tid]
        elif a == "fail":
            tid = rng.choice(sorted(workers))
            del workers[tid]
            sch.on_trial_error(trials[tid])
            lines.append(({"op": "error", "trial": tid}, snapshot(sch)))
            events.append({"ev": "error", "trial": tid})
        elif a == "late":
            tid, cost, step = late.pop(rng.randrange(len(late)))
            if tid in workers:
                continue
            do_result(tid, cost, step)
            events[-1]["late"] = True
    return {"lines": lines, "events": events, "sched": sch}


# ---------------------------------------------------------------------------------
# monitors: the property read directly on the real trace (no model involved)


def monitor_c20(spec, events):
    """returns (findings, hist)"""
    out, hist = [], {}

    def cnt(k, n=1):
        hist[k] = hist.get(k, 0) + n

    max_t = spec["ctor"]["max_t"]
    interval, frac = Fraction(spec["ctor"]["interval"]), Fraction(spec["ctor"]["frac"])
    better = (lambda a, b: a >= b) if spec["ctor"]["mode"] == "max" else (lambda a, b: a <= b)
    saved = {}           # trial -> (cost, metric) of its last result that reached the perturbation interval (harness's own log)
    answered_stop = {}   # trial -> why ("max_t" | "lower-quantile"), from the scheduler's own answers
    reported = set()     # trials that delivered at least one result
    pending = []         # harness-side copy of the stack: (source, index of the pushing event)
    for i, ev in enumerate(events):
        if ev["ev"] == "result":
            tid, d = ev["trial"], ev["decision"]
            reported.add(tid)
            cnt("results")
            if ev.get("late"):
                cnt("late-results")
            if ev["err"] is not None:
                cnt("raised:" + ev["err"])
                if ev["quantiles"] is not None:
                    saved[tid] = (ev["cost"], ev["metric"])  # the score is saved before `_get_trial_id_to_continue` raises
                continue
            if ev["cost"] >= max_t:
                cnt("results-at-max_t")
                if d != SchedulerDecision.STOP:
                    out.append({"signature": "c20:pbt-sched:not-stopped-at-max-t",
                                "what": f"trial {tid} reported cost {ev['cost']} >= max_t {max_t} and was answered {d}",
                                "detail": {"index": i, "event": _slim(ev)}})
            else:
                # below max_t: inside the perturbation interval (measured from the last result of this trial that reached
                # it, by the harness's own log) the answer is CONTINUE and nothing is recomputed; outside, the quantiles are
                inside = Fraction(ev["cost"]) - Fraction(saved.get(tid, (0, None))[0]) < interval
                if inside != (ev["quantiles"] is None) or (inside and d != SchedulerDecision.CONTINUE):
                    out.append({"signature": "c20:pbt-sched:perturbation-interval",
                                "what": f"trial {tid} at cost {ev['cost']} (last perturbation time {saved.get(tid, (0, None))[0]}, "
                                        f"interval {interval}): answered {d}, quantiles {'not ' if ev['quantiles'] is None else ''}computed",
                                "detail": {"index": i, "event": _slim(ev)}})
            if ev["quantiles"] is not None:
                saved[tid] = (ev["cost"], ev["metric"])
            if ev["n_choice_calls"]:
                cnt("picks")
            if ev["quantiles"] is not None:
                cnt("quantile-calls")
                q = ev["quantiles"]
                if q["n"] >= 2 and not q["lower"]:
                    cnt("quantile-lower-empty")
                if set(q["lower"]) & set(q["upper"]):
                    cnt("quantiles-overlap")
            if ev["pushed"]:
                src = ev["source"]
                cnt("pushes")
                why = None
                if src == tid:
                    why = f"the clone source {src} is the trial being stopped by this very answer"
                elif src in answered_stop:
                    why = (f"the clone source {src} was answered STOP before ({answered_stop[src]}); with checkpoint "
                           f"removal on, its checkpoint is gone")
                elif src in ev["before"]["stopped"]:
                    why = f"the clone source {src} is marked stopped in _trial_state"
                if why:
                    out.append({"signature": "c20:pbt-sched:source-stopped-at-push", "what": why,
                                "detail": {"index": i, "event": _slim(ev)}})
                if frac >= 0 and src in saved and tid in saved and not better(saved[src][1], saved[tid][1]):
                    out.append({"signature": "c20:pbt-sched:source-worse-than-stopped-trial",
                                "what": f"trial {tid} (metric {saved[tid][1]}) is stopped and replaced by a clone of trial {src} "
                                        f"whose last metric {saved[src][1]} is worse (mode {spec['ctor']['mode']})",
                                "detail": {"index": i, "event": _slim(ev)}})
                if src not in reported:
                    out.append({"signature": "c20:pbt-sched:source-without-result",
                                "what": f"the clone source {src} never reported a result: there is no checkpoint to start from",
                                "detail": {"index": i, "event": _slim(ev)}})
                pending.append((src, i))
            if d == SchedulerDecision.STOP:
                cnt("stops")
                why = "max_t" if ev["cost"] >= max_t else "lower-quantile"
                cnt("stops:" + why)
                answered_stop.setdefault(tid, why)
                if tid not in ev["after"]["stopped"]:
                    out.append({"signature": "c20:pbt-sched:stop-not-marked",
                                "what": f"trial {tid} was answered STOP and is not marked stopped in _trial_state",
                                "detail": {"index": i, "event": _slim(ev)}})
                if why == "lower-quantile" and not ev["pushed"]:
                    out.append({"signature": "c20:pbt-sched:stop-without-replacement",
                                "what": f"trial {tid} was stopped below max_t and no clone decision was queued",
                                "detail": {"index": i, "event": _slim(ev)}})
        elif ev["ev"] == "suggest":
            cnt("suggests")
            if ev["source"] is None:
                cnt("suggest:fresh")
                if pending:
                    out.append({"signature": "c20:pbt-sched:queued-decision-ignored",
                                "what": "suggest started a fresh configuration although a clone decision was waiting",
                                "detail": {"index": i}})
                continue
            cnt("pops")
            src = ev["source"]
            if not pending:
                out.append({"signature": "c20:pbt-sched:clone-without-decision",
                            "what": f"suggest asks to clone trial {src} and no decision was queued", "detail": {"index": i}})
                continue
            psrc, at = pending.pop()
            if psrc != src:
                out.append({"signature": "c20:pbt-sched:clone-source-differs-from-decision",
                            "what": f"suggest asks to clone trial {src}, the newest queued decision named {psrc}",
                            "detail": {"index": i}})
            waited = sum(1 for e in events[at + 1:i] if e["ev"] == "result")
            if waited:
                cnt("pops-after-other-results")
            if src in answered_stop:
                # the known gap (open finding c20:pbt-source-checkpoint-deleted): informational
                cnt("c20:pbt-sched:source-stopped-before-pop")
                cnt("c20:pbt-sched:source-stopped-before-pop:" + answered_stop[src])
        elif ev["ev"] in ("error", "complete", "remove", "add"):
            cnt("ev:" + ev["ev"])
            if ev["ev"] == "add":
                saved.pop(ev["trial"], None)
    if pending:
        cnt("entries-left-on-stack", len(pending))
    return out, hist


def _slim(ev):
    return {k: v for k, v in ev.items() if k not in ("before", "after")} | {
        "stack_before": ev["before"]["stack"], "stopped_before": ev["before"]["stopped"],
        "stack_after": ev["after"]["stack"], "stopped_after": ev["after"]["stopped"]}


def twin_view(events):
    """what must be equal between an experiment and its min/max twin"""
    v = []
    for ev in events:
        if ev["ev"] == "result":
            v.append(["result", ev["trial"], ev["decision"], ev["err"], ev["picked"], ev["choice_from"],
                      None if ev["quantiles"] is None else [ev["quantiles"]["lower"], ev["quantiles"]["upper"]],
                      ev["after"]["stopped"], ev["after"]["stack"]])
        elif ev["ev"] == "suggest":
            v.append(["suggest", ev["new_trial"], ev["source"]])
        else:
            v.append([ev["ev"], ev.get("trial")])
    return v


def monitor_c15(spec, events):
    """C15: maximising -f is the same experiment as minimising f (same seeds, same schedule)"""
    twin = dict(spec)
    twin["ctor"] = dict(spec["ctor"], mode="min" if spec["ctor"]["mode"] == "max" else "max")
    twin["negate"] = not spec.get("negate", False)
    t2 = run_scenario(twin)
    a, b = twin_view(events), twin_view(t2["events"])
    if a != b:
        k = next((i for i, (x, y) in enumerate(zip(a, b)) if x != y), min(len(a), len(b)))
        return [{"signature": "c15:pbt-sched:min-max-twin-differs",
                 "what": f"the twin experiment (mode flipped, metrics negated, same seeds) differs at event {k}",
                 "detail": {"index": k, "here": a[k] if k < len(a) else None, "twin": b[k] if k < len(b) else None}}]
    return []


# ---------------------------------------------------------------------------------
# generator, comparison


def gen_ctor(rng):
    cls = rng.choice(["dyadic"] * 6 + ["decimal"] * 5 + ["zero", "half", "half", "near-edge", "near-edge", "negative", "rejected"])
    frac = rng.choice(FRACTIONS[cls])
    max_t = rng.choice([2, 3, 4, 5, 6, 8, 9, 12])
    interval = rng.choice([1, 1, 1, 2, 2, 3, 0.5, 2.5, 0.01, max_t + 1])
    return {"mode": rng.choice(["min", "max"]), "max_t": max_t, "interval": frac_str(float(interval)),
            "frac": frac_str(float(frac)), "frac_class": cls, "population_size": rng.randint(2, 8),
            "random_seed": rng.randrange(10 ** 6), "resample_probability": rng.choice([0.0, 0.25, 1.0])}


def gen_case(rng, tier):
    ctor = gen_ctor(rng)
    return {
        "ctor": ctor,
        "seed": rng.randrange(10 ** 9),
        "n_workers": rng.choice([ctor["population_size"], ctor["population_size"], rng.randint(1, 8)]),
        "max_events": rng.choice([30, 60, 120]) if tier == "quick" else rng.choice([60, 150, 400]),
        "style": rng.choice(["general"] * 5 + ["improving"] * 2 + ["ties", "ties", "const", "two", "noisy", "neg", "tiny", "huge"]),
        "cost_style": rng.choice(["mostly-unit"] * 3 + ["unit", "unit", "two", "half", "irregular"]),
        "w_suggest": rng.choice([0.1, 0.3, 0.3, 1.0, 1.0, 3.0]),
        "p_fail": rng.choice([0, 0, 0.05]),
        "p_late": rng.choice([0, 0, 0.2]),
        "p_short": rng.choice([0, 0, 0.2]),
        "twin": rng.random() < 0.5,
    }


def compare(inp, impl, model):
    from framework import default_compare

    if impl is None:
        return None
    if "stream" in inp:
        if "err" in impl:
            if "err" in model and model["err"].replace("init: ", "") == impl["err"]:
                return None
            return f"constructor: impl raised {impl['err']}, model gave {str(model)[:200]}"
        if "err" in model:
            return f"constructor accepted by impl, model gave {model['err']}"
    return default_compare(inp, impl, model)


def run_impl(spec):
    t = run_scenario(spec)
    mon, hist = monitor_c20(spec, t["events"])
    if spec.get("twin") and t["sched"] is not None:
        mon += monitor_c15(spec, t["events"])
        hist["twins"] = 1
    c = spec["ctor"]
    hist["frac-class:" + c.get("frac_class", "?")] = 1
    hist["frac:" + c["frac"]] = 1
    hist["mode:" + c["mode"]] = 1
    hist["cases"] = 1
    if hist.get("c20:pbt-sched:source-stopped-before-pop"):
        hist["histories-with-source-stopped-before-pop"] = 1
    if hist.get("pushes") and hist.get("pops"):
        hist["histories-with-push-and-pop"] = 1
    return {"lines": t["lines"], "monitor": mon,
            "meta": {"hist": hist, "pushes": hist.get("pushes", 0), "pops": hist.get("pops", 0)}}


def nontrivial(trace):
    m = trace.get("meta", {})
    return m.get("pushes", 0) >= 1 and m.get("pops", 0) >= 1
