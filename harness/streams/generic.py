"""
Generic driver: any scheduler of /repo behind its public API (`suggest`, `on_trial_add`,
`on_trial_result`, `on_trial_remove`, `on_trial_complete`, `on_trial_error`) with a scripted
worker pool.  Used for paired runs (C15: min f vs max -f; C11: twins under perturbation).
The event script is generated on the fly from `random.Random(spec["seed"])`; it only depends
on the scheduler's answers, so two schedulers giving identical answers see identical scripts.
"""
import datetime
import logging
import random

import numpy as np

logging.disable(logging.CRITICAL)

from syne_tune.backend.trial_status import Trial
from syne_tune.config_space import uniform, randint, choice, loguniform, finrange
from syne_tune.optimizer.scheduler import SchedulerDecision

import signal
import threading

METRIC, METRIC2, RES, MAXATTR = "loss", "loss2", "epoch", "epochs"
CALL_TIMEOUT = 60.0


class Timeout(Exception):
    pass


def _raise_timeout(*a):
    raise Timeout()

EPOCH0 = datetime.datetime(2020, 1, 1)

SCHEDULERS = [
    "fifo-random", "fifo-grid", "fifo-rea",
    "hb-stopping", "hb-promotion", "hb-pasha", "hb-cost_promotion", "hb-rush_stopping", "hb-rush_promotion",
    "sync-hb", "dehb", "pbt", "median", "moasha",
]


def config_space(kind, max_t):
    if kind == "finite":
        cs = {"a": randint(0, 6), "b": choice(["x", "y", "z"]), "c": finrange(0.0, 1.0, 5)}
    elif kind == "finite2":   # the names of "finite", other domains
        cs = {"a": randint(0, 3), "b": choice(["x", "y"]), "c": finrange(0.0, 1.0, 3)}
    elif kind == "mixed":
        cs = {"a": uniform(0.0, 1.0), "b": choice(["x", "y", "z"]), "c": randint(1, 100), "d": loguniform(1e-4, 1.0)}
    else:
        cs = {"a": uniform(0.0, 1.0), "d": loguniform(1e-4, 1.0)}
    cs[MAXATTR] = max_t
    return cs


def restrict_list(cs, n, seed):
    """n configurations of the space, drawn with a generator of their own"""
    from syne_tune.optimizer.schedulers.searchers.random_grid_searcher import RandomSearcher
    s0 = RandomSearcher(dict(cs), metric=METRIC, points_to_evaluate=[], random_seed=seed, allow_duplicates=True)
    return [s0.get_config(trial_id=str(i)) for i in range(n)]


def make_scheduler(name, mode, seed, cs_kind="mixed", max_t=27, extra=None):
    """mode: 'min'|'max' (or list for moasha)"""
    extra = dict(extra or {})
    cs = config_space(cs_kind, max_t)
    if name in ("fifo-bayesopt", "hb-bayesopt", "hb-hypertune"):
        so = {"debug_log": False, "num_init_random": extra.get("num_init_random", 3), "opt_maxiter": 5,
              "opt_nstarts": extra.get("opt_nstarts", 1)}
        if name == "fifo-bayesopt":
            from syne_tune.optimizer.schedulers.fifo import FIFOScheduler
            return FIFOScheduler(cs, searcher="bayesopt", metric=METRIC, mode=mode, random_seed=seed, search_options=so)
        from syne_tune.optimizer.schedulers.hyperband import HyperbandScheduler
        return HyperbandScheduler(cs, searcher=name.split("-")[1], metric=METRIC, mode=mode, resource_attr=RES,
                                  max_resource_attr=MAXATTR, type="promotion", grace_period=1, reduction_factor=3,
                                  brackets=2 if name == "hb-hypertune" else 1, random_seed=seed, search_options=so)
    if name.startswith("fifo-"):
        from syne_tune.optimizer.schedulers.fifo import FIFOScheduler
        s = name.split("-", 1)[1]
        if s == "rea":
            from syne_tune.optimizer.schedulers.searchers.regularized_evolution import RegularizedEvolution
            # the searcher object learns its mode from the scheduler (configure_scheduler) unless it is told itself
            skw = {} if extra.get("searcher_without_mode") else {"mode": mode}
            searcher = RegularizedEvolution(cs, metric=METRIC, random_seed=seed,
                                            population_size=extra.get("population_size", 6),
                                            sample_size=extra.get("sample_size", 3), points_to_evaluate=[], **skw)
            return FIFOScheduler(cs, searcher=searcher, metric=METRIC, mode=mode, random_seed=seed)
        so = {"debug_log": False}
        kw = {}
        if s == "random-rc":
            # random search restricted to a list of configurations; `extra["restrict"]` is the caller's list object
            # (twins "created with the same arguments" receive the very same list); a fresh process builds the list itself
            s = "random"
            rc = extra["restrict"] if "restrict" in extra else restrict_list(cs, extra["restrict_n"], extra["restrict_seed"])
            so["restrict_configurations"] = rc
            if extra.get("p2e_from_restrict"):
                # some of the allowed configurations are initial configurations as well
                kw["points_to_evaluate"] = [dict(c) for c in rc[1:1 + extra["p2e_from_restrict"]]]
        if "p2e" in extra:
            kw["points_to_evaluate"] = extra["p2e"]   # the caller's list object
        if extra.get("searcher_object"):
            # a searcher object built without a seed of its own: the scheduler's seed is the only one given
            from syne_tune.optimizer.schedulers.searchers.random_grid_searcher import RandomSearcher
            s = RandomSearcher(cs, metric=METRIC, points_to_evaluate=[])
            so = None
        return FIFOScheduler(cs, searcher=s, metric=METRIC, mode=mode, random_seed=seed, search_options=so, **kw)
    if name == "hb-dyhpo":
        from syne_tune.optimizer.schedulers.hyperband import HyperbandScheduler
        return HyperbandScheduler(cs, searcher="dyhpo", type="dyhpo", metric=METRIC, mode=mode, resource_attr=RES,
                                  max_resource_attr=MAXATTR, grace_period=1, rung_increment=extra.get("rung_increment", 2),
                                  random_seed=seed, search_options=dict({"debug_log": False, "num_init_random": extra.get("num_init_random", 10 ** 6)},
                                                                        **(extra.get("search_options") or {})),
                                  rung_system_kwargs={"probability_sh": extra.get("probability_sh", 0.5)})
    if name.startswith("hb-"):
        from syne_tune.optimizer.schedulers.hyperband import HyperbandScheduler
        typ = name.split("-", 1)[1]
        kw = dict(searcher="random", metric=METRIC, mode=mode, resource_attr=RES, max_resource_attr=MAXATTR,
                  type=typ, grace_period=extra.get("grace_period", 1), reduction_factor=extra.get("reduction_factor", 3),
                  brackets=extra.get("brackets", 1), random_seed=seed, search_options={"debug_log": False})
        if typ == "cost_promotion":
            kw["cost_attr"] = "cost"
        if "p2e" in extra:
            kw["points_to_evaluate"] = extra["p2e"]   # the caller's list object
        if extra.get("searcher_object"):
            from syne_tune.optimizer.schedulers.searchers.random_grid_searcher import RandomSearcher
            kw["searcher"] = RandomSearcher(cs, metric=METRIC, points_to_evaluate=[])
            kw.pop("search_options")
        if typ.startswith("rush") and not extra.get("default_rung_system_kwargs"):
            # (`default_rung_system_kwargs`: the argument is left to its default, a module-level dict of the library)
            kw["rung_system_kwargs"] = {"num_threshold_candidates": extra.get("num_threshold_candidates", 2)}
        return HyperbandScheduler(cs, **kw)
    if name == "sync-hb":
        from syne_tune.optimizer.schedulers.synchronous import SynchronousGeometricHyperbandScheduler
        return SynchronousGeometricHyperbandScheduler(cs, searcher="random", metric=METRIC, mode=mode, resource_attr=RES,
                                                      max_resource_attr=MAXATTR, grace_period=1,
                                                      reduction_factor=extra.get("reduction_factor", 3),
                                                      brackets=extra.get("brackets"), random_seed=seed,
                                                      search_options={"debug_log": False})
    if name == "dehb":
        from syne_tune.optimizer.schedulers.synchronous import GeometricDifferentialEvolutionHyperbandScheduler
        cs2 = {k: v for k, v in cs.items() if k != "b"} if False else cs
        kw_s = {"searcher": extra["searcher"]} if extra.get("searcher") else {}   # (default: DEHB's own sampler)
        return GeometricDifferentialEvolutionHyperbandScheduler(cs2, metric=METRIC, mode=mode, resource_attr=RES,
                                                                 max_resource_attr=MAXATTR, grace_period=1,
                                                                 reduction_factor=extra.get("reduction_factor", 3),
                                                                 brackets=extra.get("brackets"), random_seed=seed,
                                                                 search_options={"debug_log": False}, **kw_s)
    if name == "pbt":
        from syne_tune.optimizer.schedulers.pbt import PopulationBasedTraining
        return PopulationBasedTraining(cs, metric=METRIC, mode=mode, resource_attr=RES, max_t=max_t,
                                       population_size=extra.get("population_size", 3),
                                       perturbation_interval=extra.get("perturbation_interval", 2),
                                       quantile_fraction=extra.get("quantile_fraction", 0.34), random_seed=seed,
                                       search_options={"debug_log": False})
    if name == "median":
        from syne_tune.optimizer.schedulers.fifo import FIFOScheduler
        from syne_tune.optimizer.schedulers.median_stopping_rule import MedianStoppingRule
        base = FIFOScheduler(cs, searcher="random", metric=METRIC, mode=mode, random_seed=seed,
                             search_options={"debug_log": False})
        return MedianStoppingRule(base, resource_attr=RES, grace_time=extra.get("grace_time", 1),
                                  grace_population=extra.get("grace_population", 2),
                                  running_average=extra.get("running_average", True))
    if name == "moasha":
        # MOASHA takes no seed: it samples configurations and brackets from the GLOBAL generators
        np.random.seed(seed)
        random.seed(seed)
        from syne_tune.optimizer.schedulers.multiobjective.moasha import MOASHA
        return MOASHA(cs, metrics=[METRIC, METRIC2], mode=mode, time_attr=RES, max_t=max_t, grace_period=1,
                      reduction_factor=extra.get("reduction_factor", 3), brackets=1)
    raise ValueError(name)


def base_metric(seed, tid, r, style="general", which=0):
    rr = random.Random(seed * 7919 + tid * 104729 + r * 31 + which)
    if style == "ties":
        return rr.randrange(0, 4) / 4.0
    lat = random.Random(seed * 31 + tid * 7 + which).randrange(0, 64)
    if style == "hurdle" and tid < 3:
        lat //= 8   # the first trials are good ones: hurdles set by them (RUSH) are hard to take
    v = (lat * 16 + rr.randrange(0, 256)) / 1024.0
    if style in ("distinct", "hurdle"):
        # general position: all values of a run pairwise distinct (unique low-order bits), negation exact
        v += ((tid * 128 + r) * 2 + which + 1) * 2.0 ** -36
    return v


def canon_config(cfg):
    if cfg is None:
        return None
    out = {}
    for k, v in sorted(cfg.items()):
        if isinstance(v, (np.floating, float)):
            out[k] = [type(v).__name__, float(v).hex()]
        elif isinstance(v, (np.integer, int)) and not isinstance(v, bool):
            out[k] = [type(v).__name__, int(v)]
        else:
            out[k] = [type(v).__name__, str(v)]
    return out


def drive(sch, spec, sign=(1.0, 1.0), between=None):
    """runs the scripted scenario; returns the list of observable events.
    `between()` is called between any two scheduler calls (perturbation hook for C11)."""
    rng = random.Random(spec["seed"])
    max_t = spec.get("max_t", 27)
    style = spec.get("style", "general")
    trials, workers, last_r = {}, {}, {}
    next_id = 0
    ev = []
    hook = between or (lambda: None)
    pause_resume = spec.get("name", "") not in ("moasha",)
    stride = int(spec.get("stride", 1))

    def result_dict(tid, r):
        d = {METRIC: sign[0] * base_metric(spec["seed"], tid, r, style, 0), RES: r}
        if spec.get("name") == "moasha":
            d[METRIC2] = sign[1] * base_metric(spec["seed"], tid, r, style, 1)
        if spec.get("name") == "hb-cost_promotion":
            d["cost"] = (1 + tid % 4) * r / 8.0
        return d

    def guarded(what, f, *a):
        """a scheduler call; an exception ends the scenario and is part of the observable trace"""
        # watchdog: a scheduler call that does not return within CALL_TIMEOUT seconds is recorded as
        # a "Timeout" exception (pool workers and twin processes run this in their main thread)
        use_alarm = threading.current_thread() is threading.main_thread()
        if use_alarm:
            old = signal.signal(signal.SIGALRM, _raise_timeout)
            signal.setitimer(signal.ITIMER_REAL, CALL_TIMEOUT)
        try:
            return True, f(*a)
        except Exception as e:  # noqa
            ev.append(["exception", what, type(e).__name__])
            return False, None
        finally:
            if use_alarm:
                signal.setitimer(signal.ITIMER_REAL, 0)
                signal.signal(signal.SIGALRM, old)

    for _ in range(spec["max_events"]):
        if ev and ev[-1][0] == "exception":
            break
        acts = []
        if len(workers) < spec["n_workers"] and next_id < spec.get("max_trials", 10 ** 9):
            acts += ["suggest"] * 2
        if workers:
            acts += ["report"] * 5
            if rng.random() < spec.get("p_fail", 0):
                acts = ["fail"]
        if not acts:
            break
        a = rng.choice(acts)
        hook()
        if a == "suggest":
            ok, sg = guarded("suggest", sch.suggest, next_id)
            if not ok:
                break
            if sg is None:
                ev.append(["suggest", "none"])
                if not workers:
                    break
                continue
            if sg.spawn_new_trial_id:
                tid = next_id
                next_id += 1
                trials[tid] = Trial(trial_id=tid, config=sg.config, creation_time=EPOCH0)
                start = stride   # (`stride` > 1: the script reports every stride-th level only, never at level 1)
                if sg.checkpoint_trial_id is not None:   # PBT: warm start from another trial's checkpoint
                    start = last_r.get(sg.checkpoint_trial_id, 0) + 1
                upto = int(sg.config.get(MAXATTR, max_t)) if isinstance(sg.config.get(MAXATTR, max_t), (int, np.integer)) else max_t
                workers[tid] = [start, min(upto, max_t)]
                ev.append(["suggest", "start", tid, sg.checkpoint_trial_id, canon_config(sg.config)])
                hook()
                sch.on_trial_add(trials[tid])
            else:
                tid = int(sg.checkpoint_trial_id)
                if sg.config is not None:
                    trials[tid] = Trial(trial_id=tid, config=sg.config, creation_time=EPOCH0)
                cfg = trials[tid].config
                upto = int(cfg.get(MAXATTR, max_t))
                workers[tid] = [last_r.get(tid, 0) + 1, min(upto, max_t)]
                ev.append(["suggest", "resume", tid, canon_config(sg.config)])
        elif a == "report":
            tid = rng.choice(sorted(workers))
            r, upto = workers[tid]
            if r > max_t:
                del workers[tid]
                continue
            res = result_dict(tid, r)
            ok, d = guarded("on_trial_result", sch.on_trial_result, trials[tid], dict(res))
            if not ok:
                break
            last_r[tid] = r
            ev.append(["result", tid, r, d])
            workers[tid][0] = r + stride
            if d != SchedulerDecision.CONTINUE:
                del workers[tid]
                hook()
                sch.on_trial_remove(trials[tid])
            elif r >= upto or (spec.get("p_early") and rng.random() < spec["p_early"]):
                # the training script ends (at its last level, or - `p_early` - by itself before): the Tuner passes the
                # last result once more with on_trial_complete
                hook()
                sch.on_trial_complete(trials[tid], dict(res))
                ev.append(["complete", tid, r])
                del workers[tid]
        elif a == "fail":
            tid = rng.choice(sorted(workers))
            del workers[tid]
            ok, _ = guarded("on_trial_error", sch.on_trial_error, trials[tid])
            if not ok:
                break
            ev.append(["error", tid])
    return ev
