"""
Stream `loop` (environment style, DESIGN §1.4): the REAL `Tuner.run()` of /repo is executed
against

  (a) `ScriptBackend`  - harness subclass of `TrialBackend` (only the abstract methods are
      implemented, so the real `fetch_status_results / start_trial / resume_trial / pause_trial /
      stop_trial / stop_all` run); the worker script of every trial is a PRNG,
  (b) the real simulator `UserBlackboxBackend` on a small random table,

with a real scheduler of /repo (or the K-abiding PRNG scheduler `ScriptScheduler`).  A harness
`TunerCallback` (`Recorder`) plus per-instance wrappers of the public methods of the scheduler
and of the backend record the complete dialogue as a strictly alternating sequence

    call_0, answer_0, call_1, answer_1, ...            (calls are made by the loop,
                                                         answers come from the environment)

The Lean model (`Model/Tuner.lean`, driver `Drivers/Loop.lean`) is a machine
`step : State -> Answer -> State x Call`; it is fed the answers and must reproduce the calls
exactly and in order, and at the end the counters, statistics, best trials and log rows.

Monitors (`monitor_c01`, `monitor_c12`, `monitor_c13_loop`, `monitor_c17`, `monitor_c20_loop`,
`monitor_k`) are direct readings of the property statements on the recorded dialogue.
"""
import contextlib
import io
import logging
import math
import numbers
import os
import random
import shutil
import sys
import tempfile
from datetime import datetime
from fractions import Fraction
from pathlib import Path

logging.disable(logging.CRITICAL)
sys.modules.setdefault("yahpo_gym", None)  # broken binary dependency in this sandbox; import guarded in /repo

import numpy as np

from syne_tune import Tuner, StoppingCriterion
from syne_tune.backend.trial_backend import TrialBackend
from syne_tune.backend.trial_status import Status, Trial, TrialResult
from syne_tune.constants import (
    ST_WORKER_TIME, ST_WORKER_COST, ST_TUNER_TIME, ST_WORKER_TIMESTAMP, ST_DECISION, ST_STATUS, ST_TRIAL_ID,
)
from syne_tune.config_space import randint, uniform, choice
from syne_tune.optimizer.scheduler import TrialScheduler, TrialSuggestion, SchedulerDecision
from syne_tune.results_callback import StoreResultsCallback
from syne_tune.tuner_callback import TunerCallback
import syne_tune.tuning_status as tuning_status_module

from framework import frac_str

EPOCH0 = datetime(2020, 1, 1)
METRIC, METRIC2, RES, MAXATTR, AUX = "loss", "acc", "epoch", "epochs", "aux"
FIXED_KEYS = [ST_WORKER_TIME, ST_WORKER_COST, ST_TUNER_TIME]


class InjectedError(Exception):
    """raised by the recorder instead of performing the chosen call"""


# ---------------------------------------------------------------------------------
# recorder


class Dialogue:
    """alternating call/answer sequence; nested calls are linearised in entry order"""

    def __init__(self, inject_at=None):
        self.entries = []  # each: {"call": [...], "ans": {...}}
        self.inject_at = inject_at
        self.keys = {k: i for i, k in enumerate(FIXED_KEYS)}
        self.cfgs = []  # token -> config dict
        self.results = []  # rid -> (tid, dict)
        self.rid_of = {}  # id(result dict) -> rid
        self._attributed = set()  # ids of exceptions already attributed to a (nested) call
        self.active = True

    # -- tokens
    def key(self, name):
        if name not in self.keys:
            self.keys[name] = len(self.keys)
        return self.keys[name]

    def cfg_token(self, config):
        for i, c in enumerate(self.cfgs):
            if same_config(c, config):
                return i
        self.cfgs.append(dict(config))
        return len(self.cfgs) - 1

    def result_token(self, tid, result):
        rid = self.rid_of.get(id(result))
        if rid is None or self.results[rid][1] is not result:
            rid = len(self.results)
            self.results.append((tid, result))
            self.rid_of[id(result)] = rid
        return rid

    def wire_result(self, result):
        out = []
        for k, v in result.items():
            out.append([self.key(k), wire_val(v)])
        return out

    # -- recording
    def call(self, call, fn, answer_of=None):
        """record `call`, perform fn(), record its answer. Returns fn()'s value."""
        if not self.active:
            return fn()
        e = {"call": call, "ans": None}
        idx = len(self.entries)
        self.entries.append(e)
        if self.inject_at is not None and idx == self.inject_at:
            ex = InjectedError(f"injected at call {idx}")
            self._attributed.add(id(ex))
            e["ans"] = {"raise": "InjectedError"}
            raise ex
        try:
            v = fn()
        except BaseException as ex:  # noqa
            if id(ex) in self._attributed:
                e["ans"] = {"ret": True}  # raised by a nested recorded call; this call's own part returned
            else:
                self._attributed.add(id(ex))
                e["ans"] = {"raise": type(ex).__name__}
            raise
        e["ans"] = answer_of(v) if answer_of else {"ret": True}
        return v


def same_config(a, b):
    if a.keys() != b.keys():
        return False
    for k in a:
        x, y = a[k], b[k]
        if isinstance(x, float) and isinstance(y, float) and math.isnan(x) and math.isnan(y):
            continue
        if type(x) != type(y) or x != y:
            return False
    return True


def wire_val(v):
    if isinstance(v, numbers.Number) and not isinstance(v, complex):
        return frac_str(v)
    return {"s": str(v)[:40]}


class Recorder(TunerCallback):
    """first callback of the list; records the loop's callback events and status snapshots"""

    def __init__(self, dlg):
        self.dlg = dlg
        self.tuner = None
        self.snapshots = []  # (label, {tid: status}) after every loop iteration
        self.crit_trace = []

    def _ev(self, *call):
        self.dlg.call(["cb"] + list(call), lambda: None)

    def on_tuning_start(self, tuner):
        self.tuner = tuner
        self._ev("tuning_start")

    def on_tuning_end(self):
        self._ev("tuning_end")

    def on_loop_start(self):
        self._ev("loop_start")

    def on_loop_end(self):
        ts = self.tuner.tuning_status
        self.snapshots.append(dict(ts.last_trial_status_seen))
        self._ev("loop_end")

    def on_fetch_status_results(self, trial_status_dict, new_results):
        self._ev("fetch")

    def on_trial_complete(self, trial, result):
        self._ev("complete", int(trial.trial_id), self.dlg.result_token(trial.trial_id, result))

    def on_trial_result(self, trial, status, result, decision):
        self._ev("result", int(trial.trial_id), self.dlg.result_token(trial.trial_id, result), decision, status)

    def on_tuning_sleep(self, sleep_time):
        self._ev("sleep")

    def on_start_trial(self, trial):
        self._ev("start", int(trial.trial_id))

    def on_resume_trial(self, trial):
        self._ev("resume", int(trial.trial_id))


def wrap_scheduler(sch, dlg):
    o_suggest, o_add, o_result = sch.suggest, sch.on_trial_add, sch.on_trial_result
    o_remove, o_complete, o_error = sch.on_trial_remove, sch.on_trial_complete, sch.on_trial_error

    def ans_suggest(s):
        if s is None:
            return {"kind": "none"}
        if s.spawn_new_trial_id:
            return {"kind": "start", "cfg": dlg.cfg_token(s.config),
                    "ckpt": None if s.checkpoint_trial_id is None else int(s.checkpoint_trial_id)}
        return {"kind": "resume", "id": int(s.checkpoint_trial_id),
                "cfg": None if s.config is None else dlg.cfg_token(s.config)}

    sch.suggest = lambda trial_id: dlg.call(["sched", "suggest", int(trial_id)], lambda: o_suggest(trial_id), ans_suggest)
    sch.on_trial_add = lambda trial: dlg.call(["sched", "add", int(trial.trial_id)], lambda: o_add(trial))
    sch.on_trial_result = lambda trial, result: dlg.call(
        ["sched", "result", int(trial.trial_id), dlg.result_token(trial.trial_id, result)],
        lambda: o_result(trial, result), lambda d: {"d": d})
    sch.on_trial_remove = lambda trial: dlg.call(["sched", "remove", int(trial.trial_id)], lambda: o_remove(trial))
    sch.on_trial_complete = lambda trial, result: dlg.call(
        ["sched", "complete", int(trial.trial_id), dlg.result_token(trial.trial_id, result)], lambda: o_complete(trial, result))
    sch.on_trial_error = lambda trial: dlg.call(["sched", "error", int(trial.trial_id)], lambda: o_error(trial))
    if hasattr(sch, "trials_checkpoints_can_be_removed"):
        o_rem = sch.trials_checkpoints_can_be_removed
        sch.trials_checkpoints_can_be_removed = lambda: dlg.call(
            ["sched", "removable"], o_rem, lambda ids: {"ids": [int(i) for i in ids]})


def wrap_backend(be, dlg):
    o_start, o_resume, o_pause, o_stop = be.start_trial, be.resume_trial, be.pause_trial, be.stop_trial
    o_fetch, o_busy, o_del, o_copy = be.fetch_status_results, be.busy_trial_ids, be.delete_checkpoint, be.copy_checkpoint
    o_all, o_stop_all, o_out, o_err = be._all_trial_results, be.stop_all, be.stdout, be.stderr
    state = {"in_stop_all": False}

    def ans_fetch(v):
        sd, res = v
        return {"status": [[int(t), s] for t, (_, s) in sd.items()],
                "results": [[int(t), dlg.result_token(t, r), dlg.wire_result(r)] for t, r in res]}

    def start(config, checkpoint_trial_id=None):
        return dlg.call(["be", "start", int(be.new_trial_id()), dlg.cfg_token(config),
                         None if checkpoint_trial_id is None else int(checkpoint_trial_id)],
                        lambda: o_start(config=config, checkpoint_trial_id=checkpoint_trial_id))

    def resume(trial_id, new_config=None):
        return dlg.call(["be", "resume", int(trial_id), None if new_config is None else dlg.cfg_token(new_config)],
                        lambda: o_resume(trial_id=trial_id, new_config=new_config))

    def all_results(trial_ids):
        if state["in_stop_all"]:
            return dlg.call(["be", "all_results"], lambda: o_all(trial_ids),
                            lambda v: {"status": [[int(t.trial_id), t.status] for t in v]})
        return o_all(trial_ids)

    def stop_all():
        state["in_stop_all"] = True
        try:
            return o_stop_all()
        finally:
            state["in_stop_all"] = False

    be.start_trial = start
    be.resume_trial = resume
    be.pause_trial = lambda trial_id, result=None: dlg.call(["be", "pause", int(trial_id)], lambda: o_pause(trial_id=trial_id, result=result))
    be.stop_trial = lambda trial_id, result=None: dlg.call(["be", "stop", int(trial_id)], lambda: o_stop(trial_id=trial_id, result=result))
    be.fetch_status_results = lambda trial_ids: dlg.call(["be", "fetch", sorted(int(t) for t in trial_ids)], lambda: o_fetch(trial_ids), ans_fetch)
    be.busy_trial_ids = lambda: dlg.call(["be", "busy"], o_busy, lambda v: {"ids": [int(t) for t, _ in v]})
    be.delete_checkpoint = lambda trial_id: dlg.call(["be", "delete", int(trial_id)], lambda: o_del(trial_id))
    be.copy_checkpoint = lambda src_trial_id, tgt_trial_id: dlg.call(
        ["be", "copy", int(src_trial_id), int(tgt_trial_id)], lambda: o_copy(src_trial_id=src_trial_id, tgt_trial_id=tgt_trial_id))
    be._all_trial_results = all_results
    be.stop_all = stop_all
    be.stdout = lambda trial_id: dlg.call(["be", "stdout", int(trial_id)], lambda: o_out(trial_id))
    be.stderr = lambda trial_id: dlg.call(["be", "stderr", int(trial_id)], lambda: o_err(trial_id))


class ClockStub:
    """replaces module `time` inside syne_tune.tuning_status: a scripted wall clock whose
    readings by the stopping criterion are environment answers of the dialogue"""

    def __init__(self, dlg, rng, step):
        self.dlg, self.rng, self.step = dlg, rng, step
        self.now = 0.0
        self.first = True

    def perf_counter(self):
        if self.first:  # TuningStatus.__init__ : start_time
            self.first = False
            return 0.0
        self.now += self.step * self.rng.randint(0, 3)
        return self.dlg.call(["clock"], lambda: self.now, lambda v: {"t": frac_str(v)})


# ---------------------------------------------------------------------------------
# scripted backend


class Run:
    def __init__(self, first, last, fate, fail_at):
        self.next_r, self.last, self.fate, self.fail_at = first, last, fate, fail_at


class ScriptBackend(TrialBackend):
    """in-memory backend; the training script of a trial is a PRNG (per poll 0..k new results per
    running trial; completion / failure / external stop becomes visible together with the last
    result or one poll later).  Only the abstract methods of TrialBackend are implemented."""

    def __init__(self, seed, params, max_t, delete_checkpoints=False):
        super().__init__(delete_checkpoints=delete_checkpoints)
        self.rng = random.Random(seed)
        self.p = params
        self.max_t = max_t
        self.truth = {}  # tid -> {"status", "metrics", "config", "run": Run, "paused_at": int, "stopping": int}
        self.ckpt = set()  # trials that currently have a checkpoint
        self.emitted = 0
        self.copy_missing = []  # (src, tgt) copies from a deleted / absent checkpoint
        self.resume_missing = []
        self.metric_names = params.get("metric_names", [METRIC])
        self.deleted = []

    # -- abstract methods
    def entrypoint_path(self):
        return Path("script_backend.py")

    def set_entrypoint(self, entry_point):
        pass

    def stdout(self, trial_id):
        return ["out\n"]

    def stderr(self, trial_id):
        return ["err\n"]

    def copy_checkpoint(self, src_trial_id, tgt_trial_id):
        if src_trial_id not in self.ckpt:
            self.copy_missing.append((src_trial_id, tgt_trial_id))
            if self.p.get("strict_ckpt", True):
                raise FileNotFoundError(f"no checkpoint of trial {src_trial_id}")
        else:
            self.ckpt.add(tgt_trial_id)

    def delete_checkpoint(self, trial_id):
        self.deleted.append(trial_id)
        self.ckpt.discard(trial_id)

    def _new_run(self, trial_id, config, first):
        last = self.max_t
        if isinstance(config, dict) and MAXATTR in config and self.p.get("obey_max_resource", True):
            last = int(config[MAXATTR])
        if self.p.get("short_runs"):
            last = min(last, first + self.rng.randint(0, self.p["short_runs"]))
        u = self.rng.random()
        fate, fail_at = Status.completed, None
        if u < self.p.get("p_fail", 0.0):
            fate = Status.failed
        elif u < self.p.get("p_fail", 0.0) + self.p.get("p_extstop", 0.0):
            fate = Status.stopped
        if fate != Status.completed:
            fail_at = self.rng.randint(first - 1, max(first - 1, last - 1))  # last resource reported before the end
        return Run(first, last, fate, fail_at)

    def _schedule(self, trial_id, config):
        t = self.truth.get(trial_id)
        if t is None:
            t = {"metrics": [], "paused_at": 0}
            self.truth[trial_id] = t
        t["status"] = Status.in_progress
        t["config"] = config
        first = t["paused_at"] + 1 if (trial_id in self.ckpt or not self.p.get("restart_without_ckpt", True)) else 1
        if t["paused_at"] > 0 and trial_id not in self.ckpt:
            self.resume_missing.append(trial_id)
        t["run"] = self._new_run(trial_id, config, first)
        self.ckpt.add(trial_id)  # the script writes a checkpoint as soon as it runs

    def _resume_trial(self, trial_id):
        pass

    def _pause_trial(self, trial_id, result):
        t = self.truth[trial_id]
        t["status"] = Status.paused
        if result is not None and RES in result:
            t["paused_at"] = int(result[RES])
        else:
            t["paused_at"] = t["run"].next_r - 1

    def _stop_trial(self, trial_id, result):
        t = self.truth[trial_id]
        d = self.p.get("stop_delay", 0)
        if d and t["status"] == Status.in_progress:
            t["status"] = Status.stopping
            t["stopping"] = d
        elif t["status"] in (Status.in_progress, Status.stopping, Status.paused):
            t["status"] = Status.stopped

    def _value(self, tid, r, k):
        rr = random.Random(self.p.get("vseed", 0) * 7919 + tid * 104729 + r * 31 + k)
        lat = random.Random(self.p.get("vseed", 0) * 31 + tid).randrange(0, 64)
        return (lat * 4 + rr.randrange(-32, 33)) / 64.0

    def _emit(self, tid, t):
        run = t["run"]
        r = run.next_r
        run.next_r += 1
        self.emitted += 1
        res = {}
        for k, name in enumerate(self.metric_names):
            res[name] = self._value(tid, r, k)
        res[RES] = r
        res[ST_WORKER_TIMESTAMP] = self.emitted
        res[ST_WORKER_TIME] = r * (1 + tid % 3) / 4.0
        style = self.p.get("style", "plain")
        if style in ("cost", "rich"):
            res[ST_WORKER_COST] = r * (1 + tid % 2) / 8.0
        if style == "rich":
            u = self.rng.random()
            if u < 0.15:
                res[AUX] = float("nan")
            elif u < 0.3:
                res[AUX] = "text%d" % self.rng.randint(0, 3)
            elif u < 0.35:
                res[AUX] = float("inf") if self.rng.random() < 0.5 else float("-inf")
            elif u < 0.9:
                res[AUX] = self.rng.randrange(-64, 65) / 16.0 if self.rng.random() < 0.7 else self.rng.randrange(-3, 4)
            if self.p.get("nan_metric") and self.rng.random() < 0.2:
                res[self.metric_names[0]] = float("nan")
        t["metrics"].append(res)

    def _advance(self, tid):
        """the worker of trial tid makes progress (called when the trial is looked at)"""
        t = self.truth[tid]
        if t["status"] == Status.stopping:
            t["stopping"] -= 1
            if t["stopping"] <= 0:
                t["status"] = Status.stopped
            return
        if t["status"] != Status.in_progress:
            return
        run = t["run"]
        end_r = run.last if run.fail_at is None else run.fail_at
        n = self.rng.randint(0, self.p.get("max_batch", 2))
        for _ in range(n):
            if run.next_r > end_r:
                break
            self._emit(tid, t)
        if run.next_r > end_r and self.rng.random() < self.p.get("p_end_same_poll", 0.5):
            t["status"] = run.fate

    def _all_trial_results(self, trial_ids):
        out = []
        for tid in trial_ids:
            self._advance(tid)
            t = self.truth[tid]
            out.append(TrialResult(trial_id=tid, config=t["config"], creation_time=EPOCH0,
                                   metrics=list(t["metrics"]), status=t["status"]))
        return out

    def busy_trial_ids(self):
        # the backend's truth may be ahead of what the loop has polled: a worker may finish here
        p = self.p.get("p_finish_at_busy", 0.0)
        for tid, t in self.truth.items():
            if t["status"] == Status.in_progress and p and self.rng.random() < p:
                run = t["run"]
                end_r = run.last if run.fail_at is None else run.fail_at
                while run.next_r <= end_r:
                    self._emit(tid, t)
                t["status"] = run.fate
            elif t["status"] == Status.stopping:
                self._advance(tid)
        return [(tid, t["status"]) for tid, t in self.truth.items() if t["status"] in (Status.in_progress, Status.stopping)]


# ---------------------------------------------------------------------------------
# schedulers


class ScriptScheduler(TrialScheduler):
    """PRNG scheduler obeying contract K: random decisions, random start / start-from-checkpoint /
    resume-of-a-paused-trial / none suggestions."""

    def __init__(self, seed, params, metric_names, modes):
        super().__init__({"x": uniform(0, 1), "k": randint(0, 3)})
        self.rng = random.Random(seed)
        self.p = params
        self._metric_names, self._modes = metric_names, modes
        self.paused, self.dead, self.alive = [], set(), set()
        self.removable_pending = []
        self.n = 0

    def metric_names(self):
        return self._metric_names

    def metric_mode(self):
        return self._modes

    def _suggest(self, trial_id):
        self.n += 1
        if self.p.get("max_suggest") is not None and self.n > self.p["max_suggest"]:
            return None
        u = self.rng.random()
        if self.paused and u < self.p.get("p_resume", 0.3):
            t = self.paused.pop(self.rng.randrange(len(self.paused)))
            self.alive.add(t)
            cfg = None
            if self.rng.random() < 0.4:
                cfg = {"x": self.rng.randrange(0, 64) / 64.0, "k": self.rng.randint(0, 3)}
            return TrialSuggestion.resume_suggestion(trial_id=t, config=cfg)
        cfg = {"x": self.rng.randrange(0, 64) / 64.0, "k": self.rng.randint(0, 3)}
        ck = None
        known = sorted(self.alive | set(self.paused))
        if known and u > 1 - self.p.get("p_ckpt", 0.15):
            ck = self.rng.choice(known)
        return TrialSuggestion.start_suggestion(cfg, checkpoint_trial_id=ck)

    def on_trial_add(self, trial):
        self.alive.add(trial.trial_id)

    def on_trial_result(self, trial, result):
        u = self.rng.random()
        if u < self.p.get("p_stop", 0.15):
            return SchedulerDecision.STOP
        if u < self.p.get("p_stop", 0.15) + self.p.get("p_pause", 0.15):
            return SchedulerDecision.PAUSE
        return SchedulerDecision.CONTINUE

    def on_trial_remove(self, trial):
        # the loop calls this after its own STOP / PAUSE; the decision is remembered via last_decision
        pass

    def on_trial_complete(self, trial, result):
        self._kill(trial.trial_id)

    def on_trial_error(self, trial):
        self._kill(trial.trial_id)

    def _kill(self, t):
        self.alive.discard(t)
        self.dead.add(t)
        if t in self.paused:
            self.paused.remove(t)

    def note_decision(self, tid, d):
        """called by the wrapper below so that the scheduler knows its own last decision"""
        if d == SchedulerDecision.STOP:
            self._kill(tid)
        elif d == SchedulerDecision.PAUSE:
            self.alive.discard(tid)
            if tid not in self.dead and tid not in self.paused:
                self.paused.append(tid)

    def trials_checkpoints_can_be_removed(self):
        out = []
        if self.paused and self.rng.random() < self.p.get("p_removable", 0.0):
            t = self.paused.pop(self.rng.randrange(len(self.paused)))
            self.dead.add(t)
            out.append(t)
        return out


def make_script_scheduler(seed, params, metric_names, modes, with_ckpt_mixin):
    if with_ckpt_mixin:
        from syne_tune.callbacks.remove_checkpoints_callback import DefaultRemoveCheckpointsSchedulerMixin

        class ScriptSchedulerCk(DefaultRemoveCheckpointsSchedulerMixin, ScriptScheduler):
            trials_checkpoints_can_be_removed = ScriptScheduler.trials_checkpoints_can_be_removed

        s = ScriptSchedulerCk(seed, params, metric_names, modes)
    else:
        s = ScriptScheduler(seed, params, metric_names, modes)
    orig = s.on_trial_result

    def on_trial_result(trial, result):
        d = orig(trial, result)
        s.note_decision(trial.trial_id, d)
        return d

    s.on_trial_result = on_trial_result
    return s


def make_scheduler(sp, seed, max_t, sim):
    """sp: scheduler part of the spec. Returns (scheduler, uses_max_resource_attr)"""
    kind = sp["kind"]
    mode = sp.get("mode", "min")
    if sim:
        cs = {"a": randint(0, 2), "b": randint(0, 1)}
    else:
        cs = {"x": uniform(0, 1), "k": randint(0, 3)}
    mra = bool(sp.get("max_resource_attr"))
    if mra:
        cs[MAXATTR] = max_t
    if kind == "script":
        names = sp.get("metric_names", [METRIC])
        modes = sp.get("modes", "min")
        return make_script_scheduler(seed, sp.get("params", {}), names, modes, sp.get("ckpt_mixin", False)), False
    if kind == "fifo":
        from syne_tune.optimizer.schedulers.fifo import FIFOScheduler
        so = {"debug_log": False}
        if sp["searcher"] == "bayesopt":
            so["num_init_random"] = 1000
        if sim and sp["searcher"] == "grid":
            pass
        return FIFOScheduler(cs, searcher=sp["searcher"], search_options=so, metric=METRIC, mode=mode, random_seed=seed), False
    if kind == "hb":
        from syne_tune.optimizer.schedulers.hyperband import HyperbandScheduler
        kw = dict(searcher="random", search_options={"debug_log": False}, metric=METRIC, mode=mode, resource_attr=RES,
                  type=sp["type"], grace_period=sp.get("grace_period", 1), reduction_factor=sp.get("reduction_factor", 3),
                  brackets=sp.get("brackets", 1), random_seed=seed)
        if mra:
            kw["max_resource_attr"] = MAXATTR
        else:
            kw["max_t"] = max_t
        if sp["type"] == "cost_promotion":
            kw["cost_attr"] = ST_WORKER_COST
        if sp["type"] in ("rush_stopping", "rush_promotion"):
            kw["rung_system_kwargs"] = {"num_threshold_candidates": 1}
            kw["points_to_evaluate"] = [{k: (v.lower if hasattr(v, "lower") else v) for k, v in cs.items() if hasattr(v, "sample")}]
        return HyperbandScheduler(cs, **kw), mra
    if kind == "sync":
        from syne_tune.optimizer.schedulers.synchronous import SynchronousGeometricHyperbandScheduler
        kw = dict(searcher="random", search_options={"debug_log": False}, metric=METRIC, mode=mode, resource_attr=RES,
                  grace_period=1, reduction_factor=sp.get("reduction_factor", 3), brackets=sp.get("brackets"), random_seed=seed)
        if mra:
            kw["max_resource_attr"] = MAXATTR
        else:
            kw["max_resource_level"] = max_t
        return SynchronousGeometricHyperbandScheduler(cs, **kw), mra
    if kind == "dehb":
        from syne_tune.optimizer.schedulers.synchronous import GeometricDifferentialEvolutionHyperbandScheduler
        kw = dict(search_options={"debug_log": False}, metric=METRIC, mode=mode, resource_attr=RES,
                  grace_period=1, reduction_factor=sp.get("reduction_factor", 3), brackets=sp.get("brackets"), random_seed=seed)
        if mra:
            kw["max_resource_attr"] = MAXATTR
        else:
            kw["max_resource_level"] = max_t
        return GeometricDifferentialEvolutionHyperbandScheduler(cs, **kw), mra
    if kind == "pbt":
        from syne_tune.optimizer.schedulers.pbt import PopulationBasedTraining
        return PopulationBasedTraining(cs, metric=METRIC, mode=mode, resource_attr=RES, max_t=max_t,
                                       population_size=sp.get("population_size", 3),
                                       perturbation_interval=sp.get("perturbation_interval", 1),
                                       quantile_fraction=sp.get("quantile_fraction", 0.34),
                                       search_options={"debug_log": False}, random_seed=seed), False
    if kind == "moasha":
        from syne_tune.optimizer.schedulers.multiobjective.moasha import MOASHA
        return MOASHA(cs, metrics=[METRIC, METRIC2], mode=sp.get("modes", ["min", "max"]), time_attr=RES, max_t=max_t,
                      grace_period=1, reduction_factor=sp.get("reduction_factor", 3), brackets=sp.get("brackets", 1)), False
    if kind == "median":
        from syne_tune.optimizer.schedulers.fifo import FIFOScheduler
        from syne_tune.optimizer.schedulers.median_stopping_rule import MedianStoppingRule
        base = FIFOScheduler(cs, searcher="random", search_options={"debug_log": False}, metric=METRIC, mode=mode, random_seed=seed)
        return MedianStoppingRule(base, resource_attr=RES, grace_time=sp.get("grace_time", 1),
                                  grace_population=sp.get("grace_population", 2), rank_cutoff=sp.get("rank_cutoff", 0.5)), False
    raise ValueError(kind)


# ---------------------------------------------------------------------------------
# simulator backend


def make_sim_backend(spec, max_t):
    import pandas as pd
    with contextlib.redirect_stdout(io.StringIO()):
        from syne_tune.blackbox_repository.simulated_tabular_backend import UserBlackboxBackend
        from syne_tune.blackbox_repository.blackbox_tabular import BlackboxTabular
        from syne_tune.backend.simulator_backend.simulator_backend import SimulatorConfig
    rng = random.Random(spec["seed"] * 13 + 5)
    ncfg, nseed, nfid = 6, 2, max_t
    cs = {"a": randint(0, 2), "b": randint(0, 1)}
    hp = pd.DataFrame({"a": [c // 2 for c in range(ncfg)], "b": [c % 2 for c in range(ncfg)]})
    obj = np.zeros((ncfg, nseed, nfid, 3))
    for c in range(ncfg):
        for s in range(nseed):
            el = 0.0
            for f in range(nfid):
                obj[c, s, f, 0] = rng.randrange(0, 256) / 64.0
                obj[c, s, f, 1] = rng.randrange(0, 256) / 64.0
                el += rng.randrange(1, 17) / 16.0
                obj[c, s, f, 2] = el
    bb = BlackboxTabular(hyperparameters=hp, configuration_space=cs, fidelity_space={RES: randint(1, nfid)},
                         objectives_evaluations=obj, fidelity_values=np.arange(1, nfid + 1),
                         objectives_names=[METRIC, METRIC2, "time"])
    d = spec.get("sim", {})
    dl = lambda k: d.get(k, 1) / 16.0
    cfg = SimulatorConfig(delay_on_trial_result=dl("d_result"), delay_complete_after_final_report=max(dl("d_result"), dl("d_complete")),
                          delay_complete_after_stop=dl("d_cstop"), delay_start=dl("d_start"), delay_stop=dl("d_stop"))
    be = UserBlackboxBackend(blackbox=bb, elapsed_time_attr="time", max_resource_attr=MAXATTR if spec["scheduler"].get("max_resource_attr") else None,
                             seed=d.get("bb_seed", 0), support_checkpointing=d.get("support_checkpointing", True),
                             simulator_config=cfg, tuner_sleep_time=d.get("sleep", 2) / 16.0)
    be._time_keeper.real_time_since_last_recent_exit = lambda: 0.0  # real time plays no role: fully deterministic
    # in-memory checkpoints (the simulator never writes any)
    be.ckpt, be.copy_missing, be.deleted = set(), [], []
    be.copy_checkpoint = lambda src_trial_id, tgt_trial_id: None
    be.delete_checkpoint = lambda trial_id: be.deleted.append(trial_id)
    return be


# ---------------------------------------------------------------------------------
# running one scenario


def make_criterion(c):
    kw = {}
    for k, v in c.items():
        if k in ("max_metric_value", "min_metric_value"):
            kw[k] = {name: float(Fraction(x)) for name, x in v.items()}
        elif k in ("max_wallclock_time", "max_cost"):
            kw[k] = float(Fraction(v))
        else:
            kw[k] = int(v)
    return StoppingCriterion(**kw)


def criterion_wire(c, dlg):
    out = {}
    for k, v in c.items():
        if k in ("max_metric_value", "min_metric_value"):
            out[k] = [[dlg.key(name), frac_str(float(Fraction(x)))] for name, x in v.items()]
        elif k in ("max_wallclock_time", "max_cost"):
            out[k] = frac_str(float(Fraction(v)))
        else:
            out[k] = int(v)
    return out


def stat_wire(ms, dlg):
    def d(x):
        return sorted([dlg.key(k), wire_val(v)] for k, v in x.items())
    return {"count": int(ms.count), "min": d(ms.min_metrics), "max": d(ms.max_metrics),
            "is_num": sorted([dlg.key(k), bool(v)] for k, v in ms.is_numeric.items()),
            "_sum": {dlg.key(k): v for k, v in ms.sum_metrics.items()}}


def run_loop(spec):
    """runs the real Tuner on `spec`; returns dict(dialogue, header, final, objects for monitors)"""
    rng = random.Random(spec["seed"])
    tmp = tempfile.mkdtemp(prefix="verif-loop-", dir=os.environ.get("VERIF_SCRATCH"))
    old_env = os.environ.get("SYNETUNE_FOLDER")
    os.environ["SYNETUNE_FOLDER"] = tmp
    old_time = tuning_status_module.time
    dlg = Dialogue(inject_at=spec.get("inject"))
    try:
        sim = spec["backend"] == "sim"
        max_t = spec.get("max_t", 4)
        sch, _ = make_scheduler(spec["scheduler"], spec["seed"] % 1000, max_t, sim)
        names = list(sch.metric_names())
        for n in names:
            dlg.key(n)
        if sim:
            be = make_sim_backend(spec, max_t)
        else:
            bp = dict(spec.get("backend_params", {}))
            bp.setdefault("vseed", spec["seed"] % 997)
            bp.setdefault("metric_names", names if len(names) > 1 else [METRIC])
            be = ScriptBackend(spec["seed"] * 3 + 1, bp, max_t, delete_checkpoints=bool(spec.get("delete_checkpoints")))
        callbacks = []
        rec = Recorder(dlg)
        callbacks.append(rec)
        store = None
        if sim:
            from syne_tune.backend.simulator_backend.simulator_callback import SimulatorCallback
            store = SimulatorCallback()
            callbacks.append(store)
        elif spec.get("cb_store", True):
            store = StoreResultsCallback()
            callbacks.append(store)
        crit = make_criterion(spec["criterion"])
        flags = spec.get("flags", {})
        tuning_status_module.time = ClockStub(dlg, random.Random(spec["seed"] + 99), spec.get("clock_step", 0.25))
        wrap_scheduler(sch, dlg)
        wrap_backend(be, dlg)
        tuner = Tuner(
            trial_backend=be, scheduler=sch, stop_criterion=crit, n_workers=spec["n_workers"], sleep_time=0,
            results_update_interval=-1 if spec.get("store_every") else 3600, print_update_interval=3600,
            max_failures=spec.get("max_failures", 1), tuner_name="t", asynchronous_scheduling=flags.get("async", True),
            wait_trial_completion_when_stopping=flags.get("wait", False), callbacks=callbacks, suffix_tuner_name=False,
            save_tuner=False, start_jobs_without_delay=flags.get("swd", True),
        )
        ckpt_cb = any(type(c).__name__ == "RemoveCheckpointsCallback" for c in tuner.callbacks)
        other_cb = [type(c).__name__ for c in tuner.callbacks[len(callbacks):] if type(c).__name__ != "RemoveCheckpointsCallback"]
        raised, raised_obj = None, None
        with contextlib.redirect_stdout(io.StringIO()):
            try:
                tuner.run()
            except BaseException as ex:  # noqa
                raised = type(ex).__name__ + (":" + str(ex) if isinstance(ex, ValueError) and "failed" in str(ex) else "")
                raised_obj = ex
        dlg.active = False
        ts = tuner.tuning_status
        mode = sch.metric_mode()
        final = {"raised": raised}
        if ts is not None:
            from syne_tune.tuning_status import print_best_metric_found
            with contextlib.redirect_stdout(io.StringIO()):
                b0 = print_best_metric_found(ts, names, mode)
                bests = []
                for i in range(len(names)):
                    try:
                        bests.append([int(tuner.best_config(metric=i)[0])])
                    except TypeError:  # print_best_metric_found returned None (no results)
                        bests.append(None)
            final.update({
                "started": int(ts.num_trials_started), "completed": int(ts.num_trials_completed),
                "failed": int(ts.num_trials_failed), "finished": int(ts.num_trials_finished),
                "running": int(ts.num_trials_running),
                "last": [[int(t), s] for t, s in ts.last_trial_status_seen.items()],
                "overall": stat_wire(ts.overall_metric_statistics, dlg),
                "per_trial": [[int(t), stat_wire(ms, dlg)] for t, ms in ts.trial_metric_statistics.items()],
                "best0": None if b0 is None else [int(b0[0]), wire_val(b0[1])],
                "best": bests,
                "cost": frac_str(float(ts.cost)) if not isinstance(ts.cost, int) or True else None,
            })
        rows = None
        if store is not None:
            rows = list(store.results)
        header = {
            "stream": "loop", "n_workers": spec["n_workers"], "max_failures": spec.get("max_failures", 1),
            "async": flags.get("async", True), "wait": flags.get("wait", False), "swd": flags.get("swd", True),
            "delete_checkpoints": bool(be.delete_checkpoints), "ckpt_cb": ckpt_cb, "store": store is not None,
            "sim_callback": sim, "criterion": criterion_wire(spec["criterion"], dlg),
            "key_time": dlg.keys[ST_WORKER_TIME], "key_cost": dlg.keys[ST_WORKER_COST], "key_tuner_time": dlg.keys[ST_TUNER_TIME],
            "metric_keys": [dlg.key(n) for n in names], "modes": mode if isinstance(mode, list) else [mode] * 1,
            "mode_is_list": isinstance(mode, list),
        }
        return {"dlg": dlg, "header": header, "final": final, "rows": rows, "tuner": tuner, "backend": be, "scheduler": sch,
                "recorder": rec, "names": names, "tmp": tmp, "other_cb": other_cb, "store": store,
                "raised_obj": raised_obj}
    finally:
        tuning_status_module.time = old_time
        if old_env is None:
            os.environ.pop("SYNETUNE_FOLDER", None)
        else:
            os.environ["SYNETUNE_FOLDER"] = old_env


def cleanup(t):
    shutil.rmtree(t["tmp"], ignore_errors=True)
